#!/bin/sh
# dev helper: run every claimed check (quick by default) and print one line each
tier=${1:-quick}
for p in $(/venv/bin/python -c "import json;print(' '.join(c['property_id'] for c in json.load(open('/verif/MANIFEST.json'))['checks']))"); do
  out=$(./check $p --tier $tier 2>&1); rc=$?
  echo "$p rc=$rc $(echo "$out" | grep -E "^$p \[" | tail -1) $(echo "$out" | grep -cE '^VIOLATION|ANALYSIS-ERROR|AUDIT-WARNING') alarm-lines"
done
