"""dev helper (NOT part of any check, needs numpy/pandas, run with /venv/bin/python): differential test of the NumPy model of the
exact array domain (fdv/symnum.py, fdv/syminterp.py) against the real NumPy on random small arrays and random chains of
view-producing operations.  It validates the trusted base of DESIGN.md §2: memory layout of views, view-or-copy of reshape,
contiguity flags, ravel('K'), *_like layouts, take / argwhere / unravel_index / gradient / flatnonzero / isin, ufunc out= / where=.

usage: /venv/bin/python -B tools_modelcheck.py [n_rounds]
"""
import itertools
import random
import sys

import numpy as np

sys.path.insert(0, "/verif")
from fdv.core import Program, SourceSet          # noqa: E402
from fdv.syminterp import SymInterp, Flags       # noqa: E402
from fdv import symnum as S                      # noqa: E402
from fdv.symnum import SArr, rat                 # noqa: E402


def to_sarr(a: np.ndarray) -> SArr:
    return SArr(a.shape, [rat(int(v)) for v in a.ravel(order="C")])


def vals(s: SArr):
    return [int(x.const()) for x in s.data]


def same(s: SArr, a: np.ndarray, what, log):
    ok = tuple(s.shape) == tuple(a.shape) and vals(s) == [int(v) for v in a.ravel(order="C")]
    if not ok:
        log.append(f"{what}: model shape {s.shape} values {vals(s)[:12]} / numpy shape {a.shape} values {list(a.ravel())[:12]}")
    return ok


def random_view_chain(rng, base_np, base_s, it):
    """apply the same random chain of transposes / basic slices / reshapes to both; returns (np array, SArr, description)"""
    a, s, desc = base_np, base_s, []
    for _ in range(rng.randint(0, 3)):
        op = rng.choice(["transpose", "slice", "reshape", "newaxis"])
        if op == "transpose" and a.ndim >= 2:
            perm = list(range(a.ndim))
            rng.shuffle(perm)
            a, s = a.transpose(perm), S.transpose(s, perm)
            desc.append(f"transpose{perm}")
        elif op == "slice" and a.ndim >= 1:
            key = []
            for n in a.shape:
                k = rng.choice(["all", "head", "step", "rev", "int"])
                if k == "all" or n < 2:
                    key.append(slice(None))
                elif k == "head":
                    key.append(slice(0, n - 1))
                elif k == "step":
                    key.append(slice(None, None, 2))
                elif k == "rev":
                    key.append(slice(None, None, -1))
                else:
                    key.append(rng.randrange(n))
            key = tuple(key)
            a, s = a[key], s[key]
            if not isinstance(s, SArr):
                s = SArr((), [s])
            desc.append(f"slice{key}")
        elif op == "reshape" and a.size > 1:
            shapes = [sh for sh in candidate_shapes(a.size) if sh != a.shape]
            if shapes:
                sh = rng.choice(shapes)
                a2 = a.reshape(sh)
                s2 = it.sarr_attr(s, "reshape", None)(sh)
                desc.append(f"reshape{sh}")
                a, s = a2, s2
        elif op == "newaxis":
            a, s = a[None, ...], s[(None, Ellipsis)]
            desc.append("newaxis")
    return a, s, " . ".join(desc) or "base"


def candidate_shapes(n):
    out = set()
    for a in range(1, n + 1):
        if n % a == 0:
            out.add((a, n // a))
            for b in range(1, n // a + 1):
                if (n // a) % b == 0:
                    out.add((a, b, n // a // b))
    out.add((n,))
    return sorted(out)


def shares(s: SArr, base: SArr):
    return s.base is base.base


def main():
    rounds = int(sys.argv[1]) if len(sys.argv) > 1 else 400
    prog = Program(SourceSet.load())
    it = SymInterp(prog)
    rng = random.Random(1)
    log, n = [], 0
    for r in range(rounds):
        shape = tuple(rng.randint(1, 4) for _ in range(rng.randint(1, 3)))
        base_np = np.arange(1, int(np.prod(shape)) + 1).reshape(shape).copy()
        base_s = to_sarr(base_np)
        a, s, desc = random_view_chain(rng, base_np, base_s, it)
        if not isinstance(a, np.ndarray) or a.ndim == 0:
            continue        # integer indexing down to a scalar: NumPy hands out a scalar, not an array
        n += 1
        if not same(s, a, desc, log):
            continue
        # view-ness (only meaningful while no copy happened: numpy says shares_memory)
        if a.size > 0 and "slice(" not in desc.split(" . ")[0].replace("slice(slice", "") and bool(np.shares_memory(a, base_np)) != shares(s, base_s):
            log.append(f"{desc}: numpy shares memory with the base = {np.shares_memory(a, base_np)}, model = {shares(s, base_s)}")
        fl = Flags(s)
        if (fl.c_contiguous, fl.f_contiguous) != (a.flags.c_contiguous, a.flags.f_contiguous) and a.size > 0:
            log.append(f"{desc} shape {a.shape} strides {a.strides}: flags C/F numpy {(a.flags.c_contiguous, a.flags.f_contiguous)} model {(fl.c_contiguous, fl.f_contiguous)}")
        for order in ("C", "F", "K", "A"):
            rs = it.sarr_attr(s, "ravel", None)(order)
            same(rs, a.ravel(order=order), f"{desc} ravel({order})", log)
        # zeros_like keeps the K layout: compare through ravel('K') of an arange laid into it
        z_np = np.zeros_like(a)
        z_s = it.np_attr("zeros_like", None)(s)
        z_np[...] = a
        z_s.setitem(Ellipsis, s)
        same(it.sarr_attr(z_s, "ravel", None)("K"), z_np.ravel(order="K"), f"{desc} zeros_like layout (ravel K)", log)
        # reshape: view or copy, and content
        for sh in candidate_shapes(a.size)[:6]:
            if a.size == 0:
                continue
            a2 = a.reshape(sh)
            s2 = it.sarr_attr(s, "reshape", None)(sh)
            same(s2, a2, f"{desc} reshape{sh}", log)
            if bool(np.shares_memory(a2, a)) != (s2.base is s.base):
                log.append(f"{desc} shape {a.shape} strides {a.strides} reshape{sh}: numpy view={np.shares_memory(a2, a)} model view={s2.base is s.base}")
        # argwhere / flatnonzero / unravel_index on a mask with the same layout
        mask_np = (a % 2 == 1)
        mask_s = S.elementwise(lambda x: rat(int(x.const()) % 2), s)
        aw = it.np_attr("argwhere", None)(mask_s)
        same(aw, np.argwhere(mask_np), f"{desc} argwhere", log)
        fz = it.np_attr("flatnonzero", None)(mask_s)
        same(fz, np.flatnonzero(mask_np), f"{desc} flatnonzero", log)
        if fz.size and a.ndim >= 1:
            for order in ("C", "F"):
                ui = it.np_attr("unravel_index", None)(fz, tuple(a.shape), order=order)
                un = np.unravel_index(np.flatnonzero(mask_np), a.shape, order=order)
                for k, (x, y) in enumerate(zip(ui, un)):
                    same(x, y, f"{desc} unravel_index order={order} axis {k}", log)
        # take along each axis
        for ax in range(a.ndim):
            idx = [rng.randrange(a.shape[ax]) for _ in range(2)]
            tk = it.np_attr("take", None)(s, SArr((2,), [rat(i) for i in idx]), axis=ax)
            same(tk, np.take(a, idx, axis=ax), f"{desc} take axis {ax}", log)
        # 1-d gradient
        if a.ndim == 1 and a.size >= 2:
            g = it.np_attr("gradient", None)(s)
            gn = np.gradient(a.astype(float))
            if [float(x.const()) for x in g.data] != [float(v) for v in gn]:
                log.append(f"{desc} gradient: model {[float(x.const()) for x in g.data]} numpy {list(gn)}")
        # ufunc with out= and where=
        out_np = np.full(a.shape, -7)
        out_s = SArr.full(a.shape, -7)
        np.multiply(a, 2, out=out_np, where=mask_np)
        it.np_attr("multiply", None)(s, 2, out=out_s, where=mask_s)
        same(out_s, out_np, f"{desc} multiply(out=, where=)", log)
    print(f"{n} random view chains compared; {len(log)} disagreement(s)")
    for line in log[:25]:
        print("  ", line)
    return 1 if log else 0




# ------------------------------------------------------------------------------------------------------------------------------
def labelled_index_check(rounds=400):
    """the labelled-tensor model of NumPy indexing (fdv/npmodel.index_plan: basic / advanced / open-mesh / mixed) against NumPy:
    arrays whose entries encode their own labels are indexed both ways and must agree entry by entry"""
    from fdv import npmodel as NP
    rng = random.Random(7)
    log, n = [], 0
    for r in range(rounds):
        nd = rng.randint(1, 4)
        lens = [rng.randint(2, 4) for _ in range(nd)]
        axes = [tuple(f"{'abcd'[d]}{i}" for i in range(lens[d])) for d in range(nd)]
        a = np.zeros(lens, dtype=int)
        for idx in itertools.product(*[range(k) for k in lens]):
            a[idx] = sum((i + 1) * 10 ** (nd - 1 - d) for d, i in enumerate(idx))
        leaf = NP.leaf("x", axes)
        style = rng.choice(["basic", "lists", "mesh", "mixed"])
        key_np, key_m = [], []
        picks = {d: rng.sample(range(lens[d]), rng.randint(1, lens[d])) for d in range(nd)}
        mesh_dims = [d for d in range(nd) if rng.random() < 0.6] if style == "mesh" else []
        meshes = np.ix_(*[picks[d] for d in mesh_dims]) if mesh_dims else ()
        n_list = 0
        for d in range(nd):
            if style == "mesh" and d in mesh_dims:
                j = mesh_dims.index(d)
                key_np.append(meshes[j])
                key_m.append(NP.Mesh(j, len(mesh_dims), picks[d]))
                continue
            k = rng.choice(["all", "int", "slice"] + (["list"] if style in ("lists", "mixed") and n_list == 0 else []) + (["new"] if style == "mixed" else []))
            if k == "all":
                key_np.append(slice(None)); key_m.append(slice(None))
            elif k == "int":
                i = rng.randrange(lens[d]); key_np.append(i); key_m.append(i)
            elif k == "slice":
                sl = slice(0, rng.randint(1, lens[d])); key_np.append(sl); key_m.append(sl)
            elif k == "list":
                n_list += 1
                key_np.append(list(picks[d])); key_m.append(list(picks[d]))
            else:
                key_np.append(None); key_m.append(None)
                key_np.append(slice(None)); key_m.append(slice(None))
        try:
            got = NP.getitem(leaf, tuple(key_m))
        except (NP.ModelAbort, NP.ModelViolation) as e:
            continue
        except NP.NumpyRaise:
            try:
                a[tuple(key_np)]
                log.append(f"model raises, numpy accepts: {key_m}")
            except Exception:
                pass
            continue
        real = a[tuple(key_np)]
        n += 1
        shape = tuple(NP.axis_len(ax) for ax in got.axes)
        if shape != real.shape:
            log.append(f"{style} key {key_m} on lengths {lens}: model axes {got.axes} (shape {shape}), numpy shape {real.shape}")
            continue
        # entry by entry: decode the labels numpy put at each result position and compare with the model's axes + fixed items
        fixed = {}
        for d in range(nd):
            sel = None
            t = got.term
        for ridx in itertools.product(*[range(k) for k in shape]):
            code = int(real[ridx])
            digits = [(code // 10 ** (nd - 1 - d)) % 10 - 1 for d in range(nd)]
            labels_np = {f"{'abcd'[d]}": f"{'abcd'[d]}{digits[d]}" for d in range(nd)}
            for k, ax in enumerate(got.axes):
                if NP.is_labelled(ax):
                    item = ax[ridx[k]]
                    if labels_np[item[0]] != item:
                        log.append(f"{style} key {key_m} lengths {lens}: result axis {k} says {item} at {ridx}, numpy's entry there carries {labels_np[item[0]]}")
                        break
    print(f"{n} labelled index expressions compared; {len(log)} disagreement(s)")
    for line in log[:15]:
        print("  ", line)
    return 1 if log else 0


if __name__ == "__main__":
    rc = labelled_index_check() if "--labelled" in sys.argv else main()
    sys.exit(rc)
