"""dev helper: run the mutant audit of one property at quick tier and print the kill matrix"""
import sys, json
sys.path.insert(0, '/verif')
from fdv.core import SourceSet, Report
from fdv.cli import mutant_audit, load_module
pid = sys.argv[1].upper()
ss = SourceSet.load()
rep = Report(pid, 'quick', 0)
mutant_audit(pid, ss, rep, 0)
for k, v in rep.audit['results'].items():
    print(f"{k:50s} {v['status']:15s} expect={v.get('expect')} {v.get('by') or v.get('why','')[:150] or ''}")
print('UNEXPECTED', rep.audit['unexpected'])
