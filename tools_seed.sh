#!/bin/sh
# dev helper: tools_seed.sh <diff> <ID> [<ID>...]  : apply a seeded change to /repo, run the quick checks, undo it
d="$1"; shift
trap 'git -C /repo checkout -- . ' EXIT INT TERM PIPE HUP
git -C /repo apply "$d" || { echo "cannot apply $d"; exit 3; }
out=$(mktemp)
for id in "$@"; do (cd /verif && ./check "$id" --tier quick > "$out" 2>&1; echo "exit=$?" >> "$out"); grep -E "VIOLATION|ANALYSIS-ERROR|KNOWN|exit=|^C[0-9]" "$out" | cut -c1-300 | head -8; grep -m2 "^  flodym" "$out" | cut -c1-400; done
rm -f "$out"
git -C /repo checkout -- .
trap - EXIT
