#!/bin/sh
# dev helper: tools_seed.sh <diff> <ID> [<ID>...]  : apply a seeded change to /repo, run the quick checks, undo it
d="$1"; shift
git -C /repo apply "$d" || { echo "cannot apply $d"; exit 3; }
for id in "$@"; do (cd /verif && ./check "$id" --tier quick 2>&1 | tail -6); echo "exit=$?"; done
git -C /repo checkout -- . 
git -C /repo status --short | grep -v '^??' | head -3
