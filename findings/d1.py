import numpy as np, warnings, logging
import flodym as fd
from flodym import *

def dims3(nx=2, ny=3, nz=4):
    return DimensionSet(dim_list=[
        Dimension(name='Xx', letter='x', items=[f'x{i}' for i in range(nx)]),
        Dimension(name='Yy', letter='y', items=[f'y{i}' for i in range(ny)]),
        Dimension(name='Zz', letter='z', items=[f'z{i}' for i in range(nz)]),
    ])

print("== D1 get_subset() aliasing (C14)")
d = dims3()
s = d.get_subset()
s.append(Dimension(name='Ww', letter='w', items=[1]), inplace=True)
print(" receiver letters after mutating result:", d.letters)

print("== D2 slice read returns view (C15)")
a = FlodymArray(dims=dims3(), values=np.arange(24.).reshape(2,3,4))
b = a[{'x': 'x0'}]
b.values[...] = -1
print(" source changed:", (a.values[0] == -1).all())
c = a[...]
print(" a[...] shares memory:", np.shares_memory(c.values, a.values))
e = a.sum_to(('x','y','z'))
print(" sum_to(all) shares memory:", np.shares_memory(e.values, a.values))
e2 = a.sum_over(())
print(" sum_over(()) shares memory:", np.shares_memory(e2.values, a.values))
print(" cast_to(same) shares:", np.shares_memory(a.cast_to(a.dims).values, a.values))
print(" abs shares:", np.shares_memory(abs(a).values, a.values), " a+0 shares:", np.shares_memory((a+0).values, a.values))
print(" a+a2 shares:", np.shares_memory((a+a).values, a.values))

print("== D4 set_values assign-then-check (C13)")
a = FlodymArray(dims=dims3())
try:
    a.set_values(np.zeros((3,3)))
except ValueError as ex:
    print(" raised; values shape now", a.values.shape, "dims shape", a.dims.shape)
a = FlodymArray(dims=dims3())
try:
    a[...] = np.zeros((3,3))
except ValueError as ex:
    print(" [...]= raised; values shape now", a.values.shape)

print("== D5 int + subset across a kept dimension (C06)")
for shape in [(2,3,4),(2,3,3)]:
    dd = dims3(*shape)
    a = FlodymArray(dims=dd, values=np.arange(np.prod(shape), dtype=float).reshape(shape))
    sub = Dimension(name='Zsub', letter='s', items=['z2','z0','z1'])
    try:
        r = a[{'x': 'x1', 'z': sub}]
        exp = a.values[1][:, [2,0,1]]
        print(" shape", shape, "dims", r.dims.letters, r.values.shape, "correct:", np.array_equal(r.values, exp))
    except Exception as ex:
        print(" shape", shape, "raised", type(ex).__name__, str(ex)[:100])
    # other order: subset first then int
    try:
        subx = Dimension(name='Xsub', letter='u', items=['x1','x0'])
        r = a[{'x': subx, 'z': 'z1'}]
        exp = a.values[[1,0]][:, :, 1]
        print("   list-first", r.dims.letters, r.values.shape, "correct:", np.array_equal(r.values, exp))
    except Exception as ex:
        print("   list-first raised", type(ex).__name__, str(ex)[:100])
