import numpy as np
from flodym import *
def dims3(nx=2, ny=3, nz=4):
    return DimensionSet(dim_list=[
        Dimension(name='Xx', letter='x', items=[f'x{i}' for i in range(nx)]),
        Dimension(name='Yy', letter='y', items=[f'y{i}' for i in range(ny)]),
        Dimension(name='Zz', letter='z', items=[f'z{i}' for i in range(nz)]),
    ])
a = FlodymArray(dims=dims3(), values=np.arange(24.).reshape(2,3,4))
unk = Dimension(name='Qq', letter='q', items=[1,2])
print("== D15 sum_over(unknown Dimension object)")
try:
    r = a.sum_over((unk,)); print(" not rejected; result dims", r.dims.letters)
except Exception as ex: print(" rejected", type(ex).__name__)
try:
    r = a.sum_over(('q',)); print(" str unknown not rejected")
except Exception as ex: print(" str unknown rejected", type(ex).__name__)
try:
    r = a.sum_to((unk,)); print(" sum_to unknown dim not rejected", r.dims.letters)
except Exception as ex: print(" sum_to unknown Dimension rejected", type(ex).__name__)
print("== get_subset duplicates")
s = dims3().get_subset(('x','x')); print(" letters", s.letters)
print("== expand_by inplace duplicates")
d = dims3(); 
try:
    d.expand_by([unk, unk], inplace=True); print(" letters", d.letters)
except Exception as ex: print(" rejected", type(ex).__name__)
print("== list keys + setitem")
a = FlodymArray(dims=dims3(), values=np.zeros((2,3,4)))
a[{'x': 'x1', 'z': ['z2','z0']}] = 5.0
print(" wrote entries:", np.argwhere(a.values==5).tolist())
a = FlodymArray(dims=dims3(), values=np.zeros((2,3,4)))
pass
print(" a[x1] after (3,2) write:\n", a.values[1])
print("== rpow / reflected")
print((2 - FlodymArray(dims=dims3(), values=np.ones((2,3,4)))).values.max(), (2 / FlodymArray(dims=dims3(), values=2*np.ones((2,3,4)))).values.max())
print("== stock validators: same letters, different items length")
t1 = DimensionSet(dim_list=[Dimension(name='Time', letter='t', items=[1,2,3])])
t2 = DimensionSet(dim_list=[Dimension(name='Time', letter='t', items=[1,2,3,4])])
try:
    s = SimpleFlowDrivenStock(dims=t1, inflow=StockArray(dims=t2)); print(" accepted inflow with other length", s.inflow.shape, s.stock.shape)
except Exception as ex: print(" rejected", type(ex).__name__)
print("== lifetime model time not first")
d = DimensionSet(dim_list=[Dimension(name='Reg', letter='r', items=[1,2]), Dimension(name='Time', letter='t', items=[1,2,3])])
try:
    lm = NormalLifetime(dims=d, mean=2., std=1.); print(" accepted; sf shape", lm.sf.shape)
except Exception as ex: print(" rejected/failed", type(ex).__name__, str(ex)[:80])
