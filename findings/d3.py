import numpy as np, logging, tempfile, os
import pandas as pd
from flodym import *

class M(MFASystem):
    def compute(self): pass

def dims():
    return DimensionSet(dim_list=[
        Dimension(name='Time', letter='t', items=[2000,2001,2002], dtype=int),
        Dimension(name='Elem', letter='e', items=['a','b']),
    ])

def build(proc, flowdefs, stockdefs=()):
    d = dims()
    p = make_processes(proc)
    f = make_empty_flows(p, flowdefs, d)
    s = make_empty_stocks(list(stockdefs), p, d)
    return M(dims=d, parameters={}, processes=p, flows=f, stocks=s)

print("== D7 no stocks, default tolerance (C02)")
m = build(['sysenv','a'], [FlowDefinition(from_process='sysenv', to_process='a', dim_letters=('t','e')),
                           FlowDefinition(from_process='a', to_process='sysenv', dim_letters=('t','e'))])
for f in m.flows.values(): f.values[...] = 1.0
try:
    m.check_mass_balance(); print(" ok")
except Exception as ex: print(" raised", type(ex).__name__, ex)
try:
    m.check_flows(); print(" check_flows ok")
except Exception as ex: print(" check_flows raised", type(ex).__name__, ex)

print("== D8 process without any flow (C02)")
m = build(['sysenv','a','lonely'], [FlowDefinition(from_process='sysenv', to_process='a', dim_letters=('t','e')),
                           FlowDefinition(from_process='a', to_process='sysenv', dim_letters=('t','e'))])
for f in m.flows.values(): f.values[...] = 1.0
try:
    m.check_mass_balance(tolerance=1e-9); print(" ok")
except Exception as ex: print(" raised", type(ex).__name__, ex)

print("== D6 NaN balance reported as success (C02)")
m = build(['sysenv','a'], [FlowDefinition(from_process='sysenv', to_process='a', dim_letters=('t','e')),
                           FlowDefinition(from_process='a', to_process='sysenv', dim_letters=('t','e'))])
m.flows['sysenv => a'].values[...] = 1.0
m.flows['a => sysenv'].values[...] = 1.0
m.flows['a => sysenv'].values[0,0] = np.nan
try:
    m.check_mass_balance(tolerance=1e-9); print(" NaN balance -> no error (reported as success)")
except Exception as ex: print(" raised", type(ex).__name__, str(ex)[:80])

print("== D9 solver from StockDefinition dropped (C18)")
d = dims()
p = make_processes(['sysenv','a'])
s = make_empty_stocks([StockDefinition(name='st', process='a', dim_letters=('t','e'), subclass=StockDrivenDSM,
                                        lifetime_model_class=NormalLifetime, solver='lapack')], p, d)
print(" definition solver=lapack -> built stock solver =", s['st'].solver)

print("== D10 Excel readers with no sheet named (C18)")
tmp = tempfile.mkdtemp()
path = os.path.join(tmp, 'dim.xlsx')
pd.DataFrame(['a','b','c']).to_excel(path, header=False, index=False)
try:
    r = ExcelDimensionReader(dimension_files={'Elem': path})
    dim = r.read_dimension(DimensionDefinition(name='Elem', letter='e', dtype=str))
    print(" items", dim.items)
except Exception as ex: print(" dim reader raised", type(ex).__name__, str(ex)[:100])
ppath = os.path.join(tmp, 'prm.xlsx')
dd = DimensionSet(dim_list=[Dimension(name='Elem', letter='e', items=['a','b','c'], dtype=str)])
FlodymArray(dims=dd, values=np.array([1.,2.,3.])).to_df(index=False).to_excel(ppath, index=False)
try:
    pr = ExcelParameterReader(parameter_files={'p': ppath})
    prm = pr.read_parameter_values('p', dd)
    print(" prm", prm.values)
except Exception as ex: print(" prm reader raised", type(ex).__name__, str(ex)[:100])
import shutil; shutil.rmtree(tmp)

print("== int16 index overflow in from_df (C11)")
n = 40000
big = DimensionSet(dim_list=[Dimension(name='Big', letter='b', items=list(range(n)), dtype=int)])
src = FlodymArray(dims=big, values=np.arange(n, dtype=float)+1)
df = src.to_df(index=False)
try:
    back = FlodymArray.from_df(dims=big, df=df)
    print(" round trip equal:", np.array_equal(back.values, src.values), " mismatches:", int((back.values != src.values).sum()))
except Exception as ex: print(" raised", type(ex).__name__, str(ex)[:100])
