import numpy as np, logging, tempfile, os
import pandas as pd
from flodym import *

def tdims(items, nr=2):
    return DimensionSet(dim_list=[
        Dimension(name='Time', letter='t', items=list(items), dtype=int),
        Dimension(name='Region', letter='r', items=[f'r{i}' for i in range(nr)]),
    ])

print("== D3 set_prms does not invalidate cached sf (C17)")
d = tdims(range(2000, 2010))
lm = NormalLifetime(dims=d, mean=5., std=1.)
s1 = lm.sf.copy()
lm.set_prms(mean=FlodymArray(dims=d, values=np.full(d.shape, 2.)), std=FlodymArray(dims=d, values=np.full(d.shape, 1.)))
fresh = NormalLifetime(dims=d, mean=2., std=1.)
print(" stale after set_prms:", np.array_equal(lm.sf, s1), " equals fresh:", np.allclose(lm.sf, fresh.sf))

print("== D11/D12/D13 units on uneven grid (C03, C09)")
for items in ([2000,2001,2002,2003,2004,2005],[2000,2002,2004,2006,2008],[2000,2001,2003,2006,2010,2011]):
    d = tdims(items, 1)
    dsm = InflowDrivenDSM(dims=d, lifetime_model=LogNormalLifetime(dims=d, mean=4., std=2.))
    dsm.inflow.values[...] = np.arange(1, len(items)+1)[:, None] * 1.0
    dsm.compute()
    dt = dsm._t.interval_lengths
    ds = np.diff(dsm.stock.values, axis=0, prepend=0)
    resid = ds - dt[:, None]*(dsm.inflow.values - dsm.outflow.values)
    print(" grid", items, "dt", dt)
    print("   max |ds - dt*(in-out)| =", np.abs(resid).max(), " get_stock_balance max =", np.abs(dsm.get_stock_balance()).max())
    print("   stock == sum stock_by_cohort:", np.allclose(dsm.stock.values, dsm.get_stock_by_cohort().sum(axis=1)))
    sd = StockDrivenDSM(dims=d, lifetime_model=LogNormalLifetime(dims=d, mean=4., std=2.))
    sd.stock.values[...] = dsm.stock.values
    sd.compute()
    print("   SD inflow==orig:", np.allclose(sd.inflow.values, dsm.inflow.values), " SD stock==sum sbc:", np.allclose(sd.stock.values, sd.get_stock_by_cohort().sum(axis=1)),
          " SD sbc == ID sbc:", np.allclose(sd.get_stock_by_cohort(), dsm.get_stock_by_cohort()))
    sf = SimpleFlowDrivenStock(dims=d)
    sf.inflow.values[...] = 3.; sf.outflow.values[...] = 1.
    sf.compute()
    print("   simple stock balance max:", np.abs(sf.get_stock_balance()).max())
