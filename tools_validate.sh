#!/bin/sh
# validate MANIFEST.json and every evidence file against the schemas (tooling venv has jsonschema)
python3-vt - <<'PY'
import json, jsonschema, glob
m=json.load(open('/verif/MANIFEST.json')); jsonschema.validate(m, json.load(open('/root/.vp/MANIFEST.schema.json'))); print('manifest ok,', len(m['checks']), 'checks,', len(m.get('not_applicable',[])), 'n/a')
es=json.load(open('/root/.vp/EVIDENCE.schema.json'))
for c in m['checks']:
    try:
        e=json.load(open(c['evidence_file'])); jsonschema.validate(e, es)
        assert e['property_id']==c['property_id'] and e['level']==c['level_claimed']['category']
    except Exception as ex: print('EVIDENCE PROBLEM', c['property_id'], str(ex)[:200])
print('evidence checked')
PY
