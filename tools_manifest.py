"""Regenerates MANIFEST.json from the per-property tables (dev helper; MANIFEST.json itself is committed)."""
import importlib
import json
import sys

sys.path.insert(0, "/verif")

TITLES = {}
for l in open("/verif/properties.jsonl"):
    p = json.loads(l)
    TITLES[p["id"]] = p["title"]

ENGINES = [
    {"name": "fdv-front-end", "path": "fdv/core.py", "serves_properties": sorted(TITLES),
     "kind_free_text": "SourceSet + resolved program index (modules, classes/MRO, aliases, imports, pydantic model summary) over the AST of /repo/flodym; findings, floors, evidence"},
    {"name": "fdv-enumerative-evaluator", "path": "fdv/interp.py",
     "serves_properties": ["C01", "C02", "C04", "C05", "C06", "C07", "C13", "C14", "C15", "C17", "C18", "C19", "C20"],
     "kind_free_text": "abstract interpreter for the Python subset in use, evaluating the repository's AST on representatives of finite abstract classes (letters/items as atoms, tainted lengths, heap identities); no flodym/numpy code is executed"},
    {"name": "fdv-labelled-tensor-model", "path": "fdv/npmodel.py", "serves_properties": ["C01", "C02", "C04", "C05", "C06", "C07", "C13", "C15"],
     "kind_free_text": "abstract NumPy: arrays as labelled tensors (axes = item tuples, entries = symbolic terms addressed by label, buffer identities); einsum / broadcasting / advanced indexing by NumPy's documented rules; a positional line-up of differently labelled axes is a violation"},
    {"name": "fdv-symbolic-grid-evaluator", "path": "fdv/syminterp.py", "serves_properties": ["C03", "C08", "C09", "C10", "C16", "C17"],
     "kind_free_text": "the same abstract interpreter with NumPy interpreted over exact rational forms (fdv/symnum.py) on small concrete grids: every number symbolic, scipy distributions as uninterpreted function symbols, forward substitution exact; identities of the properties decided as polynomial identities; no solver, no path conditions"},
]


def build():
    checks, na = [], []
    for pid in sorted(TITLES):
        try:
            mod = importlib.import_module(f"fdv.props.{pid.lower()}")
        except ModuleNotFoundError:
            na.append({"property_id": pid, "reason": "check not built yet in this round (static rule set under construction; see DESIGN.md §3)"})
            continue
        if getattr(mod, "NOT_APPLICABLE", None):
            na.append({"property_id": pid, "reason": mod.NOT_APPLICABLE})
            continue
        checks.append({
            "property_id": pid,
            "quick_cmd": f"./check {pid} --tier quick",
            "thorough_cmd": f"./check {pid} --tier thorough",
            "evidence_file": f"/verif/evidence/{pid}.json",
            "replay_cmd_template": f"./check {pid} --replay {{path}}",
            "engine": getattr(mod, "ENGINE", "fdv-enumerative-evaluator"),
            "level_claimed": {"category": getattr(mod, "LEVEL", "other"), "text": mod.CLAIM if hasattr(mod, "CLAIM") else mod.EXPLANATION,
                              "design_ref": f"DESIGN.md §3 {pid}"},
            "level_note": getattr(mod, "LEVEL_NOTE", "trusted base: DESIGN.md §2 (CPython ast = the program; pydantic v2 construction/model_copy semantics; NumPy einsum/broadcast/indexing rules as modelled in fdv/npmodel.py)"),
            "technique": getattr(mod, "TECHNIQUE", "static analysis: abstract interpretation of the repository's AST over a finite abstract domain, exhaustively enumerated"),
        })
    return {
        "version": 1,
        "setup_cmd": "/venv/bin/python -B -c \"import compileall,sys; sys.exit(0 if compileall.compile_dir('/verif/fdv', quiet=1, legacy=False) else 1)\"",
        "hooks": {"guard": "FLODYM_VERIF", "enable": "none needed: the checks read /repo/flodym as text and never execute it; no hook commits exist",
                  "baseline_off_cmd": "cd /repo && /venv/bin/python -m pytest -ra -q -p no:cacheprovider --timeout=900 --continue-on-collection-errors",
                  "source_commits": [], "add_only": True},
        "engines": ENGINES,
        "checks": checks,
        "not_applicable": na,
        "notes": "Technique family: static analysis. All checks parse /repo/flodym afresh on every run (stdlib ast, /venv/bin/python) and never import or execute flodym, numpy, pandas, pydantic or scipy. Exit 0 = all obligations discharged (KNOWN-FINDING lines for listed findings); exit 1 + VIOLATION line = unlisted violation; exit 2 + ANALYSIS-ERROR = the analysis cannot stand (vanished anchor, unsupported construct). known_findings.json lists recorded/fixed defects.",
    }


if __name__ == "__main__":
    m = build()
    json.dump(m, open("/verif/MANIFEST.json", "w"), indent=1)
    print("claimed:", [c["property_id"] for c in m["checks"]], "n/a:", len(m["not_applicable"]))
