"""dev helper (NOT part of any check; needs pandas, run with /venv/bin/python): differential test of the pandas model
(fdv/pdmodel.py) against the real pandas on random small frames, for the operations the importer / exporter use.
Validates the trusted base of DESIGN.md §2 for C11 / C12 / C19.

usage: /venv/bin/python -B tools_modelcheck_pd.py [n_rounds]
"""
import io
import random
import sys

import numpy as np
import pandas as pd

sys.path.insert(0, "/verif")
from fdv import pdmodel as PD                     # noqa: E402
from fdv.interp import PyRaise, AnalysisAbort      # noqa: E402
from fdv.symnum import SArr, Rat                   # noqa: E402


def norm(v):
    if v is PD.NaN or (isinstance(v, float) and v != v) or v is pd.NA:
        return "NaN"
    if v is None:
        return "None"
    if isinstance(v, Rat) and v.is_const():
        c = v.const()
        return int(c) if c.denominator == 1 else float(c)
    if isinstance(v, (np.integer,)):
        return int(v)
    if isinstance(v, (np.floating,)):
        return "NaN" if v != v else (int(v) if float(v).is_integer() else float(v))
    if isinstance(v, float) and v.is_integer():
        return int(v)
    if isinstance(v, (np.bool_, bool)):
        return bool(v)
    return v


def model_table(f: PD.Frame):
    idx = None if f.index.default else [tuple(norm(x) for x in t) for t in f.index.tuples]
    if idx is not None and list(f.index.names) == [None] and idx == [(i,) for i in range(len(idx))]:
        idx = None          # 0..n-1 without a name: pandas turns such an index back into a RangeIndex
    return [norm(c) for c in f.columns.labels], [[norm(c) for c in r] for r in f.rows], idx, (None if idx is None else list(f.index.names))


def real_table(df: pd.DataFrame):
    idx = [tuple(norm(x) for x in (t if isinstance(t, tuple) else (t,))) for t in df.index]
    default = list(df.index.names) == [None] and idx == [(i,) for i in range(len(idx))]
    idx = None if default else idx
    return [norm(c) for c in df.columns], [[norm(c) for c in r] for r in df.itertuples(index=False, name=None)], idx, (None if default else list(df.index.names))


def compare(what, m, r, log):
    try:
        a = model_table(m) if isinstance(m, PD.Frame) else m
        b = real_table(r) if isinstance(r, pd.DataFrame) else r
    except Exception as e:      # noqa
        log.append(f"{what}: could not tabulate ({e})")
        return
    if a != b:
        log.append(f"{what}:\n      model {a}\n      pandas {b}")


def both(what, fm, fr, log):
    """run the model and pandas; both raise, or both give the same table"""
    try:
        m = fm()
        mk = "ok"
    except PyRaise as e:
        m, mk = e.exc_name, "raise"
    except AnalysisAbort:
        return
    try:
        r = fr()
        rk = "ok"
    except Exception as e:      # noqa
        r, rk = type(e).__name__, "raise"
    if mk != rk:
        log.append(f"{what}: model {mk} ({m if mk == 'raise' else ''}), pandas {rk} ({r if rk == 'raise' else ''})")
    elif mk == "ok":
        compare(what, m, r, log)


def main():
    rounds = int(sys.argv[1]) if len(sys.argv) > 1 else 300
    rng = random.Random(3)
    log, n = [], 0
    for _ in range(rounds):
        n += 1
        # a long table over 1-3 label columns (strings / unsorted ints) and a value column
        nd = rng.randint(1, 3)
        items = []
        for d in range(nd):
            if rng.random() < 0.4:
                its = rng.sample([2000, 2001, 2002, 2003, 1999], rng.randint(1, 3))
            else:
                its = rng.sample([f"{'abc'[d]}{i}" for i in range(4)], rng.randint(1, 3))
            items.append(its)
        names = [f"D{d}" for d in range(nd)]
        mi_m = PD.MultiIndexType().from_product(items, names=names)
        mi_r = pd.MultiIndex.from_product(items, names=names)
        nrows = len(mi_r)
        valsl = [float(i + 1) for i in range(nrows)]
        fm = PD.DataFrameType()({"value": list(valsl)}).set_index(mi_m)
        fr = pd.DataFrame({"value": list(valsl)}).set_index(mi_r)
        compare("from_product + set_index", fm, fr, log)
        long_m, long_r = fm.reset_index(), fr.reset_index()
        compare("reset_index", long_m, long_r, log)
        # permute rows, keep the (now non-default) index
        order = list(range(nrows))
        rng.shuffle(order)
        pm = long_m.iloc[order, :]
        pr = long_r.iloc[order, :]
        compare("iloc[rows, :]", pm, pr, log)
        compare("iloc[:, j] -> frame", PD.Frame(["c"], [[x] for x in long_m.iloc[:, 0].cells]), pd.DataFrame({"c": list(long_r.iloc[:, 0])}), log)
        # pivot on each dimension
        for k in range(nd):
            rest = [x for x in names if x != names[k]]
            both(f"pivot(index={rest}, columns={names[k]})", lambda: long_m.pivot(index=rest, columns=names[k], values="value"),
                 lambda: long_r.pivot(index=rest, columns=names[k], values="value"), log)
        # melt of the wide form back
        if nd >= 2:
            wide_m = long_m.pivot(index=names[:-1], columns=names[-1], values="value").reset_index()
            wide_r = long_r.pivot(index=names[:-1], columns=names[-1], values="value").reset_index()
            compare("pivot.reset_index", wide_m, wide_r, log)
            vv = [c for c in wide_r.columns if c not in names[:-1]]
            both("melt", lambda: wide_m.melt(id_vars=names[:-1], value_vars=vv, var_name=names[-1], value_name="value"),
                 lambda: wide_r.melt(id_vars=names[:-1], value_vars=vv, var_name=names[-1], value_name="value"), log)
        # map / isin / duplicated / fillna / boolean filter / drop by label on a frame with repeated row labels
        col = names[0]
        mapping = {it: i for i, it in enumerate(items[0][:-1] or items[0])}
        sm, sr = long_m[col].map(mapping), long_r[col].map(mapping)
        if [norm(c) for c in sm.cells] != [norm(c) for c in sr]:
            log.append(f"Series.map(dict): model {[norm(c) for c in sm.cells]} pandas {[norm(c) for c in sr]}")
        known = items[0][:1]
        im, ir = long_m[col].isin(known), long_r[col].isin(known)
        if [bool(c) for c in im.cells] != [bool(c) for c in ir]:
            log.append("Series.isin differs")
        compare("boolean filter", long_m[im], long_r[ir], log)
        dup_m = PD.concat([long_m, long_m.iloc[[0], :]])
        dup_r = pd.concat([long_r, long_r.iloc[[0], :]])
        compare("concat (index kept)", dup_m, dup_r, log)
        for keep in ("first", "last", False):
            a = [bool(c) for c in dup_m.duplicated(subset=names, keep=keep).cells]
            b = [bool(c) for c in dup_r.duplicated(subset=names, keep=keep)]
            if a != b:
                log.append(f"duplicated(keep={keep}): model {a} pandas {b}")
        lab = int(dup_r.index[-1])
        both("drop(index=label) with repeated labels", lambda: dup_m.drop(index=[lab]), lambda: dup_r.drop(index=[lab]), log)
        both("drop(index=unknown label)", lambda: dup_m.drop(index=[987]), lambda: dup_r.drop(index=[987]), log)
        # boolean Series selectors and Series assignment align by index LABEL (frame rows shuffled, labels kept)
        sh_m, sh_r = long_m.iloc[order, :], long_r.iloc[order, :]
        bits = [rng.random() < 0.5 for _ in range(nrows)]
        mask_m = PD.Series(list(bits), None, PD.Index.range(nrows))
        mask_r = pd.Series(list(bits))
        both("df[bool Series with a default index] on a shuffled frame", lambda: sh_m[mask_m], lambda: sh_r[mask_r], log)
        both("df.loc[bool Series] on a shuffled frame", lambda: sh_m.loc[mask_m], lambda: sh_r.loc[mask_r], log)
        both("df.loc[bool list] (positional)", lambda: sh_m.loc[list(bits)], lambda: sh_r.loc[list(bits)], log)
        short_m, short_r = PD.Series(list(bits[:-1]), None, PD.Index.range(nrows - 1)), pd.Series(list(bits[:-1]))
        if nrows > 1:
            both("df.loc[bool Series lacking a label]", lambda: sh_m.loc[short_m], lambda: sh_r.loc[short_r], log)
        def set_m():
            f = sh_m.copy(); f["extra"] = PD.Series([float(i) for i in range(nrows)], None, PD.Index.range(nrows)); return f
        def set_r():
            f = sh_r.copy(); f["extra"] = pd.Series([float(i) for i in range(nrows)]); return f
        both("df[col] = Series (aligned by label)", set_m, set_r, log)
        ge_m = PD.DataFrameType()({"p": [float(i % 3 - 1) for i in range(nrows)], "q": [float(i % 2) for i in range(nrows)]})
        ge_r = pd.DataFrame({"p": [float(i % 3 - 1) for i in range(nrows)], "q": [float(i % 2) for i in range(nrows)]})
        a_ = [bool(c) for c in (ge_m >= 0).all(axis=1).cells]
        b_ = [bool(c) for c in (ge_r >= 0).all(axis=1)]
        if a_ != b_:
            log.append(f"(df >= 0).all(axis=1): model {a_} pandas {b_}")
        # get_indexer
        tgt = list(items[0]) + ["zz"]
        gm = PD.Index([(x,) for x in items[0]], [None]).get_indexer(tgt)
        gr = pd.Index(items[0]).get_indexer(pd.Index(tgt, dtype=object))
        if [norm(x) for x in gm.data] != [int(x) for x in gr]:
            log.append(f"Index.get_indexer: model {[norm(x) for x in gm.data]} pandas {list(gr)}")
        # CSV text round trip with type inference
        buf = io.StringIO()
        long_r.to_csv(buf, index=False)
        back_r = pd.read_csv(io.StringIO(buf.getvalue()))
        back_m = PD.read_csv_text(list(long_m.columns.labels), [list(r) for r in long_m.rows])
        compare("to_csv/read_csv", back_m, back_r, log)
        # np.setdiff1d on mixed labels
        a = list(items[0]) + ["value"]
        b = list(items[0])
        sm_ = PD.setdiff1d(a, b)
        sr_ = np.setdiff1d(a, b)
        if [str(x) for x in (sm_.cells if hasattr(sm_, "cells") else sm_)] != [str(x) for x in sr_]:
            log.append(f"setdiff1d({a},{b}): model {list(sm_.cells if hasattr(sm_, 'cells') else sm_)} numpy {list(sr_)}")
    print(f"{n} random tables compared; {len(log)} disagreement(s)")
    for line in log[:20]:
        print("  ", line[:600])
    return 1 if log else 0


if __name__ == "__main__":
    sys.exit(main())
