#!/bin/sh
# dev helper: tools_diff_all.sh <diff> [IDs...] : apply a diff to /repo, run quick checks (default: all claimed), undo; print non-zero exits
d="$1"; shift
ids="$@"
[ -z "$ids" ] && ids=$(/venv/bin/python -c "import json;print(' '.join(c['property_id'] for c in json.load(open('/verif/MANIFEST.json'))['checks']))")
trap 'git -C /repo checkout -- . ' EXIT INT TERM PIPE HUP
git -C /repo apply "$d" || { echo "cannot apply $d"; exit 3; }
for id in $ids; do
  out=$(cd /verif && FDV_WORKERS=8 ./check "$id" --tier quick 2>&1); rc=$?
  if [ $rc -ne 0 ]; then echo "$id rc=$rc"; echo "$out" | grep -E "^  flodym|ANALYSIS-ERROR" | cut -c1-330 | head -3; fi
done
echo "done $(basename $(dirname $(dirname $d)))/$(basename $d)"
git -C /repo checkout -- .
trap - EXIT
