"""dev helper: apply every seeded change to /repo in turn, run all claimed quick checks, undo, write seeded/MATRIX.md.

usage: tools_sweep.py [seed-id ...]     (default: all seeds)
"""
import json
import os
import subprocess
import sys
from concurrent.futures import ThreadPoolExecutor

VERIF = "/verif"


def claimed():
    m = json.load(open(f"{VERIF}/MANIFEST.json"))
    return [c["property_id"] for c in m["checks"]]


def run_check(pid):
    p = subprocess.run(["./check", pid, "--tier", "quick"], cwd=VERIF, capture_output=True, text=True, timeout=900,
                       env=dict(os.environ, FDV_WORKERS="4"))
    first = ""
    for line in p.stdout.splitlines():
        if line.startswith("  flodym") or line.startswith("ANALYSIS-ERROR"):
            first = line.strip()[:260]
            break
    return pid, p.returncode, first


def main():
    seeds = sorted(os.listdir(f"{VERIF}/seeded"))
    seeds = [s for s in seeds if os.path.isdir(f"{VERIF}/seeded/{s}")]
    if len(sys.argv) > 1:
        seeds = [s for s in seeds if s in sys.argv[1:]]
    props = claimed()
    assert subprocess.run(["git", "-C", "/repo", "status", "--porcelain", "--untracked-files=no"], capture_output=True, text=True).stdout.strip() == "", "/repo is dirty"
    rows = []
    try:
        for s in seeds:
            subprocess.check_call(["git", "-C", "/repo", "apply", f"{VERIF}/seeded/{s}/patch.diff"])
            try:
                with ThreadPoolExecutor(4) as ex:
                    res = list(ex.map(run_check, props))
            finally:
                subprocess.check_call(["git", "-C", "/repo", "checkout", "--", "."])
            hits = [(p, rc, f) for p, rc, f in res if rc != 0]
            own = s.split("-")[0]
            rows.append((s, own, hits))
            print(s, "->", ", ".join(f"{p}:{'VIOLATION' if rc == 1 else 'ANALYSIS-ERROR'}" for p, rc, _ in hits) or "not detected", flush=True)
    finally:
        subprocess.call(["git", "-C", "/repo", "checkout", "--", "."])
    if len(sys.argv) > 1:
        return
    with open(f"{VERIF}/seeded/MATRIX.md", "w") as f:
        f.write("# Seeded changes versus the quick checks\n\nEach row: one independently written change (see `<id>/notes.md`), applied to /repo, all claimed quick checks run, change undone.\n\n")
        f.write("| seed | breaks | detected by (exit 1 = VIOLATION, exit 2 = ANALYSIS-ERROR) | first report |\n|---|---|---|---|\n")
        for s, own, hits in rows:
            det = ", ".join(f"{p} (exit {rc})" for p, rc, _ in hits) or "**not detected**"
            first = next((fr for p, rc, fr in hits if p == own), hits[0][2] if hits else "")
            f.write(f"| {s} | {own} | {det} | {first.replace('|', '/')} |\n")
        n = sum(1 for _, _, h in rows if any(rc == 1 for _, rc, _ in h))
        f.write(f"\n{n} of {len(rows)} seeds are reported as a VIOLATION by at least one check; claimed checks: {', '.join(props)}.\n")


if __name__ == "__main__":
    main()
