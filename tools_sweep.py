"""dev helper: apply every seeded change / control to a SCRATCH worktree of /repo (never /repo itself), run all claimed quick
checks against it (FDV_REPO), remove the worktree, write the matrix.

usage: tools_sweep.py seeded|controls [--near] [id ...]
   --near (seeded only): run, per seed, the property's own check, the checks that reported it in the last MATRIX.md and the checks of
          the same engine family instead of all 20 (the full sweep costs about 10 CPU-minutes per seed)
"""
import json
import os
import shutil
import subprocess
import sys
import tempfile
from concurrent.futures import ThreadPoolExecutor

VERIF = os.path.dirname(os.path.abspath(__file__))


def claimed():
    m = json.load(open(f"{VERIF}/MANIFEST.json"))
    return [c["property_id"] for c in m["checks"]]


def run_check(pid, repo, evdir):
    p = subprocess.run(["./check", pid, "--tier", "quick"], cwd=VERIF, capture_output=True, text=True, timeout=1800,
                       env=dict(os.environ, FDV_WORKERS="4", FDV_REPO=repo, FDV_EVIDENCE=evdir))
    first = ""
    for line in p.stdout.splitlines():
        if line.startswith("  flodym") or line.startswith("ANALYSIS-ERROR"):
            first = line.strip()[:260]
            break
    return pid, p.returncode, first


def one(kind, s, props):
    wt = tempfile.mkdtemp(prefix="fdvsweep_", dir="/tmp")
    os.rmdir(wt)
    subprocess.check_call(["git", "-C", "/repo", "worktree", "add", "-q", "--detach", wt, "HEAD"])
    evdir = wt + "_ev"
    try:
        subprocess.check_call(["git", "-C", wt, "apply", f"{VERIF}/{kind}/{s}/patch.diff"])
        with ThreadPoolExecutor(5) as ex:
            res = list(ex.map(lambda p: run_check(p, wt, evdir), props))
    finally:
        subprocess.call(["git", "-C", "/repo", "worktree", "remove", "--force", wt])
        shutil.rmtree(evdir, ignore_errors=True)
    return s, [(p, rc, f) for p, rc, f in res if rc != 0]


FAMILIES = [("C01", "C04", "C05", "C06", "C07", "C13", "C14", "C15", "C11"), ("C03", "C08", "C09", "C10", "C16", "C17", "C04", "C07", "C13", "C15"), ("C11", "C12", "C19", "C04"), ("C02", "C18", "C20"), ("C14", "C04", "C07")]


def near_props(seed, props):
    own = seed.split("-")[0]
    out = {own}
    for fam in FAMILIES:
        if own in fam:
            out |= set(fam)
    try:
        for line in open(f"{VERIF}/seeded/MATRIX.md"):
            if line.startswith(f"| {seed} |"):
                import re
                out |= set(re.findall(r"(C\d\d) \(exit", line))
    except OSError:
        pass
    return [p for p in props if p in out]


def main():
    kind = sys.argv[1]
    args = sys.argv[2:]
    near = "--near" in args
    args = [a for a in args if a != "--near"]
    items = sorted(d for d in os.listdir(f"{VERIF}/{kind}") if os.path.isdir(f"{VERIF}/{kind}/{d}"))
    if args:
        items = [s for s in items if s in args]
    sys.argv = [sys.argv[0], kind] + args
    props = claimed()
    rows = []
    with ThreadPoolExecutor(3) as ex:
        for s, hits in ex.map(lambda s: one(kind, s, near_props(s, props) if (near and kind == "seeded") else props), items):
            rows.append((s, hits))
            print(s, "->", ", ".join(f"{p}:{'VIOLATION' if rc == 1 else 'ANALYSIS-ERROR' if rc == 2 else rc}" for p, rc, _ in hits) or ("not detected" if kind == "seeded" else "silent (ok)"), flush=True)
    if len(sys.argv) > 2:
        for s, hits in rows:
            for p, rc, f in hits:
                print("   ", s, p, rc, f)
        return
    out = f"{VERIF}/{kind}/MATRIX.md"
    with open(out, "w") as f:
        if kind == "seeded":
            f.write("# Seeded changes versus the quick checks\n\nEach row: one independently written breaking change (see `<id>/notes.md`; ids ending in -A/-B are round 1, -C/-D round 2, -E/-F round 3), applied to a scratch worktree of /repo, all claimed quick checks run against it.\n\n")
            f.write("| seed | breaks | detected by (exit 1 = VIOLATION, exit 2 = ANALYSIS-ERROR) | first report |\n|---|---|---|---|\n")
            for s, hits in rows:
                own = s.split("-")[0]
                det = ", ".join(f"{p} (exit {rc})" for p, rc, _ in hits) or "**not detected**"
                first = next((fr for p, rc, fr in hits if p == own), hits[0][2] if hits else "")
                f.write(f"| {s} | {own} | {det} | {first.replace('|', '/')} |\n")
            n = sum(1 for _, h in rows if any(rc == 1 for _, rc, _ in h))
            f.write(f"\n{n} of {len(rows)} seeds are reported as a VIOLATION by at least one check; claimed checks: {', '.join(props)}"
                    f"{' (per seed: the own check, its engine family and the checks that reported it before)' if near else ''}.\n")
        else:
            f.write("# Behaviour-preserving refactorings (false-alarm controls) versus the quick checks\n\nEach row: one independently written refactoring (see `<id>/notes.md`), applied to a scratch worktree, all claimed quick checks run. Every check must stay silent (exit 0).\n\n")
            f.write("| control | alarms (must be none) |\n|---|---|\n")
            for s, hits in rows:
                f.write(f"| {s} | {', '.join(f'{p} (exit {rc}): {fr}' for p, rc, fr in hits).replace('|', '/') or 'none'} |\n")
            f.write(f"\n{sum(1 for _, h in rows if not h)} of {len(rows)} controls pass all {len(props)} checks silently.\n")


if __name__ == "__main__":
    main()
