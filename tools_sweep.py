"""dev helper: apply every seeded change / control to a SCRATCH worktree of /repo (never /repo itself), run all claimed quick
checks against it (FDV_REPO), remove the worktree, write the matrix.

usage: tools_sweep.py seeded|controls [id ...]
"""
import json
import os
import shutil
import subprocess
import sys
import tempfile
from concurrent.futures import ThreadPoolExecutor

VERIF = os.path.dirname(os.path.abspath(__file__))


def claimed():
    m = json.load(open(f"{VERIF}/MANIFEST.json"))
    return [c["property_id"] for c in m["checks"]]


def run_check(pid, repo, evdir):
    p = subprocess.run(["./check", pid, "--tier", "quick"], cwd=VERIF, capture_output=True, text=True, timeout=1800,
                       env=dict(os.environ, FDV_WORKERS="4", FDV_REPO=repo, FDV_EVIDENCE=evdir))
    first = ""
    for line in p.stdout.splitlines():
        if line.startswith("  flodym") or line.startswith("ANALYSIS-ERROR"):
            first = line.strip()[:260]
            break
    return pid, p.returncode, first


def one(kind, s, props):
    wt = tempfile.mkdtemp(prefix="fdvsweep_", dir="/tmp")
    os.rmdir(wt)
    subprocess.check_call(["git", "-C", "/repo", "worktree", "add", "-q", "--detach", wt, "HEAD"])
    evdir = wt + "_ev"
    try:
        subprocess.check_call(["git", "-C", wt, "apply", f"{VERIF}/{kind}/{s}/patch.diff"])
        with ThreadPoolExecutor(5) as ex:
            res = list(ex.map(lambda p: run_check(p, wt, evdir), props))
    finally:
        subprocess.call(["git", "-C", "/repo", "worktree", "remove", "--force", wt])
        shutil.rmtree(evdir, ignore_errors=True)
    return s, [(p, rc, f) for p, rc, f in res if rc != 0]


def main():
    kind = sys.argv[1]
    items = sorted(d for d in os.listdir(f"{VERIF}/{kind}") if os.path.isdir(f"{VERIF}/{kind}/{d}"))
    if len(sys.argv) > 2:
        items = [s for s in items if s in sys.argv[2:]]
    props = claimed()
    rows = []
    with ThreadPoolExecutor(3) as ex:
        for s, hits in ex.map(lambda s: one(kind, s, props), items):
            rows.append((s, hits))
            print(s, "->", ", ".join(f"{p}:{'VIOLATION' if rc == 1 else 'ANALYSIS-ERROR' if rc == 2 else rc}" for p, rc, _ in hits) or ("not detected" if kind == "seeded" else "silent (ok)"), flush=True)
    if len(sys.argv) > 2:
        for s, hits in rows:
            for p, rc, f in hits:
                print("   ", s, p, rc, f)
        return
    out = f"{VERIF}/{kind}/MATRIX.md"
    with open(out, "w") as f:
        if kind == "seeded":
            f.write("# Seeded changes versus the quick checks\n\nEach row: one independently written breaking change (see `<id>/notes.md`; ids ending in -A/-B are round 1, -C/-D round 2, -E/-F round 3), applied to a scratch worktree of /repo, all claimed quick checks run against it.\n\n")
            f.write("| seed | breaks | detected by (exit 1 = VIOLATION, exit 2 = ANALYSIS-ERROR) | first report |\n|---|---|---|---|\n")
            for s, hits in rows:
                own = s.split("-")[0]
                det = ", ".join(f"{p} (exit {rc})" for p, rc, _ in hits) or "**not detected**"
                first = next((fr for p, rc, fr in hits if p == own), hits[0][2] if hits else "")
                f.write(f"| {s} | {own} | {det} | {first.replace('|', '/')} |\n")
            n = sum(1 for _, h in rows if any(rc == 1 for _, rc, _ in h))
            f.write(f"\n{n} of {len(rows)} seeds are reported as a VIOLATION by at least one check; claimed checks: {', '.join(props)}.\n")
        else:
            f.write("# Behaviour-preserving refactorings (false-alarm controls) versus the quick checks\n\nEach row: one independently written refactoring (see `<id>/notes.md`), applied to a scratch worktree, all claimed quick checks run. Every check must stay silent (exit 0).\n\n")
            f.write("| control | alarms (must be none) |\n|---|---|\n")
            for s, hits in rows:
                f.write(f"| {s} | {', '.join(f'{p} (exit {rc}): {fr}' for p, rc, fr in hits).replace('|', '/') or 'none'} |\n")
            f.write(f"\n{sum(1 for _, h in rows if not h)} of {len(rows)} controls pass all {len(props)} checks silently.\n")


if __name__ == "__main__":
    main()
