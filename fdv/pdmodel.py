"""A small model of the part of pandas that flodym's DataFrame export/import uses (C11 / C12).

Frames are small and concrete in shape; cells are item labels (str / int), exact symbolic values (symnum.Rat) or
NaN.  Every operation follows the documented pandas behaviour that matters for *which value ends up under which
labels*: index levels and reset_index naming, pivot (sorted index and columns), melt order, map / isin /
duplicated / fillna / isna, CSV text round trip (index levels become columns, per-column type inference).
Nothing here imports pandas or numpy.
"""
from __future__ import annotations

import itertools

from .interp import PyModel, PyRaise, Marker, AnalysisAbort
from . import symnum as S
from .symnum import SArr, Rat, rat


class NaNType:
    def __repr__(self):
        return "NaN"


NaN = NaNType()


def _only(k, allowed=(), what=""):
    """a keyword the model does not implement must stop the analysis, never be ignored"""
    bad = sorted(x for x in k if x not in allowed)
    if bad:
        raise AnalysisAbort(f"pandas model: keyword(s) {bad} of {what} are not modelled")


def _duplicated(keys, keep):
    """pandas' duplicated: True for every occurrence except the first (keep='first') / the last (keep='last') / none (keep=False)"""
    def eq(a, b):
        return len(a) == len(b) and all(cell_eq(x, y) for x, y in zip(a, b))
    n = len(keys)
    groups = []
    for i, kx in enumerate(keys):
        for g in groups:
            if eq(keys[g[0]], kx):
                g.append(i)
                break
        else:
            groups.append([i])
    out = [False] * n
    for g in groups:
        if len(g) > 1:
            for i in g:
                out[i] = True
            if keep == "first":
                out[g[0]] = False
            elif keep == "last":
                out[g[-1]] = False
            elif keep is not False:
                raise PyRaise("ValueError", None, 'keep must be either "first", "last" or False')
    return out


def is_nan(x):
    return x is NaN or (isinstance(x, Rat) and "nan" in x.symbols())


def cell_eq(a, b):
    if is_nan(a) or is_nan(b):
        return False
    if isinstance(a, Rat) or isinstance(b, Rat):
        try:
            return rat(a) == rat(b)
        except Exception:   # noqa
            return False
    return type(a) == type(b) and a == b or (isinstance(a, (int, float)) and isinstance(b, (int, float)) and not isinstance(a, bool) and a == b)


def sort_key(x):
    if isinstance(x, str):
        return (1, x)
    if isinstance(x, (int, float)):
        return (0, x)
    return (2, repr(x))


def sorted_labels(xs):
    kinds = {type(x) for x in xs}
    if str in kinds and (int in kinds or float in kinds):
        raise PyRaise("TypeError", None, "'<' not supported between instances of 'str' and 'int'")
    return sorted(xs, key=sort_key)


def unique(xs):
    out = []
    for x in xs:
        if not any(cell_eq(x, y) or (is_nan(x) and is_nan(y)) for y in out):
            out.append(x)
    return out


INT64 = Marker("np.int64")
OBJECT = Marker("object")
FLOAT64 = Marker("np.float64")


def infer_dtype(cells):
    if cells and all(isinstance(c, int) and not isinstance(c, bool) for c in cells):
        return INT64
    if cells and all(isinstance(c, (int, float, Rat)) or is_nan(c) for c in cells):
        return FLOAT64
    return OBJECT


class Index(PyModel):
    """row index: `names` per level, `tuples` per row; RangeIndex when `default`"""
    def __init__(self, tuples, names, default=False, multi=False):
        self.tuples = [tuple(t) for t in tuples]
        self.names = list(names)
        self.default = default
        self.multi = multi

    @property
    def nlevels(self):
        return len(self.names)

    @property
    def name(self):
        return None if self.multi else self.names[0]

    @property
    def dtype(self):
        if self.default:
            return INT64
        if self.multi:
            return OBJECT
        return infer_dtype([t[0] for t in self.tuples])

    def min(self):
        vals = [t[0] for t in self.tuples]
        if not vals:
            raise PyRaise("ValueError", None, "min of an empty index")
        return min(vals)

    def max(self):
        vals = [t[0] for t in self.tuples]
        return max(vals)

    def __len__(self):
        return len(self.tuples)

    def copy(self):
        return Index(self.tuples, self.names, self.default, self.multi)

    def __iter__(self):
        return iter([t if self.multi else t[0] for t in self.tuples])

    def __getitem__(self, k):
        """positional: an int gives the label, a slice / integer array / boolean mask gives an Index of the same kind (labels keep their types)"""
        n = len(self.tuples)
        if isinstance(k, (int, Rat)) and not isinstance(k, bool):
            i = int(rat(k).const())
            if not -n <= i < n:
                raise PyRaise("IndexError", None, f"index {i} is out of bounds for axis 0 with size {n}")
            t = self.tuples[i]
            return t if self.multi else t[0]
        if isinstance(k, slice):
            return Index(self.tuples[k], self.names, False, self.multi)
        if isinstance(k, SArr):
            if k.ndim != 1:
                raise AnalysisAbort("Index[...] with a key that is not 1-dimensional")
            if k.dtype == "bool":
                if k.size != n:
                    raise PyRaise("IndexError", None, "boolean index did not match indexed array")
                pos = [i for i, b in enumerate(k.data) if b != 0]
            else:
                pos = [int(rat(x).const()) for x in k.data]
        elif isinstance(k, (list, tuple)) and all(isinstance(x, int) and not isinstance(x, bool) for x in k):
            pos = list(k)
        else:
            raise AnalysisAbort(f"Index[...] with a key of type {type(k).__name__}")
        for i in pos:
            if not -n <= i < n:
                raise PyRaise("IndexError", None, f"index {i} is out of bounds for axis 0 with size {n}")
        return Index([self.tuples[i] for i in pos], self.names, False, self.multi)

    def tolist(self):
        return list(iter(self))

    def unique(self):
        seen = []
        for t in self.tuples:
            if not any(all(cell_eq(a, b) for a, b in zip(t, u)) for u in seen):
                seen.append(t)
        return Index(seen, self.names, False, self.multi)

    def get_indexer(self, target, **k):
        _only(k, (), 'Index.get_indexer')
        """position of each target label, -1 where the label is not in the index"""
        if self.multi:
            raise AnalysisAbort("MultiIndex.get_indexer is not modelled")
        labels = [t[0] for t in self.tuples]
        cells = target.cells if isinstance(target, (Series, ObjVec)) else (target.data if isinstance(target, SArr) else list(target))
        out = []
        for c in cells:
            hit = [i for i, l in enumerate(labels) if cell_eq(l, c)]
            out.append(rat(hit[0]) if hit else rat(-1))
        return SArr((len(out),), out, dtype="int")

    def equals(self, other):
        if not isinstance(other, Index):
            return False
        if len(self.tuples) != len(other.tuples) or self.nlevels != other.nlevels:
            return False
        return all(len(a) == len(b) and all(cell_eq(x, y) for x, y in zip(a, b)) for a, b in zip(self.tuples, other.tuples))

    def get_loc(self, label):
        labels = [t[0] for t in self.tuples]
        hit = [i for i, l in enumerate(labels) if cell_eq(l, label)]
        if not hit:
            raise PyRaise("KeyError", None, repr(label))
        return hit[0]

    @property
    def loc(self):
        return Loc(self)

    def __ge__(self, o):
        return self._arith(o, lambda a, b: _num_cmp(a, b) >= 0)

    def __gt__(self, o):
        return self._arith(o, lambda a, b: _num_cmp(a, b) > 0)

    def __le__(self, o):
        return self._arith(o, lambda a, b: _num_cmp(a, b) <= 0)

    def __lt__(self, o):
        return self._arith(o, lambda a, b: _num_cmp(a, b) < 0)

    def isin(self, values):
        vals = list(values.cells) if isinstance(values, (Series, ObjVec)) else list(values)
        return vec([any(cell_eq(t[0], v) for v in vals) for t in self.tuples])

    @staticmethod
    def range(n):
        return Index([(i,) for i in range(n)], [None], default=True)


class IndexType(PyModel):
    """pandas.Index (the class): every index, also a MultiIndex or RangeIndex, is an instance"""
    def isinstance_check(self, v):
        return isinstance(v, Index)

    def __call__(self, data, name=None, **k):
        _only(k, ('tupleize_cols',), 'pd.Index')
        if k.get("tupleize_cols", True) and any(isinstance(x, tuple) for x in (data.data if isinstance(data, SArr) else data)):
            raise AnalysisAbort("pd.Index of tuples (a MultiIndex is made)")
        return Index([(x,) for x in (data.data if isinstance(data, SArr) else data)], [name])


class RangeIndexType(PyModel):
    def isinstance_check(self, v):
        return isinstance(v, Index) and v.default


class SeriesType(PyModel):
    def isinstance_check(self, v):
        return isinstance(v, Series)

    def __call__(self, data=None, **k):
        _only(k, (), 'pd.Series')
        return Series(list(data))


class MultiIndexType(PyModel):
    """pandas.MultiIndex (the class)"""
    def isinstance_check(self, v):
        return isinstance(v, Index) and v.multi

    def from_product(self, iterables, names=None, **k):
        _only(k, ('sortorder',), 'MultiIndex.from_product')
        its = [list(x) for x in iterables]
        names = list(names) if names is not None else [None] * len(its)
        return Index(list(itertools.product(*its)), names, multi=True)

    def from_arrays(self, arrays, names=None, **k):
        _only(k, ('sortorder',), 'MultiIndex.from_arrays')
        cols = [list(a.data) if isinstance(a, SArr) else list(a) for a in arrays]
        names = list(names) if names is not None else [None] * len(cols)
        n = len(cols[0]) if cols else 0
        if any(len(c) != n for c in cols):
            raise PyRaise("ValueError", None, "all arrays must be same length")
        return Index([tuple(c[i] for c in cols) for i in range(n)], names, multi=True)

    def from_tuples(self, tuples, names=None, **k):
        _only(k, ('sortorder',), 'MultiIndex.from_tuples')
        tuples = [tuple(t) for t in tuples]
        return Index(tuples, list(names) if names is not None else [None] * (len(tuples[0]) if tuples else 0), multi=True)


class Columns(PyModel):
    def __init__(self, labels, name=None):
        self.labels = list(labels)
        self.name = name

    def __iter__(self):
        return iter(self.labels)

    def __len__(self):
        return len(self.labels)

    def __getitem__(self, k):
        return self.labels[k]

    def __contains__(self, x):
        return any(cell_eq(x, y) for y in self.labels)

    def get_loc(self, label):
        for i, l in enumerate(self.labels):
            if cell_eq(l, label):
                return i
        raise PyRaise("KeyError", None, repr(label))

    def tolist(self):
        return list(self.labels)

    def to_list(self):
        return list(self.labels)


class Series(PyModel):
    def __init__(self, cells, name=None, index=None):
        self.cells = list(cells)
        self.name = name
        self.index = index

    def __iter__(self):
        return iter(self.cells)

    def __len__(self):
        return len(self.cells)

    @property
    def values(self):
        return vec(self.cells)

    def to_numpy(self, *a, **k):
        return vec(self.cells)

    def tolist(self):
        return list(self.cells)

    to_list = tolist

    def unique(self):
        return ObjVec(unique(self.cells))

    def map(self, f):
        out = []
        for c in self.cells:
            if isinstance(f, dict):
                hit = [v for k, v in f.items() if cell_eq(k, c)]
                out.append(hit[0] if hit else NaN)
            elif is_nan(c):
                out.append(CALL(f, c))
            else:
                out.append(CALL(f, c))
        return Series(out, self.name, self.index)

    def astype(self, t, **k):
        _only(k, ('copy', 'errors'), 'Series.astype')
        tn = getattr(t, "name", str(t))
        out = []
        for c in self.cells:
            if "float" in tn:
                if isinstance(c, (Rat, float, int)) or is_nan(c):
                    out.append(c)
                elif isinstance(c, str):
                    try:
                        out.append(float(c))
                    except ValueError:
                        raise PyRaise("ValueError", None, f"could not convert string to float: '{c}'")
                elif c is None:
                    out.append(NaN)
                else:
                    raise PyRaise("ValueError", None, f"could not convert {c!r} to float")
            elif "int" in tn:
                if is_nan(c):
                    raise PyRaise("ValueError", None, "Cannot convert non-finite values (NA or inf) to integer")
                out.append(int(c) if not isinstance(c, Rat) else c)
            elif "str" in tn:
                out.append(str(c))
            else:
                out.append(c)
        return Series(out, self.name, self.index)

    def _arith(self, o, f):
        oc = o.cells if isinstance(o, Series) else [o] * len(self.cells)
        out = []
        for a, b in zip(self.cells, oc):
            if is_nan(a) or is_nan(b):
                out.append(NaN)
            else:
                try:
                    out.append(f(a, b))
                except TypeError as e:
                    raise PyRaise("TypeError", None, str(e))
        return Series(out, self.name, self.index)

    def __sub__(self, o):
        return self._arith(o, lambda a, b: a - b)

    def __add__(self, o):
        return self._arith(o, lambda a, b: a + b)

    def __mul__(self, o):
        return self._arith(o, lambda a, b: a * b)

    def isin(self, values):
        vals = list(values.cells) if isinstance(values, (Series, ObjVec)) else list(values)
        return Series([any(cell_eq(c, v) for v in vals) for c in self.cells], self.name, self.index)

    def fillna(self, v, **k):
        _only(k, (), 'Series.fillna')
        return Series([v if is_nan(c) else c for c in self.cells], self.name, self.index)

    def isna(self):
        return Series([is_nan(c) or c is None for c in self.cells], self.name, self.index)

    isnull = isna

    def notna(self):
        return Series([not (is_nan(c) or c is None) for c in self.cells], self.name, self.index)

    def any(self, **k):
        return any(bool(c) for c in self.cells)

    def all(self, **k):
        return all(bool(c) for c in self.cells)

    def sum(self, **k):
        return sum(1 for c in self.cells if c is True) if all(isinstance(c, bool) for c in self.cells) else AnalysisAbortRaise("Series.sum")

    def duplicated(self, keep="first"):
        return Series(_duplicated([(c,) for c in self.cells], keep), self.name, self.index)

    def __invert__(self):
        return Series([not c for c in self.cells], self.name, self.index)

    def copy(self):
        return Series(self.cells, self.name, self.index)

    @property
    def dtype(self):
        return infer_dtype(self.cells)

    def nunique(self):
        return len(unique(self.cells))

    @property
    def str(self):
        raise AnalysisAbort("Series.str accessor is not modelled")


def AnalysisAbortRaise(what):
    raise AnalysisAbort(f"{what} is not modelled")


CALL = None     # set by install(): how to call an analysed / builtin function from the model


class ObjVec(PyModel):
    """1-d object array (result of unique(), np.array of labels ...)"""
    def __init__(self, cells):
        self.cells = list(cells)

    def tolist(self):
        return list(self.cells)

    def __iter__(self):
        return iter(self.cells)

    def __len__(self):
        return len(self.cells)

    def __getitem__(self, k):
        if isinstance(k, SArr):
            return ObjVec([self.cells[int(i.const())] for i in k.data])
        if isinstance(k, (list, ObjVec)):
            return ObjVec([self.cells[int(i)] for i in k])
        if isinstance(k, slice):
            return ObjVec(self.cells[k])
        return self.cells[int(k)]

    @property
    def shape(self):
        return (len(self.cells),)

    @property
    def size(self):
        return len(self.cells)

    @property
    def ndim(self):
        return 1


def vec(cells):
    """a column as a numpy array: numeric -> SArr, otherwise an object array"""
    if all(isinstance(c, (Rat, int, float)) and not isinstance(c, bool) or is_nan(c) for c in cells):
        return SArr((len(cells),), [Rat.sym("nan") if is_nan(c) else rat(c) for c in cells])
    return ObjVec(cells)


class ILoc(PyModel):
    """DataFrame.iloc: purely positional access (the forms in use: [i], [:, j], [i, j], [rows, cols] with ints / slices / lists)"""
    def __init__(self, frame):
        self.f = frame

    def _sel(self, k, n):
        if isinstance(k, slice):
            return list(range(n))[k], False
        if isinstance(k, (list, tuple)):
            return [int(i) for i in k], False
        if isinstance(k, (SArr, ObjVec)):
            return [int(S.rat(i).const()) if not isinstance(i, int) else i for i in (k.data if isinstance(k, SArr) else k.cells)], False
        i = int(k)
        if not -n <= i < n:
            raise PyRaise("IndexError", None, "single positional indexer is out-of-bounds")
        return [i % n], True

    def __getitem__(self, key):
        f = self.f
        rk, ck = key if isinstance(key, tuple) else (key, slice(None))
        ri, rs = self._sel(rk, len(f.rows))
        ci, cs = self._sel(ck, len(f._cols.labels))
        if rs and cs:
            return f.rows[ri[0]][ci[0]]
        if cs:
            return Series([f.rows[i][ci[0]] for i in ri], f._cols.labels[ci[0]], Index([f.index.tuples[i] for i in ri], f.index.names, f.index.default and ri == list(range(len(f.rows))), f.index.multi))
        if rs:
            return Series([f.rows[ri[0]][j] for j in ci], None, Index([(f._cols.labels[j],) for j in ci], [None]))
        return Frame([f._cols.labels[j] for j in ci], [[f.rows[i][j] for j in ci] for i in ri],
                     Index([f.index.tuples[i] for i in ri], f.index.names, f.index.default and ri == list(range(len(f.rows))), f.index.multi), f._cols.name)


def _num_cmp(a, b):
    """-1 / 0 / 1 for two numbers of the exact domain (constants only: positions, counts)"""
    a, b = rat(a), rat(b)
    d = a - b
    if not d.is_const():
        raise AnalysisAbort("order comparison of symbolic cell values in a DataFrame")
    c = d.const()
    return (c > 0) - (c < 0)


class Loc(PyModel):
    """DataFrame.loc / Series.loc with a boolean selector: a boolean SERIES is aligned by index label, a boolean array / list is positional"""
    def __init__(self, obj):
        self.o = obj

    def __getitem__(self, k):
        if isinstance(k, tuple):
            raise AnalysisAbort(".loc[rows, columns] is not modelled")
        is_bool_series = isinstance(k, Series) and all(isinstance(c, bool) for c in k.cells)
        is_bool_vec = (isinstance(k, SArr) and k.dtype == "bool") or (isinstance(k, list) and k and all(isinstance(c, bool) for c in k))
        if not (is_bool_series or is_bool_vec):
            raise AnalysisAbort(".loc with a selector that is not boolean is not modelled")
        if isinstance(self.o, Frame):
            mask = self.o._aligned_mask(k)
            return self.o._take_rows([i for i, b in enumerate(mask) if b])
        f = Frame(["v"], [[c] for c in self.o.cells], self.o.index if self.o.index is not None else None)
        mask = f._aligned_mask(k)
        keep = [i for i, b in enumerate(mask) if b]
        return Series([self.o.cells[i] for i in keep], self.o.name, Index([f.index.tuples[i] for i in keep], f.index.names, False, f.index.multi))


class Frame(PyModel):
    @property
    def iloc(self):
        return ILoc(self)

    def __init__(self, columns, rows, index=None, columns_name=None):
        self._cols = Columns(columns, columns_name)
        self.rows = [list(r) for r in rows]
        for r in self.rows:
            if len(r) != len(self._cols.labels):
                raise AnalysisAbort("internal: ragged frame")
        self.index = index if index is not None else Index.range(len(self.rows))
        if len(self.index) != len(self.rows):
            raise PyRaise("ValueError", None, f"Length mismatch: Expected {len(self.rows)} rows, received array of length {len(self.index)}")

    # ---- columns attribute (assignable)
    @property
    def columns(self):
        return self._cols

    @columns.setter
    def columns(self, labels):
        labels = list(labels.labels) if isinstance(labels, Columns) else list(labels)
        if len(labels) != len(self._cols.labels):
            raise PyRaise("ValueError", None, "Length mismatch: Expected axis has another number of elements")
        self._cols = Columns(labels, self._cols.name)

    def __len__(self):
        return len(self.rows)

    def copy(self, deep=True):
        return Frame(self._cols.labels, self.rows, self.index.copy(), self._cols.name)

    def drop(self, labels=None, axis=0, index=None, columns=None, inplace=False, errors="raise", **k):
        _only(k, (), 'DataFrame.drop')
        """label based: EVERY row / column carrying one of the labels goes"""
        if labels is not None:
            if axis in (1, "columns"):
                columns = labels
            else:
                index = labels
        new = self.copy()
        if columns is not None:
            cols = list(columns.labels) if isinstance(columns, Columns) else list(columns) if isinstance(columns, (list, tuple, ObjVec)) else [columns]
            for c in cols:
                if not any(cell_eq(c, l) for l in new._cols.labels):
                    if errors == "raise":
                        raise PyRaise("KeyError", None, f"{c!r} not found in axis")
            keep = [i for i, l in enumerate(new._cols.labels) if not any(cell_eq(c, l) for c in cols)]
            new = Frame([new._cols.labels[i] for i in keep], [[r[i] for i in keep] for r in new.rows], new.index.copy(), new._cols.name)
        if index is not None:
            labs = list(iter(index)) if isinstance(index, Index) else list(index.cells) if isinstance(index, (Series, ObjVec)) else list(index) if isinstance(index, (list, tuple)) else [index]
            def lab(t):
                return t if new.index.multi else t[0]
            for l in labs:
                if errors == "raise" and not any(cell_eq(lab(t), l) for t in new.index.tuples):
                    raise PyRaise("KeyError", None, f"{l!r} not found in axis")
            keep = [i for i, t in enumerate(new.index.tuples) if not any(cell_eq(lab(t), l) for l in labs)]
            new = Frame(new._cols.labels, [new.rows[i] for i in keep], Index([new.index.tuples[i] for i in keep], new.index.names, False, new.index.multi), new._cols.name)
        return self._result(new, inplace)

    def _ci(self, label):
        hits = [i for i, l in enumerate(self._cols.labels) if cell_eq(l, label)]
        if not hits:
            raise PyRaise("KeyError", None, repr(label))
        return hits[0]

    def _aligned_mask(self, key):
        """a boolean Series used to select rows is ALIGNED to the frame by index label (not taken by position); a plain boolean list /
        array is positional.  -> list of bools, one per row"""
        if isinstance(key, Series):
            cells = [bool(c) for c in key.cells]
            ki = key.index.tuples if key.index is not None else [(i,) for i in range(len(cells))]
            if list(ki) == list(self.index.tuples):
                return cells
            if len(set(ki)) != len(ki):
                raise AnalysisAbort("boolean Series indexer whose own index has repeated labels: alignment not modelled")
            pos = {t: i for i, t in enumerate(ki)}
            if any(t not in pos for t in self.index.tuples):
                raise PyRaise("IndexingError", None, "Unalignable boolean Series provided as indexer (index of the boolean Series and of the indexed object do not match).")
            return [cells[pos[t]] for t in self.index.tuples]
        cells = list(key.data) if isinstance(key, SArr) else list(key)
        if len(cells) != len(self.rows):
            raise PyRaise("IndexError", None, f"Boolean index has wrong length: {len(cells)} instead of {len(self.rows)}")
        return [bool(c != 0) if isinstance(c, Rat) else bool(c) for c in cells]

    def _take_rows(self, keep):
        return Frame(self._cols.labels, [self.rows[i] for i in keep], Index([self.index.tuples[i] for i in keep], self.index.names, False, self.index.multi), self._cols.name)

    @property
    def loc(self):
        return Loc(self)

    def _cmp(self, other, f):
        if isinstance(other, (Frame, Series)):
            raise AnalysisAbort("comparison of a DataFrame with a frame / series")
        def one(c):
            if is_nan(c):
                return False
            try:
                return bool(f(rat(c) if isinstance(c, (Rat, int, float)) and not isinstance(c, bool) else c, other))
            except TypeError as e:
                raise PyRaise("TypeError", None, str(e))
        return Frame(self._cols.labels, [[one(c) for c in r] for r in self.rows], self.index.copy(), self._cols.name)

    def __ge__(self, o):
        return self._cmp(o, lambda a, b: _num_cmp(a, b) >= 0)

    def __gt__(self, o):
        return self._cmp(o, lambda a, b: _num_cmp(a, b) > 0)

    def __le__(self, o):
        return self._cmp(o, lambda a, b: _num_cmp(a, b) <= 0)

    def __lt__(self, o):
        return self._cmp(o, lambda a, b: _num_cmp(a, b) < 0)

    def all(self, axis=0, **k):
        _only(k, (), 'DataFrame.all')
        if axis in (1, "columns"):
            return Series([all(bool(c) for c in r) for r in self.rows], None, self.index.copy())
        return Series([all(bool(r[i]) for r in self.rows) for i in range(len(self._cols.labels))], None, Index([(l,) for l in self._cols.labels], [None]))

    def map(self, func, na_action=None, **k):
        """DataFrame.map (applymap): the function applied to every cell"""
        _only(k, (), 'DataFrame.map')
        if na_action is not None:
            raise AnalysisAbort("DataFrame.map(na_action=...)")
        def one(c):
            r = CALL(func, c)
            return NaN if r is None else r          # None in a numeric result becomes NaN (object columns keep None; positions are numbers here)
        return Frame(self._cols.labels, [[one(c) for c in r] for r in self.rows], self.index.copy(), self._cols.name)

    applymap = map

    def fillna(self, value, **k):
        """DataFrame.fillna(value): every missing cell of EVERY column (label columns included) is replaced"""
        _only(k, (), 'DataFrame.fillna')
        if isinstance(value, (dict, Series, Frame)):
            raise AnalysisAbort("DataFrame.fillna with a mapping")
        return Frame(self._cols.labels, [[value if (is_nan(c) or c is None) else c for c in r] for r in self.rows], self.index.copy(), self._cols.name)

    def __getitem__(self, key):
        if isinstance(key, Series) and all(isinstance(c, bool) for c in key.cells):
            if len(key.cells) != len(self.rows):
                raise PyRaise("ValueError", None, "Item wrong length")
            mask = self._aligned_mask(key)
            return self._take_rows([i for i, b in enumerate(mask) if b])
        if isinstance(key, (list, Columns, ObjVec)):
            labs = list(key.labels) if isinstance(key, Columns) else list(key.cells) if isinstance(key, ObjVec) else list(key)
            idx = [self._ci(l) for l in labs]
            return Frame(labs, [[r[i] for i in idx] for r in self.rows], self.index.copy(), self._cols.name)
        i = self._ci(key)
        return Series([r[i] for r in self.rows], key, self.index)

    def __setitem__(self, key, val):
        if isinstance(key, (list, Columns, ObjVec)) and isinstance(val, Frame):
            labs = list(key.labels) if isinstance(key, Columns) else list(key.cells) if isinstance(key, ObjVec) else list(key)
            if len(labs) != len(val._cols.labels):
                raise PyRaise("ValueError", None, "Columns must be same length as key")
            if list(val.index.tuples) != list(self.index.tuples):
                raise AnalysisAbort("frame assigned to several columns with another index")
            for j, lab in enumerate(labs):
                self.__setitem__(lab, [r[j] for r in val.rows])
            return
        if isinstance(val, Series):
            cells = list(val.cells)
            vi = val.index.tuples if val.index is not None else None
            if vi is not None and list(vi) != list(self.index.tuples):
                # a Series is assigned BY INDEX LABEL: rows whose label the series lacks get NaN
                if len(set(vi)) != len(vi):
                    raise PyRaise("ValueError", None, "cannot reindex on an axis with duplicate labels")
                pos = {t: i for i, t in enumerate(vi)}
                cells = [cells[pos[t]] if t in pos else NaN for t in self.index.tuples]
        elif isinstance(val, (SArr,)):
            cells = list(val.data)
        elif isinstance(val, (list, ObjVec)):
            cells = list(val.cells) if isinstance(val, ObjVec) else list(val)
        else:
            cells = [val] * len(self.rows)
        if len(cells) != len(self.rows):
            raise PyRaise("ValueError", None, "Length of values does not match length of index")
        hits = [i for i, l in enumerate(self._cols.labels) if cell_eq(l, key)]
        if hits:
            for r, c in zip(self.rows, cells):
                r[hits[0]] = c
        else:
            self._cols.labels.append(key)
            for r, c in zip(self.rows, cells):
                r.append(c)

    def _result(self, new, inplace):
        if inplace:
            self._cols, self.rows, self.index = new._cols, new.rows, new.index
            return None
        return new

    def set_index(self, keys, inplace=False, **k):
        _only(k, ('drop', 'verify_integrity'), 'DataFrame.set_index')
        if isinstance(keys, Index):
            if len(keys) != len(self.rows):
                raise PyRaise("ValueError", None, f"Length mismatch: Expected {len(self.rows)} rows, received array of length {len(keys)}")
            return self._result(Frame(self._cols.labels, self.rows, keys.copy(), self._cols.name), inplace)
        keys = list(keys) if isinstance(keys, (list, tuple)) else [keys]
        idx = [self._ci(k_) for k_ in keys]
        rest = [i for i in range(len(self._cols.labels)) if i not in idx]
        new = Frame([self._cols.labels[i] for i in rest], [[r[i] for i in rest] for r in self.rows],
                    Index([tuple(r[i] for i in idx) for r in self.rows], keys, multi=len(keys) > 1), self._cols.name)
        return self._result(new, inplace)

    def reset_index(self, inplace=False, drop=False, **k):
        _only(k, (), 'DataFrame.reset_index')
        ix = self.index
        if drop:
            return self._result(Frame(self._cols.labels, self.rows, None, self._cols.name), inplace)
        if ix.multi:
            names = [n if n is not None else f"level_{i}" for i, n in enumerate(ix.names)]
        else:
            names = [ix.names[0] if ix.names[0] is not None else ("index" if "index" not in self._cols.labels else "level_0")]
        for n in names:
            if any(cell_eq(n, l) for l in self._cols.labels):
                raise PyRaise("ValueError", None, f"cannot insert {n}, already exists")
        new = Frame(names + self._cols.labels, [list(t) + r for t, r in zip(ix.tuples, self.rows)], None, self._cols.name)
        return self._result(new, inplace)

    def rename(self, columns=None, inplace=False, **k):
        _only(k, ('errors', 'copy'), 'DataFrame.rename')
        m = columns or {}
        labs = []
        for l in self._cols.labels:
            hit = [v for kk, v in m.items() if cell_eq(kk, l)]
            labs.append(hit[0] if hit else l)
        return self._result(Frame(labs, self.rows, self.index.copy(), self._cols.name), inplace)

    def pivot(self, index=None, columns=None, values=None):
        icols = list(index) if isinstance(index, (list, tuple)) else [index]
        if not icols:       # pandas 2/3: pivot with an empty list of index columns fails inside MultiIndex construction
            raise PyRaise("ValueError", None, "max() iterable argument is empty")
        ii = [self._ci(c) for c in icols]
        ci, vi = self._ci(columns), self._ci(values)
        col_labels = sorted(unique([r[ci] for r in self.rows]), key=sort_key)     # pandas safe_sort: numbers before text
        keys = unique([tuple(r[i] for i in ii) for r in self.rows]) if False else []
        seen = []
        for r in self.rows:
            t = tuple(r[i] for i in ii)
            if not any(all(cell_eq(a, b) for a, b in zip(t, s)) for s in seen):
                seen.append(t)
        try:
            keys = sorted(seen, key=lambda t: tuple(sort_key(x) for x in t))
        except TypeError:
            raise PyRaise("TypeError", None, "unorderable index values in pivot")
        table = {}
        for r in self.rows:
            t = tuple(r[i] for i in ii)
            kk = (next(j for j, s in enumerate(keys) if all(cell_eq(a, b) for a, b in zip(t, s))), next(j for j, c in enumerate(col_labels) if cell_eq(c, r[ci])))
            if kk in table:
                raise PyRaise("ValueError", None, "Index contains duplicate entries, cannot reshape")
            table[kk] = r[vi]
        rows = [[table.get((i, j), NaN) for j in range(len(col_labels))] for i in range(len(keys))]
        return Frame(col_labels, rows, Index(keys, icols, multi=len(icols) > 1), columns_name=columns)

    def melt(self, id_vars=None, value_vars=None, var_name=None, value_name="value", **k):
        _only(k, ('ignore_index',), 'DataFrame.melt')
        id_vars = list(id_vars or [])
        value_vars = list(value_vars) if value_vars is not None else [c for c in self._cols.labels if not any(cell_eq(c, i) for i in id_vars)]
        ii = [self._ci(c) for c in id_vars]
        rows = []
        for v in value_vars:
            vi = self._ci(v)
            for r in self.rows:
                rows.append([r[i] for i in ii] + [v, r[vi]])
        vn = var_name if var_name is not None else (self._cols.name if self._cols.name is not None else "variable")
        return Frame(id_vars + [vn, value_name], rows)

    def duplicated(self, subset=None, keep="first"):
        if subset is None:
            keys = [tuple(r) for r in self.rows]
        else:
            ii = [self._ci(c) for c in (list(subset) if isinstance(subset, (list, tuple, Columns, ObjVec)) else [subset])]
            keys = [tuple(r[i] for i in ii) for r in self.rows]
        return Series(_duplicated(keys, keep), None, self.index)

    def itertuples(self, index=True, name="Pandas"):
        if index:
            return [tuple(t) + tuple(r) for t, r in zip(self.index.tuples, self.rows)]
        return [tuple(r) for r in self.rows]

    @property
    def values(self):
        return self.to_numpy()

    def to_numpy(self, dtype=None, **k):
        _only(k, ('copy',), 'DataFrame.to_numpy')
        flat = [c for r in self.rows for c in r]
        if dtype is not None and "int" in getattr(dtype, "name", str(dtype)):
            if any(is_nan(c) for c in flat):
                raise PyRaise("ValueError", None, "Cannot convert non-finite values (NA or inf) to integer")
            return SArr((len(self.rows), len(self._cols.labels)), [rat(c) for c in flat], dtype="int")
        if all(isinstance(c, (Rat, int, float)) and not isinstance(c, bool) or is_nan(c) for c in flat):
            return SArr((len(self.rows), len(self._cols.labels)), [Rat.sym("nan") if is_nan(c) else rat(c) for c in flat])
        return SArr((len(self.rows), len(self._cols.labels)), flat, dtype="object")

    @property
    def shape(self):
        return (len(self.rows), len(self._cols.labels))

    @property
    def empty(self):
        return not self.rows

    def isna(self):
        return Frame(self._cols.labels, [[is_nan(c) or c is None for c in r] for r in self.rows], self.index.copy())

    def any(self, axis=0, **k):
        return Series([any(bool(r[i]) for r in self.rows) for i in range(len(self._cols.labels))], None)

    def dropna(self, **k):
        _only(k, (), 'DataFrame.dropna')
        keep = [i for i, r in enumerate(self.rows) if not any(is_nan(c) for c in r)]
        return Frame(self._cols.labels, [self.rows[i] for i in keep], Index([self.index.tuples[i] for i in keep], self.index.names, False, self.index.multi))

    def drop_duplicates(self, subset=None, keep="first", **k):
        _only(k, (), 'DataFrame.drop_duplicates')
        d = self.duplicated(subset=subset, keep=keep).cells
        keep = [i for i, x in enumerate(d) if not x]
        return Frame(self._cols.labels, [self.rows[i] for i in keep], Index([self.index.tuples[i] for i in keep], self.index.names, False, self.index.multi))

    def sort_values(self, by=None, **k):
        _only(k, (), 'DataFrame.sort_values')
        by = list(by) if isinstance(by, (list, tuple)) else [by]
        ii = [self._ci(c) for c in by]
        order = sorted(range(len(self.rows)), key=lambda r: tuple(sort_key(self.rows[r][i]) for i in ii))
        return Frame(self._cols.labels, [self.rows[i] for i in order], Index([self.index.tuples[i] for i in order], self.index.names, False, self.index.multi))

    # ---- CSV text round trip
    def to_csv_text(self, index=True):
        """(header row, data rows) as the CSV writer lays them out"""
        if index and not (self.index.default and False):
            names = [n if n is not None else "" for n in self.index.names]
            header = names + list(self._cols.labels)
            rows = [list(t) + list(r) for t, r in zip(self.index.tuples, self.rows)]
        else:
            header = list(self._cols.labels)
            rows = [list(r) for r in self.rows]
        return header, rows


def read_csv_text(header, rows):
    """what pandas.read_csv makes of such a text: all columns, RangeIndex, per-column type inference"""
    def parse(c):
        if isinstance(c, str):
            try:
                return int(c)
            except ValueError:
                try:
                    return float(c)
                except ValueError:
                    return NaN if c == "" else c
        return c
    cols = list(zip(*rows)) if rows else [[] for _ in header]
    out_cols = []
    for col in cols:
        parsed = [parse(c) for c in col]
        if all(isinstance(p, (int, float, Rat)) and not isinstance(p, bool) or is_nan(p) for p in parsed):
            out_cols.append(parsed)
        else:
            out_cols.append([c if isinstance(c, str) or is_nan(c) else str(c) for c in col])
    new_header = []
    for i, h in enumerate(header):
        h2 = f"Unnamed: {i}" if h == "" or h is None else (str(h) if not isinstance(h, str) else h)
        new_header.append(h2)
    data = [list(r) for r in zip(*out_cols)] if out_cols else []
    return Frame(new_header, data)


class DataFrameType(PyModel):
    """pandas.DataFrame (the class)"""
    def isinstance_check(self, v):
        return isinstance(v, Frame)

    def __call__(self, data=None, columns=None, index=None, **k):
        if isinstance(data, dict):
            cols = list(data.keys())
            colcells = []
            for v in data.values():
                if isinstance(v, SArr):
                    colcells.append(list(v.data))
                elif isinstance(v, (Series, ObjVec)):
                    colcells.append(list(v.cells))
                else:
                    colcells.append(list(v))
            n = len(colcells[0]) if colcells else 0
            if any(len(c) != n for c in colcells):
                raise PyRaise("ValueError", None, "All arrays must be of the same length")
            return Frame(cols, [[c[i] for c in colcells] for i in range(n)], index if isinstance(index, Index) else None)
        if isinstance(data, SArr):
            if data.ndim != 2:
                raise AnalysisAbort("pd.DataFrame of a non-2-d array")
            cols = [t[0] for t in columns.tuples] if isinstance(columns, Index) else list(columns) if columns is not None else list(range(data.shape[1]))
            rows = [[data.get((i, j)) for j in range(data.shape[1])] for i in range(data.shape[0])]
            if len(cols) != data.shape[1]:
                raise PyRaise("ValueError", None, f"Shape of passed values is {data.shape}, indices imply another number of columns")
            return Frame(cols, rows, index.copy() if isinstance(index, Index) else None, columns_name=(columns.names[0] if isinstance(columns, Index) else None))
        if isinstance(data, list):
            rows = [list(r.labels) if isinstance(r, Columns) else list(r) for r in data]
            cols = list(columns.labels) if isinstance(columns, Columns) else list(columns) if columns is not None else list(range(len(rows[0]) if rows else 0))
            return Frame(cols, rows)
        raise AnalysisAbort("pd.DataFrame(...) with this kind of data is not modelled")

    def from_dict(self, d, **k):
        return self.__call__(d)


def concat(frames, axis=0, ignore_index=False, **k):
    _only(k, ('sort', 'copy'), 'pd.concat')
    frames = list(frames)
    cols = list(frames[0]._cols.labels)
    rows, tuples = [], []
    for f in frames:
        if [repr(c) for c in f._cols.labels] != [repr(c) for c in cols]:
            raise AnalysisAbort("pd.concat of frames with different columns is not modelled")
        rows += [list(r) for r in f.rows]
        tuples += list(f.index.tuples)
    if ignore_index:
        return Frame(cols, rows)
    return Frame(cols, rows, Index(tuples, frames[0].index.names, False, frames[0].index.multi))


def setdiff1d(a, b, **k):
    _only(k, ('assume_unique',), 'np.setdiff1d')
    """numpy.setdiff1d on python lists: np.asarray first (a mixture of str and int becomes an array of str), sorted unique"""
    def as_array(xs):
        xs = list(xs.labels) if isinstance(xs, Columns) else list(xs.cells) if isinstance(xs, ObjVec) else list(xs)
        if any(isinstance(x, str) for x in xs) and any(not isinstance(x, str) for x in xs):
            xs = [str(x) for x in xs]
        return xs
    a2, b2 = as_array(a), as_array(b)
    out = [x for x in unique(a2) if not any(cell_eq(x, y) or (isinstance(x, str) and str(y) == x and isinstance(y, str)) for y in b2)]
    return ObjVec(sorted_labels(out))


def setxor1d(a, b, assume_unique=False):
    """numpy.setxor1d with NumPy's coercion of its operands (checked against numpy 2.5 / pandas 3.0): an array taken from a frame
    column of strings is an OBJECT array, a python list of strings a unicode array, a list mixing numbers and strings a unicode
    array of their texts; concatenating object with anything stays object (and sorting strings with numbers raises TypeError),
    unicode with numbers turns the numbers into text"""
    def operand(x):
        from_list = isinstance(x, (list, tuple))
        xs = list(x.labels) if isinstance(x, Columns) else list(x.cells) if isinstance(x, (ObjVec, Series)) else list(x.data) if isinstance(x, SArr) else list(x)
        xs = [norm_num(v) for v in xs]
        has_str = any(isinstance(v, str) for v in xs)
        if from_list:
            if has_str:
                return "U", [v if isinstance(v, str) else str(v) for v in xs]
            return "num", xs
        return ("O" if has_str else "num"), xs

    def norm_num(v):
        if isinstance(v, Rat) and v.is_const():
            c = v.const()
            return int(c) if c.denominator == 1 else float(c)
        return v
    (ka, xa), (kb, xb) = operand(a), operand(b)
    xa, xb = unique(xa), unique(xb)
    if "O" in (ka, kb):
        allv = xa + xb
        if any(isinstance(v, str) for v in allv) and any(not isinstance(v, str) for v in allv):
            raise PyRaise("TypeError", None, "'<' not supported between instances of 'int' and 'str'")
    elif "U" in (ka, kb):
        xa = [v if isinstance(v, str) else str(v) for v in xa]
        xb = [v if isinstance(v, str) else str(v) for v in xb]
    out = [v for v in xa if not any(cell_eq(v, w) for w in xb)] + [w for w in xb if not any(cell_eq(v, w) for v in xa)]
    return ObjVec(sorted_labels(out))


def install(it):
    """register the model with an interpreter"""
    global CALL
    CALL = lambda f, *a: it.call(f, list(a), {})
    mi, dft = MultiIndexType(), DataFrameType()
    it.hooks.update({
        "pandas.MultiIndex": mi, "pandas.DataFrame": dft, "pandas.concat": concat, "numpy.setdiff1d": setdiff1d, "numpy.setxor1d": setxor1d,
        "pandas.Series": SeriesType(), "pandas.Index": IndexType(), "pandas.RangeIndex": RangeIndexType(),
        "pandas.isna": lambda x: is_nan(x), "pandas.notna": lambda x: not is_nan(x),
    })
    return mi, dft
