"""Abstract test families over FlodymArray shared by C01 C04 C05 C06 C07 C13 C15.

A *case* evaluates one public operation on representatives of one abstract input class (a pair of
dimension lists in given storage orders, a vector of selector kinds, ...) with the enumerative evaluator
and judges several aspects at once:

  result     - dims, axes (items in order) and the symbolic entry of the result equal the property's oracle
  raises     - an ill-formed call is refused
  invariant  - every array involved still has values labelled exactly by its dims (C13)
  atomic     - a call that raised left every input as it was (C13)
  purity     - a call that is not in place left every input as it was (C15)
  fresh      - the result shares no memory / dimension list with any input (C15)

The property modules pick the aspects and families they are responsible for.
"""
from __future__ import annotations

import itertools

from .core import AnalysisError
from .interp import KeyList, Obj, PyRaise, run_guarded, TaintAbort, ItemList
from . import npmodel as NP
from .npmodel import AArr, SymScalar, t_add, t_neg, t_mul, t_recip, t_fn, t_sum, t_in, vkey, universe
from .world import World, lists_over, SUBSET_POS, LENGTHS, with_lengths


class Verdict:
    __slots__ = ("aspect", "ok", "msg")

    def __init__(self, aspect, ok, msg=""):
        self.aspect, self.ok, self.msg = aspect, ok, msg


class Case:
    def __init__(self, family, op, qual, inp):
        self.family, self.op, self.qual, self.inp = family, op, qual, inp
        self.verdicts: list[Verdict] = []
        self.taint = []
        self.canon = None      # the result as a labelled tensor, storage order forgotten (for order-independence, C04)

    def v(self, aspect, ok, msg=""):
        self.verdicts.append(Verdict(aspect, bool(ok), msg))


def full_axes(w, letters):
    return [tuple(w.items(l)) for l in letters]


def leaf_term(name, letters, w):
    return t_in(name, full_axes(w, letters))


def sum_out(term, letters_to_sum, w):
    return t_sum({vkey(w.items(l)) for l in letters_to_sum}, term)


def describe(r, w):
    if isinstance(r, Obj) and "values" in r.f and "dims" in r.f:
        v = r.f["values"]
        return f"dims {w.letters(r.f['dims'])}, entry {NP.show(v.term) if isinstance(v, AArr) else v!r}"
    if isinstance(r, AArr):
        return f"ndarray axes {[list(a) if isinstance(a, tuple) else a for a in r.axes]} entry {NP.show(r.term)}"
    if isinstance(r, PyRaise):
        return f"{r.exc_name}: {r.msg[:120]}"
    return repr(r)[:160]


def judge_array(case: Case, w: World, kind, r, exp_letters, exp_axes, exp_term, what="result"):
    """r must be a FlodymArray over exp_letters whose values have exp_axes and exp_term"""
    if kind == "ok" and isinstance(r, Obj) and isinstance(r.f.get("values"), AArr) and isinstance(r.f.get("dims"), Obj):
        v0 = r.f["values"]
        try:
            case.canon = (what, frozenset(zip(w.letters(r.f["dims"]), v0.axes)), v0.term)
        except TypeError:
            case.canon = (what, "unhashable")
    else:
        case.canon = (what, kind if kind != "ok" else repr(type(r)))
    if kind != "ok":
        case.v("result", False, f"{what}: the call ended with {kind} ({describe(r, w)}) instead of returning "
                                f"an array over {tuple(exp_letters)}")
        return False
    if not (isinstance(r, Obj) and "values" in r.f and "dims" in r.f):
        case.v("result", False, f"{what}: returned {describe(r, w)}, expected an array")
        return False
    got_l = w.letters(r.f["dims"])
    v = r.f["values"]
    if tuple(got_l) != tuple(exp_letters):
        case.v("result", False, f"{what}: dims {got_l}, the documented rule gives {tuple(exp_letters)}")
        return False
    if not isinstance(v, AArr) or tuple(v.axes) != tuple(exp_axes):
        case.v("result", False, f"{what}: values axes {getattr(v, 'axes', v)} do not carry the items of dims {tuple(exp_letters)} in order")
        return False
    if v.term != exp_term:
        case.v("result", False, f"{what}: entry is {NP.show(v.term)}, the property requires {NP.show(exp_term)}")
        return False
    case.v("result", True)
    return True


def judge_ndarray(case, w, kind, r, exp_axes, exp_term, what="result"):
    if kind != "ok" or not isinstance(r, (AArr, SymScalar)):
        case.canon = (what, kind)
        case.v("result", False, f"{what}: ended with {kind} ({describe(r, w)})")
        return False
    axes = r.axes if isinstance(r, AArr) else ()
    case.canon = (what, frozenset(axes), r.term)
    if tuple(axes) != tuple(exp_axes) or r.term != exp_term:
        case.v("result", False, f"{what}: axes {list(axes)} entry {NP.show(r.term)}; required axes {list(exp_axes)} entry {NP.show(exp_term)}")
        return False
    case.v("result", True)
    return True


def common_checks(case: Case, w: World, inputs, snaps, kind, r, inplace_target=None, fresh=False, arrays=()):
    """invariant / atomic / purity / fresh"""
    objs = [o for o in list(inputs) + list(arrays) if isinstance(o, Obj) and "values" in o.f and "dims" in o.f]
    if kind == "ok" and isinstance(r, Obj) and "values" in r.f and "dims" in r.f:
        objs.append(r)
    for o in objs:
        bad = w.invariant(o)
        case.v("invariant", bad is None, f"array '{o.f.get('name')}' after {case.op}: {bad}")
    if kind == "raise":
        ch = w.changed(snaps)
        case.v("atomic", not ch, f"{case.op} raised {getattr(r, 'exc_name', '')} but " + "; ".join(ch))
    elif kind == "ok":
        keep = [s for s in snaps if s[1] is not inplace_target]
        ch = w.changed(keep)
        case.v("purity", not ch, f"{case.op} is not an in-place operation but " + "; ".join(ch))
        if fresh and isinstance(r, (Obj, AArr)):
            rb = w.buffers(r)
            shared = [i for i in inputs if rb & w.buffers(i)]
            msg = ""
            if any(r is i for i in inputs):
                msg = "the result is the input object itself"
            elif shared:
                nm = [getattr(i, "f", {}).get("name", "ndarray") if isinstance(i, Obj) else "ndarray" for i in shared]
                msg = f"the result's values share memory with input {nm}: writing into one changes the other"
            elif isinstance(r, Obj) and "dims" in r.f:
                rd = r.f["dims"]
                for i in inputs:
                    if isinstance(i, Obj) and "dims" in i.f and (i.f["dims"] is rd or i.f["dims"].f["dim_list"] is rd.f["dim_list"]):
                        msg = f"the result shares its dimension set with input '{i.f.get('name')}'"
                    if isinstance(i, Obj) and "dim_list" in i.f and (i is rd or i.f["dim_list"] is rd.f["dim_list"]):
                        msg = "the result's dimension set is (or shares its list with) the DimensionSet passed in"
            case.v("fresh", not msg, f"{case.op}: {msg}")


def finish(case, w):
    case.taint = list(w.it.taint_hits)
    return case


# ====================================================================== arithmetic (C01)
SCALARS = [("0", 0), ("2", 2), ("2.5", 2.5), ("k", None)]
BIN = ["__add__", "__sub__", "__mul__", "__truediv__", "minimum", "maximum", "__pow__"]


def arith_oracle(op, X, Y, A, B, w):
    """-> ('ok', letters, term) | ('raise',)"""
    common = tuple(l for l in A if l in B)
    union = tuple(A) + tuple(l for l in B if l not in A)
    sx = sum_out(X, [l for l in A if l not in common], w)
    sy = sum_out(Y, [l for l in B if l not in common], w)
    if op == "__add__":
        return ("ok", common, t_add(sx, sy))
    if op == "__sub__":
        return ("ok", common, t_add(sx, t_neg(sy)))
    if op == "minimum":
        return ("ok", common, t_fn("minimum", sx, sy))
    if op == "maximum":
        return ("ok", common, t_fn("maximum", sx, sy))
    if op == "__mul__":
        return ("ok", union, t_mul(X, Y))
    if op == "__truediv__":
        return ("ok", union, t_mul(X, t_recip(Y)))
    if op == "__pow__":
        if any(l not in A for l in B):
            return ("raise",)
        return ("ok", tuple(A), t_fn("pow", X, Y))
    raise AnalysisError(op)


def case_binary(prog, op, A, B, taint_mode="abort", y_dtype="float"):
    w = World(prog, taint_mode)
    case = Case("arith", op, f"FlodymArray.{op}", {"op": op, "x_dims": list(A), "y_dims": list(B), **({"y_dtype": y_dtype} if y_dtype != "float" else {})})
    x, y = w.array("x", A), w.array("y", B, dtype=y_dtype)
    snaps = w.snap(x, y)
    kind, r = run_guarded(lambda: w.it.call_method(x, op, y))
    exp = arith_oracle(op, leaf_term("x", A, w), leaf_term("y", B, w), A, B, w)
    if exp[0] == "raise":
        case.v("raises", kind == "raise", f"x**y with y over dimensions x does not have was not refused ({describe(r, w)})")
    else:
        judge_array(case, w, kind, r, exp[1], full_axes(w, exp[1]), exp[2])
    common_checks(case, w, [x, y], snaps, kind, r, fresh=True)
    return finish(case, w)


def scalar_value(sc):
    return SymScalar(("sym", "k")) if sc[1] is None else sc[1]


def scalar_term(sc):
    return ("sym", "k") if sc[1] is None else NP.as_term(sc[1])


def case_scalar(prog, op, A, sc, reflected, taint_mode="abort", x_class=None):
    """x op k  /  k op x  for a plain number k (x: a FlodymArray or one of its subclasses)"""
    w = World(prog, taint_mode)
    form = f"{sc[0]} {op} x" if reflected else f"x {op} {sc[0]}"
    case = Case("arith-scalar", op, f"FlodymArray.{op}", {"form": form, "x_dims": list(A), "number": sc[0], **({"x_class": x_class} if x_class else {})})
    if x_class == "Flow":
        P = prog.cls("Process")
        extra = dict(from_process=w.it.construct(P, [], dict(name="sysenv", id=0)), to_process=w.it.construct(P, [], dict(name="use", id=1)))
        x = w.array("x", A, cls=prog.cls("Flow"), **extra)
    elif x_class:
        x = w.array("x", A, cls=prog.cls(x_class))
    else:
        x = w.array("x", A)
    k = scalar_value(sc)
    snaps = w.snap(x)
    X, K = leaf_term("x", A, w), scalar_term(sc)
    kind, r = run_guarded(lambda: w.it.call_method(x, op, k))
    base = {"__radd__": "__add__", "__rsub__": "__sub__", "__rmul__": "__mul__", "__rtruediv__": "__truediv__"}.get(op, op)
    if op == "__truediv__" and sc[1] == 0:
        exp_t = t_mul(X, ("recip", ("k", 0)))
    elif op in ("__rsub__",):
        exp_t = t_add(K, t_neg(X))
    elif op == "__rtruediv__":
        exp_t = t_mul(K, t_recip(X))
    elif base == "__add__":
        exp_t = t_add(X, K)
    elif base == "__sub__":
        exp_t = t_add(X, t_neg(K))
    elif base == "__mul__":
        exp_t = t_mul(X, K)
    elif base == "__truediv__":
        exp_t = t_mul(X, t_recip(K))
    elif base in ("minimum", "maximum"):
        exp_t = t_fn(base, X, K)
    elif base == "__pow__":
        exp_t = t_fn("pow", X, K)
    else:
        raise AnalysisError(op)
    judge_array(case, w, kind, r, tuple(A), full_axes(w, A), exp_t, what=form)
    common_checks(case, w, [x], snaps, kind, r, fresh=True)
    return finish(case, w)


UNARY = [("__neg__", lambda X: t_neg(X)), ("__abs__", lambda X: t_fn("abs", X)), ("abs", lambda X: t_fn("abs", X)),
         ("sign", lambda X: t_fn("sign", X))]


def case_unary(prog, op, fn, A, taint_mode="abort"):
    w = World(prog, taint_mode)
    case = Case("arith-unary", op, f"FlodymArray.{op}", {"op": op, "x_dims": list(A)})
    x = w.array("x", A)
    snaps = w.snap(x)
    kind, r = run_guarded(lambda: w.it.call_method(x, op))
    judge_array(case, w, kind, r, tuple(A), full_axes(w, A), fn(leaf_term("x", A, w)))
    common_checks(case, w, [x], snaps, kind, r, fresh=True)
    return finish(case, w)


def arith_cases(prog, alpha, lists=None, taint_mode="abort"):
    L = lists_over(alpha)
    for A in (lists if lists is not None else L):
        for B in L:
            for op in BIN:
                yield lambda op=op, A=A, B=B: case_binary(prog, op, A, B, taint_mode)
            if len(A) <= 2 and len(B) <= 2:      # an integer-valued (integer dtype) divisor is divided like any real number
                yield lambda A=A, B=B: case_binary(prog, "__truediv__", A, B, taint_mode, y_dtype="int")
        for sc in SCALARS:
            for op in BIN:
                yield lambda op=op, A=A, sc=sc: case_scalar(prog, op, A, sc, False, taint_mode)
            for op in ("__radd__", "__rsub__", "__rmul__", "__rtruediv__"):
                yield lambda op=op, A=A, sc=sc: case_scalar(prog, op, A, sc, True, taint_mode)
        if len(A) <= 2:
            # the operand is a Flow / Parameter / StockArray: a plain number still behaves as an array of x's dimensions
            for xc in ("Flow", "Parameter", "StockArray"):
                for op in ("__add__", "__mul__", "__pow__", "minimum", "__rsub__", "__rtruediv__"):
                    yield lambda op=op, A=A, xc=xc: case_scalar(prog, op, A, SCALARS[1], op.startswith("__r"), taint_mode, x_class=xc)
        for op, fn in UNARY:
            yield lambda op=op, fn=fn, A=A: case_unary(prog, op, fn, A, taint_mode)
        # histories: an operand is written in place between two evaluations of the same expression (memoised partial results are seen)
        if 1 <= len(A) <= 2:
            for B in L:
                if len(B) > 2 or (B and not set(A) & set(B)):
                    continue
                for op in ("__add__", "minimum", "__mul__"):
                    for how in ("x[...] = z", "y[...] = z", "x[{dim: item}] = k"):
                        yield lambda op=op, A=A, B=B, how=how: case_binary_after_write(prog, op, A, B, how, taint_mode)


# ====================================================================== sums, casts, shares, cumsum (C07)
def naming(w, letters, style):
    if style == "letters":
        return tuple(letters)
    if style == "names":
        return tuple(w.dim(l).f["name"] for l in letters)
    if style == "objects":
        return tuple(w.dim(l) for l in letters)
    if style == "equal-objects":        # Dimension objects that are equal to the array's own, but not the same objects (a re-created
        return tuple(w.dim(l, fresh=True) for l in letters)       # dimension, a deep copy, the dims of a slice)
    if style == "mixed":
        return tuple(l if i % 2 == 0 else w.dim(l).f["name"] for i, l in enumerate(letters))
    raise AnalysisError(style)


def case_sum(prog, method, A, S, style, taint_mode="abort"):
    w = World(prog, taint_mode)
    if w.same_names and style in ("names", "mixed") and len(A) > 1:
        return None         # all dimensions carry one name: addressing by name is ambiguous by construction, not an input of the property
    case = Case("sum", method, f"FlodymArray.{method}", {"op": method, "x_dims": list(A), "arg": list(S), "given_as": style})
    x = w.array("x", A)
    X = leaf_term("x", A, w)
    snaps = w.snap(x)
    arg = naming(w, S, style)
    kind, r = run_guarded(lambda: w.it.call_method(x, method, arg))
    if method in ("sum_to", "sum_values_to"):
        keep = tuple(S)
    else:
        keep = tuple(l for l in A if l not in S)
    term = sum_out(X, [l for l in A if l not in keep], w)
    if method.startswith("sum_values"):
        judge_ndarray(case, w, kind, r, full_axes(w, keep), term)
    else:
        judge_array(case, w, kind, r, keep, full_axes(w, keep), term)
    common_checks(case, w, [x], snaps, kind, r, fresh=False)
    return finish(case, w)


def case_sum_unknown(prog, method, A, style, taint_mode="abort"):
    w = World(prog, taint_mode)
    case = Case("sum", method, f"FlodymArray.{method}", {"op": method, "x_dims": list(A), "arg": ["z"], "given_as": style})
    x = w.array("x", A)
    snaps = w.snap(x)
    if style == "run-of-letters":       # an identifier spelled with the array's own letters is not a dimension of it
        arg = ("".join(A) if len(A) > 1 else A[0] + A[0] + A[0],)
        case.inp["arg"] = list(arg)
    elif style == "empty-string":
        arg = ("",)
        case.inp["arg"] = [""]
    elif style == "dimension-set":       # a whole DimensionSet handed over (e.g. other.dims) that holds a dimension the array lacks
        arg = w.dimset(tuple(A[:1]) + ("z",), dims={"z": w.dim("z", n=3)})
        case.inp["arg"] = list(A[:1]) + ["z"]
    else:
        arg = ("z",) if style == "letters" else ("zz",) if style == "names" else (w.dim("z", n=3),)
    kind, r = run_guarded(lambda: w.it.call_method(x, method, arg))
    if style == "dimension-set" and kind == "raise" and getattr(r, "exc_name", "") in ("TypeError", "AttributeError"):
        return None         # the argument form itself is not accepted: nothing to judge
    if style == "objects" and method == "sum_over":
        pass       # summing over a dimension the array does not have: nothing to sum; the property asks for refusal of unknown *names*
    case.v("raises", kind == "raise", f"{method} accepted the unknown dimension {arg!r} ({describe(r, w)})")
    common_checks(case, w, [x], snaps, kind, r)
    return finish(case, w)


def case_sum_removed_dimension(prog, method, A, how, style, taint_mode="abort"):
    """y = x reduced / sliced so that the last dimension is gone; then that dimension, asked of y, is an unknown one"""
    w = World(prog, taint_mode)
    gone = A[-1]
    case = Case("sum", method, f"FlodymArray.{method}", {"op": method, "x_dims": list(A), "history": f"y = x.{how}(...) without '{gone}'", "arg": [gone], "given_as": style})
    x = w.array("x", A)
    run_guarded(lambda: w.it.call_method(x.f["dims"], "index", gone))          # the parent set has been queried before
    if how == "sum_to":
        k0, y = run_guarded(lambda: w.it.call_method(x, "sum_to", tuple(A[:-1])))
    elif how == "sum_over":
        k0, y = run_guarded(lambda: w.it.call_method(x, "sum_over", (gone,)))
    else:
        k0, y = run_guarded(lambda: w.it.call_method(x, "__getitem__", {gone: w.items(gone)[0]}))
    if k0 != "ok" or not isinstance(y, Obj):
        return None
    snaps = w.snap(y)
    arg = (gone,) if style == "letters" else (gone * 2,)
    kind, r = run_guarded(lambda: w.it.call_method(y, method, arg))
    case.v("raises", kind == "raise", f"{method} accepted the dimension {arg!r}, which the array (obtained by {how}) does not have ({describe(r, w)})")
    common_checks(case, w, [y], snaps, kind, r)
    return finish(case, w)


def case_total(prog, A, taint_mode="abort"):
    w = World(prog, taint_mode)
    case = Case("sum", "sum_values", "FlodymArray.sum_values", {"op": "sum_values", "x_dims": list(A)})
    x = w.array("x", A)
    snaps = w.snap(x)
    kind, r = run_guarded(lambda: w.it.call_method(x, "sum_values"))
    judge_ndarray(case, w, kind, r, (), sum_out(leaf_term("x", A, w), A, w))
    common_checks(case, w, [x], snaps, kind, r)
    return finish(case, w)


def case_cast(prog, method, A, B, taint_mode="abort"):
    w = World(prog, taint_mode)
    case = Case("cast", method, f"FlodymArray.{method}", {"op": method, "x_dims": list(A), "target_dims": list(B)})
    x = w.array("x", A)
    tgt = w.dimset(B)
    snaps = w.snap(x, tgt)
    kind, r = run_guarded(lambda: w.it.call_method(x, method, tgt))
    if any(l not in B for l in A):
        case.v("raises", kind == "raise", f"{method} to a target lacking a source dimension was not refused ({describe(r, w)})")
    elif method == "cast_to":
        judge_array(case, w, kind, r, tuple(B), full_axes(w, B), leaf_term("x", A, w))
    else:
        judge_ndarray(case, w, kind, r, full_axes(w, B), leaf_term("x", A, w))
    common_checks(case, w, [x, tgt], snaps, kind, r, fresh=(method == "cast_to"))
    return finish(case, w)


def case_shares(prog, A, S, taint_mode="abort", dtype="float"):
    w = World(prog, taint_mode)
    case = Case("shares", "get_shares_over", "FlodymArray.get_shares_over", {"op": "get_shares_over", "x_dims": list(A), "over": list(S), **({"x_dtype": dtype} if dtype != "float" else {})})
    x = w.array("x", A, dtype=dtype)
    X = leaf_term("x", A, w)
    snaps = w.snap(x)
    kind, r = run_guarded(lambda: w.it.call_method(x, "get_shares_over", tuple(S)))
    if any(l not in A for l in S):
        case.v("raises", kind == "raise", "shares over a dimension the array does not have were not refused")
    else:
        judge_array(case, w, kind, r, tuple(A), full_axes(w, A), t_mul(X, t_recip(sum_out(X, S, w))))
    common_checks(case, w, [x], snaps, kind, r, fresh=True)
    return finish(case, w)


def case_cumsum(prog, A, l, inplace, taint_mode="abort"):
    w = World(prog, taint_mode)
    case = Case("cumsum", "cumsum", "FlodymArray.cumsum", {"op": "cumsum", "x_dims": list(A), "letter": l, "inplace": inplace})
    x = w.array("x", A)
    X = leaf_term("x", A, w)
    snaps = w.snap(x)
    kind, r = run_guarded(lambda: w.it.call_method(x, "cumsum", l, inplace=inplace))
    if l not in A:
        case.v("raises", kind == "raise", "cumsum along a dimension the array does not have was not refused")
        common_checks(case, w, [x], snaps, kind, r)
        return finish(case, w)
    exp = ("cumsum", tuple(w.items(l)), X)
    if inplace:
        ok = kind == "ok" and r is None
        case.v("result", ok, f"cumsum(inplace=True) ended with {kind} {describe(r, w)}")
        if ok:
            judge_array(case, w, "ok", x, tuple(A), full_axes(w, A), exp, what="receiver after cumsum(inplace=True)")
        common_checks(case, w, [x], snaps, kind, r, inplace_target=x)
    else:
        judge_array(case, w, kind, r, tuple(A), full_axes(w, A), exp)
        common_checks(case, w, [x], snaps, kind, r, fresh=True)
    return finish(case, w)


def reduce_cases(prog, alpha, lists=None, taint_mode="abort"):
    L = lists_over(alpha)
    for A in (lists if lists is not None else L):
        subs = [S for S in L if all(l in A for l in S)]
        for S in subs:
            for method in ("sum_to", "sum_values_to"):
                for style in (("letters", "names", "objects", "equal-objects", "mixed") if method == "sum_to" else ("letters",)):
                    if style == "mixed" and len(S) < 2:
                        continue
                    if style == "equal-objects" and (not S or len(A) > 2):
                        continue
                    yield lambda m=method, A=A, S=S, st=style: case_sum(prog, m, A, S, st, taint_mode)
            if tuple(sorted(S)) == S or len(S) <= 2:
                for method in ("sum_over", "sum_values_over"):
                    for style in (("letters", "names", "objects", "equal-objects") if method == "sum_over" else ("letters",)):
                        if style == "equal-objects" and (not S or len(A) > 2):
                            continue
                        yield lambda m=method, A=A, S=S, st=style: case_sum(prog, m, A, S, st, taint_mode)
                yield lambda A=A, S=S: case_shares(prog, A, S, taint_mode)
                if S and len(S) < len(A):
                    # a dimension named twice is still that one dimension (also when the count then equals the number of dimensions)
                    yield lambda A=A, S=S: case_shares(prog, A, tuple(S) + tuple(S[:1]) * (len(A) - len(S)), taint_mode)
                if len(A) <= 2:
                    yield lambda A=A, S=S: case_shares(prog, A, S, taint_mode, dtype="int")
        for method in ("sum_to", "sum_over"):
            for style in ("letters", "names", "run-of-letters", "empty-string") + (("objects", "dimension-set") if method == "sum_to" else ()):
                if A or style in ("letters", "names"):
                    yield lambda m=method, A=A, st=style: case_sum_unknown(prog, m, A, st, taint_mode)
        yield lambda A=A: case_total(prog, A, taint_mode)
        yield lambda A=A: case_shares(prog, A, ("z",), taint_mode)
        if len(A) >= 2:
            for how in ("sum_to", "sum_over", "slice"):
                for style in ("letters", "names"):
                    yield lambda A=A, how=how, style=style: case_sum_removed_dimension(prog, "sum_over", A, how, style, taint_mode)
        for B in L:
            if all(l in B for l in A) or len(B) <= len(A) + 1:
                for method in ("cast_to", "cast_values_to"):
                    yield lambda m=method, A=A, B=B: case_cast(prog, m, A, B, taint_mode)
        for l in A + ("z",):
            for inplace in (False, True):
                yield lambda A=A, l=l, ip=inplace: case_cumsum(prog, A, l, ip, taint_mode)
        if len(A) <= 2:      # a source dimension with a single item is a dimension all the same
            for method in ("cast_to", "cast_values_to"):
                yield lambda m=method, A=A: case_cast(prog, m, A + ("s",), A, taint_mode)
                yield lambda m=method, A=A: case_cast(prog, m, ("s",) + A, A + ("s",), taint_mode)
            yield lambda A=A: case_sum(prog, "sum_to", A + ("s",), A, "letters", taint_mode)


# ====================================================================== indexing (C06) and assignment (C05)
KINDS = ("absent", "single", "subset", "list")


def selection(w: World, A, kv, key_style="letter", subset_pos=None):
    """-> key, expected dims letters, expected axes, substitution selector (for terms), has_list"""
    key, letters, axes, sel = {}, [], [], []
    subdims = {}
    for l, k in zip(A, kv):
        items = w.items(l)
        kname = l if key_style == "letter" else l * 2
        if k == "absent":
            letters.append(l)
            axes.append(tuple(items))
        elif k == "single":
            key[kname] = items[1]
            sel.append((l, ("c", items[1])))
        else:
            pos = (subset_pos or {}).get(l) or w.subset_pos[l]
            if pos == "all":
                pos = list(range(len(items)))
            chosen = [items[p] for p in pos]
            if k == "subset":
                d = w.subdim(l, pos)
                subdims[l] = d
                key[kname] = d
                letters.append(l.upper())
            else:
                # several items of the dimension: a list - or any other iterable of items (tuple, the keys view of a dict)
                form = getattr(w, "list_as", "list")
                key[kname] = list(chosen) if form == "list" else tuple(chosen) if form == "tuple" else KeyList(chosen)
                letters.append(l)
            axes.append(tuple(chosen))
            sel.append((l, ("v", vkey(chosen))))
    return key, tuple(letters), axes, sel, subdims


def sel_subst(sel, w):
    return {vkey(w.items(l)): s for l, s in sel}


def case_getitem(prog, A, kv, key_style="letter", subset_pos=None, taint_mode="abort"):
    w = World(prog, taint_mode)
    case = Case("getitem", "__getitem__", "FlodymArray.__getitem__",
                {"op": "x[key]", "x_dims": list(A), "selector_kinds": list(kv), "key_by": key_style,
                 **({"subset_positions": subset_pos} if subset_pos else {})})
    x = w.array("x", A)
    key, letters, axes, sel, subdims = selection(w, A, kv, key_style, subset_pos)
    snaps = w.snap(x, *subdims.values())
    k = key if key else Ellipsis
    kind, r = run_guarded(lambda: w.it.call_method(x, "__getitem__", k))
    if "list" in kv:
        case.v("raises", kind == "raise", "reading with a list of items must be refused (documented: use a subset Dimension)")
    else:
        judge_array(case, w, kind, r, letters, axes, NP.subst(leaf_term("x", A, w), sel_subst(sel, w)))
    common_checks(case, w, [x] + list(subdims.values()), snaps, kind, r, fresh=True)
    return finish(case, w)


def case_getitem_after_copy(prog, A, kv, key_style="letter", taint_mode="abort"):
    """history: x[key] is read; y = x.copy() gets other values in place; y[key] must be y's entries (and x[key] still x's)"""
    w = World(prog, taint_mode)
    case = Case("getitem", "__getitem__", "FlodymArray.__getitem__",
                {"op": "x[key]; y = x.copy(); y[...] = z; y[key]", "x_dims": list(A), "selector_kinds": list(kv), "key_by": key_style})
    x = w.array("x", A)
    z = w.array("z", A)
    key, letters, axes, sel, subdims = selection(w, A, kv, key_style)
    k = key if key else Ellipsis
    k0, _ = run_guarded(lambda: w.it.call_method(x, "__getitem__", k))
    k1, y = run_guarded(lambda: w.it.call_method(x, "copy"))
    if k0 != "ok" or k1 != "ok" or not isinstance(y, Obj):
        return None
    k2, _ = run_guarded(lambda: w.it.call_method(y, "__setitem__", Ellipsis, z))
    if k2 != "ok":
        return None
    snaps = w.snap(x, y)
    kind, r = run_guarded(lambda: w.it.call_method(y, "__getitem__", k))
    judge_array(case, w, kind, r, letters, axes, NP.subst(leaf_term("z", A, w), sel_subst(sel, w)), what="y[key] after y was refilled")
    kind2, r2 = run_guarded(lambda: w.it.call_method(x, "__getitem__", k))
    judge_array(case, w, kind2, r2, letters, axes, NP.subst(leaf_term("x", A, w), sel_subst(sel, w)), what="x[key] afterwards")
    common_checks(case, w, [x, y], snaps, kind, r, fresh=True)
    return finish(case, w)


def case_binary_after_write(prog, op, A, B, how, taint_mode="abort"):
    """history: x op y has been computed; x (or y) is then written IN PLACE; x op y again follows the present values"""
    w = World(prog, taint_mode)
    case = Case("arith", op, f"FlodymArray.{op}", {"op": op, "x_dims": list(A), "y_dims": list(B), "history": f"x {op} y; {how}; x {op} y"})
    x, y = w.array("x", A), w.array("y", B)
    k0, _ = run_guarded(lambda: w.it.call_method(x, op, y))
    if k0 != "ok":
        return None
    if how == "x[...] = z":
        z = w.array("z", A)
        kw, _ = run_guarded(lambda: w.it.call_method(x, "__setitem__", Ellipsis, z))
    elif how == "y[...] = z":
        z = w.array("z", B)
        kw, _ = run_guarded(lambda: w.it.call_method(y, "__setitem__", Ellipsis, z))
    elif how == "x[{dim: item}] = k":
        l0 = min(A)          # the same dimension whatever the storage order (the storage orders of one case are compared by C04)
        kw, _ = run_guarded(lambda: w.it.call_method(x, "__setitem__", {l0: w.items(l0)[1]}, SymScalar(("sym", "k"))))
    else:
        raise AnalysisError(how)
    if kw != "ok":
        return None
    X, Y = x.f["values"].term, y.f["values"].term       # what the arrays hold now (the write itself is the business of C05)
    snaps = w.snap(x, y)
    kind, r = run_guarded(lambda: w.it.call_method(x, op, y))
    exp = arith_oracle(op, X, Y, A, B, w)
    judge_array(case, w, kind, r, exp[1], full_axes(w, exp[1]), exp[2], what="second result")
    common_checks(case, w, [x, y], snaps, kind, r, fresh=True)
    return finish(case, w)


def rhs_variants(kv):
    out = ["number", "ndarray"]
    if "list" not in kv:
        out += ["array-same", "array-permuted", "array-permuted-extra", "array-missing", "array-other-dim"]
        if "single" in kv:
            out += ["array-with-keyed-dim"]       # the source still carries the dimension the key fixes to one item: summed over it, like any other
        if sum(1 for k in kv if k in ("absent", "subset")) >= 3:
            out += ["array-rotated", "array-rotated-back"]      # cyclic orders: a permutation that is not its own inverse
    return out


def case_setitem(prog, A, kv, rhs, key_style="letter", subset_pos=None, taint_mode="abort", list_as="list"):
    w = World(prog, taint_mode)
    w.list_as = list_as
    case = Case("setitem", "__setitem__", "FlodymArray.__setitem__",
                {"op": "x[key] = rhs", "x_dims": list(A), "selector_kinds": list(kv), "rhs": rhs, "key_by": key_style,
                 **({"subset_positions": subset_pos} if subset_pos else {}), **({"items_given_as": list_as} if list_as != "list" else {})})
    x = w.array("x", A)
    X = leaf_term("x", A, w)
    key, letters, axes, sel, subdims = selection(w, A, kv, key_style, subset_pos)
    k = key if key else Ellipsis
    region_dims = {}
    for l, kk in zip(A, kv):
        if kk == "absent":
            region_dims[l] = w.dim(l)
        elif kk == "subset":
            region_dims[l.upper()] = subdims[l]
    inputs = [x] + list(subdims.values())
    expect_raise = False
    src = None
    if rhs == "number":
        val = SymScalar(("sym", "k"))
        vt = ("sym", "k")
    elif rhs == "ndarray":
        val = w.user_ndarray("u", axes)
        vt = val.term
        src = val
        inputs.append(val)
    else:
        extra = [l for l in "abcd" if l not in A][:1] if rhs == "array-permuted-extra" else []
        if rhs == "array-with-keyed-dim":
            extra = [l for l, kk in zip(A, kv) if kk == "single"][:1]
        rl = list(reversed(letters)) + extra if rhs in ("array-permuted-extra", "array-permuted") else list(letters)
        if rhs == "array-with-keyed-dim":
            rl = extra + list(letters)
        if rhs == "array-permuted" and len(letters) < 2:
            return None
        if rhs in ("array-rotated", "array-rotated-back"):
            if len(letters) < 3:
                return None
            rl = list(letters[1:]) + list(letters[:1]) if rhs == "array-rotated" else list(letters[-1:]) + list(letters[:-1])
        if rhs == "array-missing":
            if not letters:
                return None
            rl = rl[1:]
            expect_raise = True
        if rhs == "array-other-dim":      # same number of dimensions, one of them foreign
            if not letters:
                return None
            rl = rl[:-1] + ["e"]
            expect_raise = True
        dimobjs = dict(region_dims)
        y = w.array("y", rl, dimobjs=dimobjs)
        val = y
        inputs.append(y)
        src = y.f["values"]         # the target must not end up sharing memory with the source array either (e.g. a transposed view of it)
        yt = y.f["values"].term
        vt = t_sum({vkey(w.items(e)) for e in extra}, yt)
    snaps = w.snap(*inputs)
    several = "list" in kv and rhs.startswith("array")
    if several:
        # several items picked by a list (tuple, keys view): the region keeps the dimension with only the picked items, which no
        # array over the whole dimension fits (documented: use a subset Dimension for that) - refused, not summed or broadcast
        expect_raise = True
    kind, r = run_guarded(lambda: w.it.call_method(x, "__setitem__", k, val))
    if expect_raise:
        case.v("raises", kind == "raise", "an array over the whole dimension was accepted for a region picked by a list of items" if several else
               "a right-hand side lacking a dimension of the addressed region was not refused")
        common_checks(case, w, inputs, snaps, kind, r, inplace_target=x)
        return finish(case, w)
    sel_eff = [(l, s) for l, s in sel if not (s[0] == "v" and s[1] == vkey(w.items(l)))]      # selecting every item restricts nothing
    exp = ("upd", X, tuple(sorted(sel_eff)), vt) if sel_eff else vt
    if kind != "ok":
        case.v("result", False, f"assignment ended with {kind}: {describe(r, w)}")
    else:
        judge_array(case, w, "ok", x, tuple(A), full_axes(w, A), exp, what="target after assignment")
        if src is not None:
            v = x.f["values"]
            shared = isinstance(v, AArr) and (v is src or v.buf is src.buf)
            case.v("copied", not shared, "the assigned ndarray / the source array's values are stored without a copy: later changes to one reach the other")
    common_checks(case, w, inputs, snaps, kind, r, inplace_target=x)
    return finish(case, w)


def case_whole_ndarray_wrong_shape(prog, A, how, via, taint_mode="abort"):
    """x[...] = u / x.set_values(u) with an ndarray that does not have exactly the target's shape"""
    w = World(prog, taint_mode)
    case = Case("setitem-illformed", via, f"FlodymArray.{via}", {"op": f"{via} with ndarray", "x_dims": list(A), "ndarray": how})
    x = w.array("x", A)
    if how == "transposed":
        ax = list(reversed(full_axes(w, A)))
    elif how == "missing-axis":
        ax = full_axes(w, A)[1:]
    elif how == "extra-axis":
        ax = full_axes(w, A) + [tuple(w.items("e"))]
    elif how == "other-length":
        ax = full_axes(w, A)[:-1] + [tuple(w.items("e"))]
    elif how == "flodym-array":
        ax = None
    elif how == "squeezed":
        # the target's shape with the axes of its single-item dimensions left out: not the target's shape
        ax = [a for l, a in zip(A, full_axes(w, A)) if l != "s"]
    else:
        raise AnalysisError(how)
    val = w.array("y", A) if ax is None else w.user_ndarray("u", ax)
    snaps = w.snap(x, val)
    if via == "set_values":
        kind, r = run_guarded(lambda: w.it.call_method(x, "set_values", val))
    else:
        kind, r = run_guarded(lambda: w.it.call_method(x, "__setitem__", Ellipsis, val))
    if how == "flodym-array" and via == "__setitem__":
        judge_array(case, w, "ok" if kind == "ok" else kind, x, tuple(A), full_axes(w, A), leaf_term("y", A, w), what="target after x[...] = y")
        common_checks(case, w, [x, val], snaps, kind, r, inplace_target=x)
    else:
        case.v("raises", kind == "raise", f"an ndarray/array that is not of the target's shape was accepted ({how})")
        common_checks(case, w, [x, val], snaps, kind, r, inplace_target=x)
    return finish(case, w)


def case_ctor_wrong_shape(prog, A, how, cls_name="FlodymArray", taint_mode="abort"):
    w = World(prog, taint_mode)
    case = Case("ctor-illformed", "__init__", f"{cls_name}.__init__", {"op": f"{cls_name}(dims, values)", "dims": list(A), "values": how})
    ds = w.dimset(A)
    if how == "transposed":
        ax = list(reversed(full_axes(w, A)))
    elif how == "missing-axis":
        ax = full_axes(w, A)[1:]
    elif how == "other-length":
        ax = full_axes(w, A)[:-1] + [tuple(w.items("e"))]
    elif how == "extra-axis":
        ax = full_axes(w, A) + [tuple(w.items("e"))]
    elif how == "number":
        ax = None
    elif how == "squeezed":
        ax = [a for l, a in zip(A, full_axes(w, A)) if l != "s"]
    else:
        raise AnalysisError(how)
    val = SymScalar(("sym", "k")) if ax is None else w.user_ndarray("u", ax)
    snaps = w.snap(ds)
    kind, r = run_guarded(lambda: w.it.construct(prog.cls(cls_name), [], dict(dims=ds, values=val)))
    case.v("raises", kind == "raise", f"constructor accepted values that do not have the shape of dims ({how})")
    common_checks(case, w, [ds], snaps, kind, r)
    return finish(case, w)


def case_ctor_repeated_dims(prog, A, via, cls_name="FlodymArray", taint_mode="abort"):
    """an array over a dimension set that holds one dimension twice (a subset selecting the same dimension two times): refused"""
    w = World(prog, taint_mode)
    sel = tuple(A) + tuple(A[:1])
    case = Case("ctor-illformed", "__init__", f"{cls_name}.__init__", {"op": f"{cls_name} over a subset naming '{A[0]}' twice", "dims": list(sel), "via": via})
    base = w.dimset(A)
    snaps = w.snap(base)
    if via == "from_dims_superset":
        kind, r = run_guarded(lambda: w.it.call(w.it.get_attr(prog.cls(cls_name), "from_dims_superset"), [base, sel], {}))
    else:
        def go():
            twice = w.it.call_method(base, "get_subset", sel)        # may itself refuse
            return w.it.construct(prog.cls(cls_name), [], dict(dims=twice))
        kind, r = run_guarded(go)
    case.v("raises", kind == "raise", "an array whose dimension set holds the same letter twice was built")
    common_checks(case, w, [base], snaps, kind, r)
    return finish(case, w)


def case_ctor_ok(prog, A, cls_name="FlodymArray", values="none", taint_mode="abort"):
    w = World(prog, taint_mode)
    case = Case("ctor", "__init__", f"{cls_name}.__init__", {"op": f"{cls_name}(dims, values)", "dims": list(A), "values": values})
    ds = w.dimset(A)
    snaps = w.snap(ds)
    kw = dict(dims=ds)
    src = None
    if values == "ndarray":
        src = w.user_ndarray("u", full_axes(w, A))
        kw["values"] = src
    elif values == "number" and not A:
        kw["values"] = SymScalar(("sym", "k"))
    kind, r = run_guarded(lambda: w.it.construct(prog.cls(cls_name), [], kw))
    term = ("k", 0) if values == "none" else (src.term if src is not None else ("sym", "k"))
    judge_array(case, w, kind, r, tuple(A), full_axes(w, A), term)
    common_checks(case, w, [ds], snaps, kind, r, fresh=True)
    return finish(case, w)


def case_errors_getitem(prog, A, how, taint_mode="abort"):
    w = World(prog, taint_mode)
    case = Case("getitem-illformed", "__getitem__", "FlodymArray.__getitem__", {"op": "x[key]", "x_dims": list(A), "key": how})
    dimobjs = {}
    if how == "ambiguous-item" and len(A) >= 2:
        shared = "q0"
        for l in A[:2]:
            dimobjs[l] = w.it.construct(w.Dimension, [], dict(name=l * 2, letter=l, items=ItemList(w.items(l)[:-1] + [shared])))
    x = w.array("x", A, dimobjs=dimobjs)
    snaps = w.snap(x)
    if how == "slice":
        key = slice(None)
    elif how == "slice-in-tuple":
        key = (slice(None), w.items(A[0])[0]) if A else slice(None)
    elif how == "unknown-item":
        key = "nope"
    elif how == "unknown-item-in-dict":
        key = {A[0]: "nope"}
    elif how == "unknown-dim-in-dict":
        key = {"z": "z0"}
    elif how == "ambiguous-item":
        key = "q0"
    elif how == "non-subset-dimension":
        key = {A[0]: w.it.construct(w.Dimension, [], dict(name="subx", letter=A[0].upper(), items=ItemList([w.items(A[0])[0], "nope"])))}
    elif how == "subset-dimension-of-other-dim":
        key = {A[0]: w.subdim("e")}
    else:
        raise AnalysisError(how)
    kind, r = run_guarded(lambda: w.it.call_method(x, "__getitem__", key))
    case.v("raises", kind == "raise", f"key '{how}' was accepted ({describe(r, w)})")
    common_checks(case, w, [x], snaps, kind, r)
    return finish(case, w)


def case_tuple_key(prog, A, which, taint_mode="abort"):
    """x[item], x[item1, item2] with the dimension inferred from the items"""
    w = World(prog, taint_mode)
    case = Case("getitem", "__getitem__", "FlodymArray.__getitem__", {"op": "x[items...]", "x_dims": list(A), "items_from": list(which)})
    x = w.array("x", A)
    X = leaf_term("x", A, w)
    snaps = w.snap(x)
    items = [w.items(l)[-1] for l in which]
    key = items[0] if len(items) == 1 else tuple(items)
    kind, r = run_guarded(lambda: w.it.call_method(x, "__getitem__", key))
    keep = [l for l in A if l not in which]
    m = {vkey(w.items(l)): ("c", w.items(l)[-1]) for l in which}
    judge_array(case, w, kind, r, tuple(keep), full_axes(w, keep), NP.subst(X, m))
    common_checks(case, w, [x], snaps, kind, r, fresh=True)
    return finish(case, w)


def case_tuple_key_set(prog, A, l, taint_mode="abort"):
    """x[item1, item2] = k with two items of one dimension: an outer-product region"""
    w = World(prog, taint_mode)
    case = Case("setitem", "__setitem__", "FlodymArray.__setitem__", {"op": "x[i1, i2] = k", "x_dims": list(A), "two_items_of": l})
    x = w.array("x", A)
    X = leaf_term("x", A, w)
    snaps = w.snap(x)
    its = [w.items(l)[-1], w.items(l)[1]]
    kind, r = run_guarded(lambda: w.it.call_method(x, "__setitem__", tuple(its), SymScalar(("sym", "k"))))
    exp = ("upd", X, ((l, ("v", vkey(its))),), ("sym", "k"))
    if kind != "ok":
        case.v("result", False, f"assignment ended with {kind}: {describe(r, w)}")
    else:
        judge_array(case, w, "ok", x, tuple(A), full_axes(w, A), exp, what="target after assignment")
    common_checks(case, w, [x], snaps, kind, r, inplace_target=x)
    return finish(case, w)


def case_tuple_key_interleaved(prog, A, l, other, taint_mode="abort"):
    """x[i1, j, i2] = k: two items of dimension l with an item of another dimension BETWEEN them in the tuple"""
    w = World(prog, taint_mode)
    case = Case("setitem", "__setitem__", "FlodymArray.__setitem__", {"op": "x[i1, j, i2] = k", "x_dims": list(A), "two_items_of": l, "item_between_from": other})
    x = w.array("x", A)
    X = leaf_term("x", A, w)
    snaps = w.snap(x)
    its = [w.items(l)[-1], w.items(l)[1]]
    j = w.items(other)[0]
    kind, r = run_guarded(lambda: w.it.call_method(x, "__setitem__", (its[0], j, its[1]), SymScalar(("sym", "k"))))
    exp = ("upd", X, tuple(sorted([(l, ("v", vkey(its))), (other, ("c", j))])), ("sym", "k"))
    if kind != "ok":
        case.v("result", False, f"assignment ended with {kind}: {describe(r, w)}")
    else:
        judge_array(case, w, "ok", x, tuple(A), full_axes(w, A), exp, what="target after assignment")
    common_checks(case, w, [x], snaps, kind, r, inplace_target=x)
    return finish(case, w)


def case_split(prog, A, l, taint_mode="abort"):
    w = World(prog, taint_mode)
    case = Case("split", "split", "FlodymArray.split", {"op": "split", "x_dims": list(A), "letter": l})
    x = w.array("x", A)
    X = leaf_term("x", A, w)
    snaps = w.snap(x)
    kind, r = run_guarded(lambda: w.it.call_method(x, "split", l))
    keep = [d for d in A if d != l]
    if kind != "ok" or not isinstance(r, dict):
        case.v("result", False, f"split ended with {kind}: {describe(r, w)}")
    else:
        ok = list(r.keys()) == w.items(l)
        case.v("result", ok, f"split keys {list(r.keys())[:4]}.. are not the items of dimension {l} in order")
        for item, part in list(r.items())[:3]:
            judge_array(case, w, "ok", part, tuple(keep), full_axes(w, keep), NP.subst(X, {vkey(w.items(l)): ("c", item)}),
                        what=f"split part for item {item}")
    common_checks(case, w, [x], snaps, kind, r if kind != 'ok' else None, fresh=False)
    return finish(case, w)


def case_stack(prog, A, n_first=True, taint_mode="abort", mixed_orders=False):
    """flodym_array_stack of arrays over A along a new dimension (mixed_orders: the second array is stored in reverse dimension order)"""
    w = World(prog, taint_mode)
    case = Case("stack", "flodym_array_stack", "flodym_array_stack", {"op": "flodym_array_stack", "dims": list(A), **({"second_array_stored_as": list(reversed(A))} if mixed_orders else {})})
    new = w.dim("e")
    items = w.items("e")
    arrs = [w.array(f"x{i}", tuple(reversed(A)) if (mixed_orders and i == 1) else A) for i in range(3)]
    newd = w.it.construct(w.Dimension, [], dict(name="ee", letter="e", items=ItemList(items[:3])))
    snaps = w.snap(*arrs)
    fn = prog.func("flodym_array_helper.py", "flodym_array_stack")
    kind, r = run_guarded(lambda: w.it.call_fn(fn, [arrs, newd], {}))
    t = ("k", 0)
    for it_, a in zip(items[:3], arrs):
        t = ("upd", t, (("e", ("c", it_)),), leaf_term(a.f["name"], A, w))
    judge_array(case, w, kind, r, tuple(A) + ("e",), full_axes(w, A) + [tuple(items[:3])], t)
    common_checks(case, w, arrs, snaps, kind, r, fresh=True)
    return finish(case, w)


def order_patterns(n_items, k):
    """all ordered selections of k positions out of n (position-dependent code needs more than one representative)"""
    return list(itertools.permutations(range(n_items), k))


def kind_vectors(n):
    return itertools.product(KINDS, repeat=n)


def index_cases(prog, max_dims, taint_mode="abort", vectors=None):
    letters = "abcde"
    for n in range(0, max_dims + 1):
        A = tuple(letters[:n])
        for kv in (vectors if vectors is not None else kind_vectors(n)):
            if len(kv) != n:
                continue
            yield lambda A=A, kv=kv: case_getitem(prog, A, kv, "letter", None, taint_mode)
            for rhs in rhs_variants(kv):
                yield lambda A=A, kv=kv, rhs=rhs: case_setitem(prog, A, kv, rhs, "letter", None, taint_mode)
            if n <= 3 and any(k != "absent" for k in kv):
                yield lambda A=A, kv=kv: case_getitem(prog, A, kv, "name", None, taint_mode)
                yield lambda A=A, kv=kv: case_setitem(prog, A, kv, "number", "name", None, taint_mode)


def permuted_storage_index_cases(prog, taint_mode="abort"):
    """the same selections on arrays whose dimensions are stored in another order (C04)"""
    for A in [("b", "a"), ("c", "a", "b"), ("b", "c", "a"), ("c", "b", "a"), ("a", "c", "b")]:
        for kv in kind_vectors(len(A)):
            yield lambda A=A, kv=kv: case_getitem(prog, A, kv, "letter", None, taint_mode)
            yield lambda A=A, kv=kv: case_setitem(prog, A, kv, "array-permuted-extra" if "list" not in kv else "ndarray", "letter", None, taint_mode)


def selection_order_cases(prog, taint_mode="concrete"):
    """one dimension, every ordered selection of 2..4 of its 5 items, as subset Dimension and as list"""
    A = ("a",)
    for k in (2, 3, 4):
        for pos in order_patterns(5, k):
            sp = {"a": list(pos)}
            yield lambda sp=sp: case_getitem(prog, A, ("subset",), "letter", sp, taint_mode)
            yield lambda sp=sp: case_setitem(prog, A, ("list",), "ndarray", "letter", sp, taint_mode)
    for pos in [(0, 2, 1, 3), (0, 3, 2), (4, 0, 2), (1, 2, 3), (3, 2, 1)]:
        for A2, kv in [(("b", "a"), ("absent", "subset")), (("a", "b"), ("subset", "single")), (("b", "a", "c"), ("single", "subset", "absent"))]:
            sp = {"a": list(pos)}
            yield lambda A2=A2, kv=kv, sp=sp: case_getitem(prog, A2, kv, "letter", sp, taint_mode)
            yield lambda A2=A2, kv=kv, sp=sp: case_setitem(prog, A2, kv, "number", "letter", sp, taint_mode)


def pattern_mix_cases(prog, taint_mode="concrete"):
    """keys that combine, across dimensions, an adjacent ascending run, a spread (non-adjacent, unordered) selection, single
    items and lists: code that rewrites index lists by their positions sees every combination"""
    A = ("a", "b", "c")
    pats = {"run": {"a": [1, 2], "b": [2, 3, 4], "c": [4, 5]}, "run1": {"a": [2], "b": [3], "c": [6]},
            "spread": {"a": [4, 0], "b": [6, 0, 3], "c": [10, 0, 5, 2]}}
    kinds = ("absent", "single", "subset", "list")
    for kv in itertools.product(kinds, repeat=3):
        sel_dims = [l for l, k in zip(A, kv) if k in ("subset", "list")]
        if len([k for k in kv if k != "absent"]) < 2 or not sel_dims:
            continue
        for combo in itertools.product(("run", "spread", "run1"), repeat=len(sel_dims)):
            if "run" not in combo and "run1" not in combo:
                continue
            sp = {l: pats[p][l] for l, p in zip(sel_dims, combo)}
            if "list" not in kv:
                yield lambda kv=kv, sp=sp: case_getitem(prog, A, kv, "letter", sp, taint_mode)
                yield lambda kv=kv, sp=sp: case_setitem(prog, A, kv, "array-same", "letter", sp, taint_mode)
            yield lambda kv=kv, sp=sp: case_setitem(prog, A, kv, "number", "letter", sp, taint_mode)


def case_fill_then_write(prog, A, taint_mode="abort"):
    """history: x[...] = 2 (a whole number) fills the array; a later x[{d: item}] = k stores k itself - the array is still an array of reals"""
    w = World(prog, taint_mode)
    case = Case("setitem", "__setitem__", "FlodymArray.__setitem__", {"op": "x[...] = 2; x[{d: item}] = k", "x_dims": list(A)})
    x = w.array("x", A)
    k0, _ = run_guarded(lambda: w.it.call_method(x, "__setitem__", Ellipsis, 2))
    if k0 != "ok":
        case.v("result", False, f"x[...] = 2 ended with {k0}")
        return finish(case, w)
    item = w.items(A[0])[1]
    snaps = w.snap(x)
    kind, r = run_guarded(lambda: w.it.call_method(x, "__setitem__", {A[0]: item}, SymScalar(("sym", "k"))))
    exp = ("upd", ("k", 2), ((universe_of(w, A[0]), ("c", item)),), ("sym", "k"))
    if kind != "ok":
        case.v("result", False, f"the second assignment ended with {kind}: {describe(r, w)}")
    else:
        judge_array(case, w, "ok", x, tuple(A), full_axes(w, A), exp, what="target after x[...] = 2; x[{d: item}] = k")
    common_checks(case, w, [x], snaps, kind, r, inplace_target=x)
    return finish(case, w)


def universe_of(w, letter):
    return NP.universe(w.items(letter)[0])


def case_write_unknown_in_list(prog, A, taint_mode="abort"):
    """x[{d: [known, unknown]}] = k must be refused (and leave x as it was)"""
    w = World(prog, taint_mode)
    case = Case("setitem-illformed", "__setitem__", "FlodymArray.__setitem__", {"op": "x[{d: [item, unknown item]}] = k", "x_dims": list(A)})
    x = w.array("x", A)
    snaps = w.snap(x)
    key = {A[0]: [w.items(A[0])[0], "nope"]}
    kind, r = run_guarded(lambda: w.it.call_method(x, "__setitem__", key, SymScalar(("sym", "k"))))
    case.v("raises", kind == "raise", f"a list of items containing an unknown item was accepted as key ({describe(r, w)})")
    common_checks(case, w, [x], snaps, kind, r, inplace_target=x)
    return finish(case, w)


def misc_index_cases(prog, taint_mode="abort"):
    for A in [("a",), ("b", "a")]:
        yield lambda A=A: case_fill_then_write(prog, A, taint_mode)
    # several items of one dimension given as something other than a list
    for A, kv in [(("a",), ("list",)), (("b", "a"), ("absent", "list")), (("b", "a"), ("list", "single")), (("a", "b", "c"), ("single", "list", "absent"))]:
        for form in ("tuple", "keys-view"):
            for rhs in ("number", "ndarray", "array-same"):
                yield lambda A=A, kv=kv, form=form, rhs=rhs: case_setitem(prog, A, kv, rhs, "letter", None, taint_mode, list_as=form)
        yield lambda A=A, kv=kv: case_setitem(prog, A, kv, "array-same", "letter", None, taint_mode)
    for A in [("a",), ("b", "a")]:
        yield lambda A=A: case_write_unknown_in_list(prog, A, taint_mode)
    # a "subset" Dimension holding ALL items in the original order (a mere renaming): still a read that yields an independent array
    for A in [("a",), ("a", "b"), ("b", "a", "c")]:
        for i, l in enumerate(A):
            kv = tuple("subset" if j == i else "absent" for j in range(len(A)))
            yield lambda A=A, kv=kv, l=l: case_getitem(prog, A, kv, "letter", {l: "all"}, "concrete")
            yield lambda A=A, kv=kv, l=l: case_setitem(prog, A, kv, "array-same", "letter", {l: "all"}, "concrete")
    for A in [("a",), ("a", "b"), ("b", "a", "c")]:
        for kv in itertools.product(("absent", "single", "subset"), repeat=len(A)):
            if all(k == "absent" for k in kv):
                continue
            yield lambda A=A, kv=kv: case_getitem_after_copy(prog, A, kv, "letter", taint_mode)
        for how in ("slice", "slice-in-tuple", "unknown-item", "unknown-item-in-dict", "unknown-dim-in-dict", "ambiguous-item",
                    "non-subset-dimension", "subset-dimension-of-other-dim"):
            if how == "ambiguous-item" and len(A) < 2:
                continue
            yield lambda A=A, how=how: case_errors_getitem(prog, A, how, taint_mode)
        for r in range(1, len(A) + 1):
            for which in itertools.permutations(A, r):
                yield lambda A=A, which=which: case_tuple_key(prog, A, which, taint_mode)
        for l in A:
            yield lambda A=A, l=l: case_tuple_key_set(prog, A, l, taint_mode)
            for other in A:
                if other != l:
                    yield lambda A=A, l=l, other=other: case_tuple_key_interleaved(prog, A, l, other, taint_mode)
            yield lambda A=A, l=l: case_split(prog, A, l, taint_mode)
        yield lambda A=A: case_stack(prog, A, taint_mode=taint_mode)
        if len(A) >= 2:
            yield lambda A=A: case_stack(prog, A, taint_mode=taint_mode, mixed_orders=True)


def illformed_cases(prog, taint_mode="abort"):
    # an array WITHOUT dimensions holds one number: an ndarray with axes is not of its shape
    for via in ("set_values", "__setitem__"):
        yield lambda via=via: case_whole_ndarray_wrong_shape(prog, (), "extra-axis", via, taint_mode)
    for cls in ("FlodymArray", "Parameter"):
        yield lambda cls=cls: case_ctor_wrong_shape(prog, (), "extra-axis", cls, taint_mode)
    for A in [("a",), ("a", "b"), ("b", "a", "c")]:
        for how in ("transposed", "missing-axis", "extra-axis", "other-length", "flodym-array"):
            if how == "transposed" and len(A) < 2:
                continue
            for via in ("set_values", "__setitem__"):
                yield lambda A=A, how=how, via=via: case_whole_ndarray_wrong_shape(prog, A, how, via, taint_mode)
        for cls in ("FlodymArray", "StockArray", "Parameter"):
            for how in ("transposed", "missing-axis", "other-length", "number"):
                if how == "transposed" and len(A) < 2:
                    continue
                yield lambda A=A, how=how, cls=cls: case_ctor_wrong_shape(prog, A, how, cls, taint_mode)
    # a dimension with a single item still has its axis: values given without it are not of the array's shape
    for A in [("s", "a"), ("a", "s"), ("s", "b", "a")]:
        for via in ("set_values", "__setitem__"):
            yield lambda A=A, via=via: case_whole_ndarray_wrong_shape(prog, A, "squeezed", via, taint_mode)
        for cls in ("FlodymArray", "Parameter"):
            yield lambda A=A, cls=cls: case_ctor_wrong_shape(prog, A, "squeezed", cls, taint_mode)
    for A in [("a",), ("b", "a")]:
        for cls in ("FlodymArray", "StockArray", "Parameter"):
            for via in ("constructor", "from_dims_superset"):
                yield lambda A=A, cls=cls, via=via: case_ctor_repeated_dims(prog, A, via, cls, taint_mode)
    for A in [(), ("a",), ("b", "a")]:
        for cls in ("FlodymArray", "StockArray", "Parameter"):
            for values in ("none", "ndarray") + (("number",) if not A else ()):
                yield lambda A=A, cls=cls, values=values: case_ctor_ok(prog, A, cls, values, taint_mode)


# ====================================================================== producers (C15 / C13)
def case_producer(prog, which, A, taint_mode="abort"):
    w = World(prog, taint_mode)
    case = Case("producer", which, f"FlodymArray.{which}", {"op": which, "dims": list(A)})
    FA = w.FlodymArray
    it = w.it
    x = w.array("x", A)
    X = leaf_term("x", A, w)
    ds = w.dimset(A)
    inputs = [x, ds]
    snaps = w.snap(*inputs)
    k = SymScalar(("sym", "k"))
    if which == "copy":
        kind, r = run_guarded(lambda: it.call_method(x, "copy"))
        exp = X
    elif which == "full":
        kind, r = run_guarded(lambda: it.call(it.get_attr(FA, "full"), [ds, k], {}))
        exp = ("sym", "k")
    elif which == "full_like":
        kind, r = run_guarded(lambda: it.call(it.get_attr(FA, "full_like"), [x, k], {}))
        exp = ("sym", "k")
    elif which in ("full-ndarray", "full_like-ndarray"):
        # fill_value: an ndarray that already has the full shape (the values of another array): the result holds its entries, in memory of its own
        z = w.array("z", A)
        inputs.append(z)
        snaps = w.snap(*inputs)
        if which == "full-ndarray":
            kind, r = run_guarded(lambda: it.call(it.get_attr(FA, "full"), [ds, z.f["values"]], {}))
        else:
            kind, r = run_guarded(lambda: it.call(it.get_attr(FA, "full_like"), [x, z.f["values"]], {}))
        exp = leaf_term("z", A, w)
    elif which == "from_dims_superset":
        sup = w.dimset(tuple(A) + ("e",))
        inputs.append(sup)
        snaps = w.snap(*inputs)
        kind, r = run_guarded(lambda: it.call(it.get_attr(FA, "from_dims_superset"), [sup, tuple(A)], {}))
        exp = ("k", 0)
    elif which == "scalar":
        kind, r = run_guarded(lambda: it.call(it.get_attr(FA, "scalar"), [k], {}))
        judge_array(case, w, kind, r, (), [], ("sym", "k"))
        common_checks(case, w, inputs, snaps, kind, r, fresh=True)
        return finish(case, w)
    elif which == "apply":
        f = lambda a, **kw: NP.elementwise("userfunc", a)
        kind, r = run_guarded(lambda: it.call_method(x, "apply", f))
        exp = t_fn("userfunc", X)
    elif which == "apply-inplace":
        f = lambda a, **kw: NP.elementwise("userfunc", a)
        kind, r = run_guarded(lambda: it.call_method(x, "apply", f, inplace=True))
        ok = kind == "ok" and r is None
        case.v("result", ok, f"apply(inplace=True) ended with {kind}")
        if ok:
            judge_array(case, w, "ok", x, tuple(A), full_axes(w, A), t_fn("userfunc", X), what="receiver after apply(inplace=True)")
        common_checks(case, w, inputs, snaps, kind, r, inplace_target=x)
        return finish(case, w)
    elif which in ("abs-inplace", "sign-inplace"):
        nm = which.split("-")[0]
        kind, r = run_guarded(lambda: it.call_method(x, nm, inplace=True))
        ok = kind == "ok" and r is None
        case.v("result", ok, f"{nm}(inplace=True) ended with {kind}")
        if ok:
            judge_array(case, w, "ok", x, tuple(A), full_axes(w, A), t_fn(nm, X), what=f"receiver after {nm}(inplace=True)")
        common_checks(case, w, inputs, snaps, kind, r, inplace_target=x)
        return finish(case, w)
    else:
        raise AnalysisError(which)
    judge_array(case, w, kind, r, tuple(A), full_axes(w, A), exp)
    common_checks(case, w, inputs, snaps, kind, r, fresh=True)
    return finish(case, w)


def case_apply_history(prog, A, first, taint_mode="abort"):
    """an in-place abs/sign/apply on one array, then ordinary calls on another: state must not leak between calls"""
    w = World(prog, taint_mode)
    case = Case("producer", "apply", "FlodymArray.apply", {"op": f"y.{first}(inplace=True); x.sign(); x.abs()", "dims": list(A)})
    it = w.it
    x, y = w.array("x", A), w.array("y", A)
    X, Y = leaf_term("x", A, w), leaf_term("y", A, w)
    f = lambda a, **kw: NP.elementwise("userfunc", a)
    if first == "apply":
        kind, r = run_guarded(lambda: it.call_method(y, "apply", f, inplace=True))
        yexp = t_fn("userfunc", Y)
    else:
        kind, r = run_guarded(lambda: it.call_method(y, first, inplace=True))
        yexp = t_fn(first, Y)
    if kind != "ok":
        case.v("result", False, f"{first}(inplace=True) ended with {kind}")
        return finish(case, w)
    snaps = w.snap(x, y)
    kind, s = run_guarded(lambda: it.call_method(x, "sign"))
    judge_array(case, w, kind, s, tuple(A), full_axes(w, A), t_fn("sign", X), what="x.sign() after an in-place call on another array")
    kind2, a = run_guarded(lambda: it.call_method(x, "abs"))
    judge_array(case, w, kind2, a, tuple(A), full_axes(w, A), t_fn("abs", X), what="x.abs() after an in-place call on another array")
    if kind == "ok" and isinstance(s, Obj):
        judge_array(case, w, "ok", s, tuple(A), full_axes(w, A), t_fn("sign", X), what="the earlier result x.sign() after x.abs()")
    judge_array(case, w, "ok", y, tuple(A), full_axes(w, A), yexp, what="the array changed in place earlier")
    common_checks(case, w, [x, y], snaps, kind2, a, fresh=True)
    if kind == "ok" and kind2 == "ok" and isinstance(s, Obj) and isinstance(a, Obj):
        sb, ab = w.buffers(s), w.buffers(a)
        case.v("fresh", not (sb & ab), "two results of successive calls share memory")
    return finish(case, w)


def producer_cases(prog, alpha, taint_mode="abort"):
    for A in [(), ("a",), ("b", "a")]:
        for first in ("abs", "sign", "apply"):
            yield lambda A=A, first=first: case_apply_history(prog, A, first, taint_mode)
    for A in lists_over(alpha):
        if len(A) > 3:
            continue
        for which in ("copy", "full", "full_like", "from_dims_superset", "apply", "apply-inplace", "abs-inplace", "sign-inplace") + \
                (("full-ndarray", "full_like-ndarray") if A else ()):
            yield lambda which=which, A=A: case_producer(prog, which, A, taint_mode)
    yield lambda: case_producer(prog, "scalar", (), taint_mode)


# ====================================================================== lifetime-model parameters (C04 / C08)
LIFETIME_PRMS = {"FixedLifetime": ("mean",), "NormalLifetime": ("mean", "std"), "FoldedNormalLifetime": ("mean", "std"),
                 "LogNormalLifetime": ("mean", "std"), "WeibullLifetime": ("weibull_shape", "weibull_scale")}


def case_lifetime_param(prog, cls_name, A, P, via, kind_of="array", taint_mode="abort"):
    """a parameter handed to a lifetime model (constructor or set_prms) is applied per label"""
    w = World(prog, taint_mode)
    case = Case("lifetime-param", via, f"{cls_name}.{via}", {"op": f"{cls_name} parameter via {via}", "model_dims": list(A), "param_dims": list(P), "param": kind_of})
    names = LIFETIME_PRMS[cls_name]
    ds = w.dimset(A)
    prms, exp = {}, {}
    inputs = [ds]
    for nm in names:
        if kind_of == "array":
            arr = w.array("p_" + nm, P)
            prms[nm] = arr
            exp[nm] = leaf_term("p_" + nm, P, w)
            inputs.append(arr)
        else:
            prms[nm] = SymScalar(("sym", "k_" + nm))
            exp[nm] = ("sym", "k_" + nm)
    snaps = w.snap(*inputs)
    cls = prog.cls(cls_name)
    if via == "__init__":
        kind, m = run_guarded(lambda: w.it.construct(cls, [], dict(dims=ds, time_letter=A[0], **prms)))
    else:
        kind, m = run_guarded(lambda: w.it.construct(cls, [], dict(dims=ds, time_letter=A[0])))
        if kind == "ok":
            kind, r2 = run_guarded(lambda: w.it.call_method(m, "set_prms", **prms))
            if kind != "ok":
                m = r2
    if any(l not in A for l in P) and kind_of == "array":
        case.v("raises", kind == "raise", "a parameter over a dimension the model does not have was accepted")
    elif kind != "ok":
        case.canon = ("param", kind)
        case.v("result", False, f"ended with {kind}: {describe(m, w)}")
    else:
        ok, msgs, canon = True, [], []
        for nm in names:
            v = m.f.get(nm)
            if not isinstance(v, AArr) or tuple(v.axes) != tuple(full_axes(w, A)) or v.term != exp[nm]:
                ok = False
                msgs.append(f"parameter {nm} is stored as {describe(v, w)}; it must carry the model's dims {tuple(A)} with entry {NP.show(exp[nm])}")
            elif kind_of == "array" and v.buf is prms[nm].f["values"].buf:
                case.v("fresh", False, f"parameter {nm} of the model shares memory with the array it was built from")
            canon.append((nm, frozenset(v.axes) if isinstance(v, AArr) else None, getattr(v, "term", None)))
        case.canon = ("param", tuple(canon))
        case.v("result", ok, "; ".join(msgs))
    common_checks(case, w, inputs, snaps, kind if kind != "ok" else "ok", m if kind != "ok" else None)
    return finish(case, w)


def case_lifetime_param_other_items(prog, cls_name, A, how, via, taint_mode="abort"):
    """a parameter array over the model's letters whose LAST dimension has other items (one item only / one item more): refused"""
    w = World(prog, taint_mode)
    case = Case("lifetime-param", via, f"{cls_name}.{via}", {"op": f"{cls_name} parameter via {via}", "model_dims": list(A), "param_dims": list(A),
                                                            "param_last_dimension": how})
    names = LIFETIME_PRMS[cls_name]
    ds = w.dimset(A)
    last = A[-1]
    items = w.items(last)[:1] if how == "single-item" else w.items(last) + [last + "_extra"]
    own = {last: w.it.construct(w.Dimension, [], dict(name=last * 2, letter=last, items=ItemList(items)))}
    prms, inputs = {}, [ds]
    for nm in names:
        prms[nm] = w.array("p_" + nm, A, dimobjs=own)
        inputs.append(prms[nm])
    snaps = w.snap(*inputs)
    cls = prog.cls(cls_name)
    if via == "__init__":
        kind, m = run_guarded(lambda: w.it.construct(cls, [], dict(dims=ds, time_letter=A[0], **prms)))
    else:
        kind, m = run_guarded(lambda: w.it.construct(cls, [], dict(dims=ds, time_letter=A[0])))
        if kind == "ok":
            kind, m = run_guarded(lambda: w.it.call_method(m, "set_prms", **prms))
    case.v("raises", kind == "raise", f"a parameter whose dimension '{last}' has other items than the model's ({how}) was accepted"
                                      f"{' and broadcast over all items' if how == 'single-item' else ''}")
    common_checks(case, w, inputs, snaps, kind if kind != "ok" else "ok", m if kind != "ok" else None)
    return finish(case, w)


def lifetime_param_cases(prog, alpha, taint_mode="abort"):
    import itertools as _it
    others = [l for l in alpha if l != "t"]
    models = [("t",) + p for k in range(0, len(others) + 1) for p in _it.permutations(others, k)]
    for A in models:
        for cls_name in LIFETIME_PRMS:
            if cls_name not in prog.classes:
                continue
            for via in ("__init__", "set_prms"):
                yield lambda A=A, c=cls_name, via=via: case_lifetime_param(prog, c, A, (), via, "number", taint_mode)
                for P in lists_over(tuple(A)):
                    if cls_name != "FixedLifetime" and (len(P) not in (0, len(A)) and len(A) > 2):
                        continue
                    yield lambda A=A, c=cls_name, via=via, P=P: case_lifetime_param(prog, c, A, P, via, "array", taint_mode)
        yield lambda A=A: case_lifetime_param(prog, "FixedLifetime", A, ("e",), "set_prms", "array", taint_mode)
        for how in ("single-item", "extra-item"):
            for via in ("__init__", "set_prms"):
                yield lambda A=A, how=how, via=via: case_lifetime_param_other_items(prog, "NormalLifetime" if "NormalLifetime" in prog.classes else "FixedLifetime", A, how, via, taint_mode)


# ====================================================================== stock / lifetime-model validators (C13)
STOCK_CLASSES = ("SimpleFlowDrivenStock", "InflowDrivenDSM", "StockDrivenDSM")


def case_stock_ctor(prog, cls_name, A, which, how, taint_mode="abort"):
    """construct a stock over dims A with one component given over other dims"""
    w = World(prog, taint_mode)
    case = Case("stock-ctor", "__init__", f"{cls_name}.__init__", {"op": f"{cls_name}(...)", "dims": list(A), "component": which, "component_dims": how})
    SA = prog.cls("StockArray")
    ds = w.dimset(A)
    kw = dict(dims=ds, time_letter="t")
    dsm = cls_name != "SimpleFlowDrivenStock"
    if dsm:
        kw["lifetime_model"] = prog.cls("FixedLifetime")
    dimobjs = None
    if how == "same":
        L = tuple(A)
    elif how == "permuted":
        L = tuple(A[:1]) + tuple(reversed(A[1:])) if len(A) > 2 else tuple(reversed(A))
    elif how == "time-last":
        L = tuple(A[1:]) + tuple(A[:1])
    elif how == "other-letter":
        L = tuple(A[:-1]) + ("e",)
    elif how == "missing":
        L = tuple(A[:-1])
    elif how == "other-items":
        L = tuple(A)
        last = A[-1]
        dimobjs = {last: w.it.construct(w.Dimension, [], dict(name=last * 2, letter=last, items=ItemList(w.items(last) + [last + "_extra"])))}
    else:
        raise AnalysisError(how)
    inputs = [ds]
    if which in ("stock", "inflow", "outflow"):
        comp = w.array(which, L, cls=SA, dimobjs=dimobjs)
        kw[which] = comp
        inputs.append(comp)
    elif which == "lifetime_model":
        lm_ds = w.dimset(L, dimobjs)
        kind0, lm = run_guarded(lambda: w.it.construct(prog.cls("FixedLifetime"), [], dict(dims=lm_ds, time_letter="t")))
        if kind0 != "ok":
            return None
        kw["lifetime_model"] = lm
    elif which == "dims-time-not-first":
        ds2 = w.dimset(tuple(A[1:]) + tuple(A[:1]))
        kw["dims"] = ds2
        inputs = [ds2]
    snaps = w.snap(*inputs)
    kind, r = run_guarded(lambda: w.it.construct(prog.cls(cls_name), [], kw))
    should_raise = how != "same" or which == "dims-time-not-first"
    if should_raise:
        case.v("raises", kind == "raise", f"{cls_name} accepted a {which} whose dimensions are {how} relative to its own dims {tuple(A)}")
    else:
        ok = kind == "ok" and isinstance(r, Obj)
        msg = f"ended with {kind}: {describe(r, w)}"
        if ok:
            for nm in ("stock", "inflow", "outflow"):
                c = r.f.get(nm)
                bad = w.invariant(c) if isinstance(c, Obj) else f"{nm} is {c!r}"
                if bad is None and w.letters(c.f["dims"]) != tuple(A):
                    bad = f"{nm} is over {w.letters(c.f['dims'])}, the stock over {tuple(A)}"
                if bad:
                    ok, msg = False, bad
            if dsm:
                lmo = r.f.get("lifetime_model")
                if not isinstance(lmo, Obj) or w.letters(lmo.f["dims"]) != tuple(A):
                    ok, msg = False, "the lifetime model built for the stock is not over the stock's dims"
        case.v("result", ok, msg)
    common_checks(case, w, inputs, snaps, kind, r if kind != "ok" else None)
    return finish(case, w)


def case_to_stock_type(prog, A, override, taint_mode="abort"):
    """Stock.to_stock_type with keyword arguments: whatever it does with them (it may refuse a keyword that names an attribute the stock
    already has), the ORIGINAL stock keeps its own arrays, name and dims"""
    w = World(prog, taint_mode)
    case = Case("stock-ctor", "to_stock_type", "Stock.to_stock_type", {"op": "to_stock_type(SimpleFlowDrivenStock, **kwargs)", "dims": list(A), "kwargs": override})
    SA = prog.cls("StockArray")
    comps = {c: w.array(c, A, cls=SA) for c in ("stock", "inflow", "outflow")}
    kind0, st = run_guarded(lambda: w.it.construct(prog.cls("SimpleFlowDrivenStock"), [], dict(dims=w.dimset(A), time_letter="t", name="original", **comps)))
    if kind0 != "ok":
        return None
    other = w.array("other", A, cls=SA)
    kw = {"name": {"name": "converted"}, "inflow": {"inflow": other}, "none": {}}[override]
    before = {k: st.f.get(k) for k in ("stock", "inflow", "outflow", "name", "process")}
    snaps = w.snap(st.f["stock"], st.f["inflow"], st.f["outflow"], other)
    kind, r = run_guarded(lambda: w.it.call(w.it.get_attr(st, "to_stock_type"), [prog.cls("SimpleFlowDrivenStock")], dict(kw)))
    same = all(st.f.get(k) is v or st.f.get(k) == v for k, v in before.items())
    case.v("purity", same, f"to_stock_type({', '.join(kw) or 'no keywords'}) replaced attributes of the original stock "
                           f"({', '.join(k for k, v in before.items() if not (st.f.get(k) is v or st.f.get(k) == v))})")
    common_checks(case, w, [st.f["stock"], st.f["inflow"], st.f["outflow"], other], snaps, kind, r if kind != "ok" else None)
    return finish(case, w)


def stock_ctor_cases(prog, taint_mode="abort"):
    for A in [("t",), ("t", "a")]:
        for override in ("none", "name", "inflow"):
            yield lambda A=A, o=override: case_to_stock_type(prog, A, o, taint_mode)
    for cls_name in STOCK_CLASSES:
        if cls_name not in prog.classes:
            continue
        for A in [("t",), ("t", "a"), ("t", "a", "b")]:
            comps = ["stock", "inflow", "outflow"] + (["lifetime_model"] if cls_name != "SimpleFlowDrivenStock" else [])
            yield lambda c=cls_name, A=A: case_stock_ctor(prog, c, A, "none", "same", taint_mode)
            for which in comps:
                for how in ("same", "permuted", "time-last", "other-letter", "missing", "other-items"):
                    if how in ("permuted", "time-last") and len(A) < 2:
                        continue
                    if how == "permuted" and len(A) < 3:
                        continue
                    if how == "missing" and len(A) < 2:
                        continue
                    yield lambda c=cls_name, A=A, which=which, how=how: case_stock_ctor(prog, c, A, which, how, taint_mode)
            if len(A) > 1:
                yield lambda c=cls_name, A=A: case_stock_ctor(prog, c, A, "dims-time-not-first", "same", taint_mode)


# ====================================================================== driver
def run_cases(prog, rep, thunks, sink):
    """evaluate case thunks; sink(case) consumes verdicts; returns number of cases"""
    n = 0
    for th in thunks:
        try:
            c = th()
        except TaintAbort:
            raise
        if c is None:
            continue
        n += 1
        rep.evaluations += 1
        sink(c)
    return n
