"""Exact symbolic arithmetic for the bounded-grid abstract evaluation of the stock kernels.

Values are rational functions (quotients of multivariate polynomials with Fraction coefficients) over named
symbols; *function symbols* (a survival function of a named distribution applied to symbolic arguments, log,
sqrt, exp, an indicator of a comparison) are symbols whose name is the canonical text of their arguments, so two
applications to equal arguments are the same symbol.  SArr is a small dense n-d array of such values with the
NumPy operations the stock code uses.  Equality is exact (cross-multiplication); nothing is evaluated numerically
and no solver is involved.  Nothing here imports numpy.
"""
from __future__ import annotations

import itertools
from fractions import Fraction

from .npmodel import ModelAbort, NumpyRaise


class SymAbort(ModelAbort):
    pass


SIGNS: dict[str, str] = {}      # symbol -> 'pos' | 'neg' | 'nonneg' (absent: unknown sign)


def declare(sym: str, sign: str | None):
    if sign:
        SIGNS[sym] = sign
    return sym


# ----------------------------------------------------------------------------- polynomials
class Poly:
    __slots__ = ("t",)

    MAX_TERMS = 60000

    def __init__(self, terms=None):
        self.t = {m: c for m, c in (terms or {}).items() if c != 0}
        if len(self.t) > Poly.MAX_TERMS:
            raise SymAbort(f"expression size budget exceeded ({len(self.t)} terms): the symbolic evaluation of this tree explodes")

    @staticmethod
    def const(c):
        return Poly({(): Fraction(c)})

    @staticmethod
    def sym(name):
        return Poly({((name, 1),): Fraction(1)})

    def is_const(self):
        return all(m == () for m in self.t)

    def const_value(self):
        return self.t.get((), Fraction(0))

    def is_zero(self):
        return not self.t

    def is_monomial(self):
        return len(self.t) == 1

    def __add__(self, o):
        r = dict(self.t)
        for m, c in o.t.items():
            v = r.get(m, 0) + c
            if v:
                r[m] = v
            else:
                r.pop(m, None)
        return Poly(r)

    def __neg__(self):
        return Poly({m: -c for m, c in self.t.items()})

    def __sub__(self, o):
        return self + (-o)

    def __mul__(self, o):
        if len(self.t) > len(o.t):
            self, o = o, self
        if len(self.t) * len(o.t) > 20_000_000:
            raise SymAbort(f"expression size budget exceeded (product of {len(self.t)} x {len(o.t)} terms): the symbolic evaluation of this tree explodes")
        r = {}
        for m1, c1 in self.t.items():
            for m2, c2 in o.t.items():
                m = mono_mul(m1, m2)
                v = r.get(m, 0) + c1 * c2
                if v:
                    r[m] = v
                else:
                    r.pop(m, None)
        if len(r) > 200000:
            raise SymAbort("polynomial blow-up in the symbolic evaluation")
        return Poly(r)

    def __eq__(self, o):
        return isinstance(o, Poly) and self.t == o.t

    def __hash__(self):
        return hash(frozenset(self.t.items()))

    def symbols(self):
        s = set()
        for m in self.t:
            for n, _ in m:
                s.add(n)
        return s

    def degree_in(self, syms):
        d = 0
        for m in self.t:
            d = max(d, sum(p for n, p in m if n in syms))
        return d

    def key(self):
        return tuple(sorted(self.t.items()))

    def __repr__(self):
        if not self.t:
            return "0"
        out = []
        for m, c in sorted(self.t.items()):
            ms = "*".join(n if p == 1 else f"{n}^{p}" for n, p in m)
            if not ms:
                out.append(str(c))
            elif c == 1:
                out.append(ms)
            elif c == -1:
                out.append("-" + ms)
            else:
                out.append(f"{c}*{ms}")
        return " + ".join(out).replace("+ -", "- ")

    def sign(self):
        """'pos' | 'neg' | 'nonneg' | 'zero' | None from declared symbol signs"""
        if not self.t:
            return "zero"
        signs = set()
        for m, c in self.t.items():
            s = 1 if c > 0 else -1
            strict = True
            for n, p in m:
                sg = SIGNS.get(n)
                if sg == "pos":
                    pass
                elif sg == "neg":
                    if p % 2:
                        s = -s
                elif sg == "nonneg":
                    strict = False
                else:
                    if p % 2:
                        return None
                    strict = False
            signs.add((s, strict))
        if all(s > 0 for s, _ in signs):
            return "pos" if any(st for _, st in signs) and all(st for _, st in signs) or all(st for _, st in signs) else "nonneg"
        if all(s < 0 for s, _ in signs):
            return "neg" if all(st for _, st in signs) else "nonpos"
        return None


def mono_mul(a, b):
    if not a:
        return b
    if not b:
        return a
    d = dict(a)
    for n, p in b:
        d[n] = d.get(n, 0) + p
    return tuple(sorted(d.items()))


def mono_lcm(a, b):
    d = dict(a)
    for n, p in b:
        d[n] = max(d.get(n, 0), p)
    return tuple(sorted(d.items()))


def mono_div(a, b):
    """a / b for monomials, b | a"""
    d = dict(a)
    for n, p in b:
        q = d.get(n, 0) - p
        if q < 0:
            raise ValueError
        if q:
            d[n] = q
        else:
            d.pop(n)
    return tuple(sorted(d.items()))


ONEP = Poly.const(1)
ZEROP = Poly()


class Rat:
    """num / den, den != 0 ; den kept as a monomial (times a constant) whenever possible"""
    __slots__ = ("n", "d")

    def __init__(self, n, d=None):
        if not isinstance(n, Poly):
            n = Poly.const(n)
        d = ONEP if d is None else d
        if d.is_zero():
            raise NumpyRaise("ZeroDivisionError", "division by the exact zero in the symbolic evaluation")
        if d.is_monomial():
            (m, c), = d.t.items()
            if c != 1:
                n = Poly({k: v / c for k, v in n.t.items()})
                d = Poly({m: Fraction(1)})
            if m and n.t:
                # cancel the common monomial factor
                g = None
                for k in n.t:
                    g = dict(k) if g is None else {x: min(p, dict(k).get(x, 0)) for x, p in g.items()}
                    if not g:
                        break
                if g:
                    common = {x: min(p, dict(m).get(x, 0)) for x, p in g.items()}
                    common = tuple(sorted((x, p) for x, p in common.items() if p > 0))
                    if common:
                        n = Poly({mono_div(k, common): v for k, v in n.t.items()})
                        d = Poly({mono_div(m, common): Fraction(1)})
            if n.is_zero():
                d = ONEP
        self.n, self.d = n, d

    @staticmethod
    def sym(name, sign=None):
        declare(name, sign)
        return Rat(Poly.sym(name))

    def is_const(self):
        return self.n.is_const() and self.d.is_const()

    def const(self):
        return self.n.const_value() / self.d.const_value()

    def is_zero(self):
        return self.n.is_zero()

    def __add__(self, o):
        o = rat(o)
        if self.d == o.d:
            return Rat(self.n + o.n, self.d)
        if self.d.is_monomial() and o.d.is_monomial():
            (m1, _), = self.d.t.items()
            (m2, _), = o.d.t.items()
            l = mono_lcm(m1, m2)
            f1, f2 = Poly({mono_div(l, m1): Fraction(1)}), Poly({mono_div(l, m2): Fraction(1)})
            return Rat(self.n * f1 + o.n * f2, Poly({l: Fraction(1)}))
        return Rat(self.n * o.d + o.n * self.d, self.d * o.d)

    __radd__ = __add__

    def __neg__(self):
        return Rat(-self.n, self.d)

    def __sub__(self, o):
        return self + (-rat(o))

    def __rsub__(self, o):
        return rat(o) + (-self)

    def __mul__(self, o):
        o = rat(o)
        return Rat(self.n * o.n, self.d * o.d)

    __rmul__ = __mul__

    def __truediv__(self, o):
        o = rat(o)
        if o.n.is_zero():
            raise NumpyRaise("ZeroDivisionError", "division by the exact zero in the symbolic evaluation")
        return Rat(self.n * o.d, self.d * o.n)

    def __rtruediv__(self, o):
        return rat(o) / self

    def __pow__(self, k):
        k = rat(k)
        if k.is_const() and k.const().denominator == 1 and 0 <= k.const() <= 6:
            r = Rat(1)
            for _ in range(int(k.const())):
                r = r * self
            return r
        return fsym("pow", self, k)

    def __eq__(self, o):
        if not isinstance(o, (Rat, int, float, Fraction)):
            return NotImplemented
        o = rat(o)
        return self.n * o.d == o.n * self.d

    def __hash__(self):
        if self.is_const():
            return hash(self.const())          # equal to a Python number -> same hash (as NumPy scalars), so sets and dict keys agree
        return hash(self.canon())

    def symbols(self):
        return self.n.symbols() | self.d.symbols()

    def sign(self):
        sn, sd = self.n.sign(), self.d.sign()
        if sn == "zero":
            return "zero"
        if sn is None or sd is None:
            return None
        neg = (sn in ("neg", "nonpos")) != (sd in ("neg", "nonpos"))
        strict = sn in ("pos", "neg") and sd in ("pos", "neg")
        return ("neg" if strict else "nonpos") if neg else ("pos" if strict else "nonneg")

    def canon(self):
        return f"({self.n!r})/({self.d!r})" if self.d != ONEP else repr(self.n)

    def __repr__(self):
        return self.canon()


INTEGER_SYMBOLS: set = set()      # symbols declared integer valued (entries of integer-dtype input arrays)
INFINITESIMAL = {"eps"}     # symbols standing for a perturbation below every tolerance ("close but different")


def is_small(r) -> bool:
    """zero, or every term carries an infinitesimal symbol (and the denominator none)"""
    r = rat(r)
    if r.n.is_zero():
        return True
    if r.d.symbols() & INFINITESIMAL:
        return False
    return all(any(n in INFINITESIMAL for n, _ in m) for m in r.n.t)


def _eps_groups(r):
    """numerator terms grouped by their total power of infinitesimal symbols, the infinitesimal symbols removed"""
    groups = {}
    for m, c in r.n.t.items():
        k = sum(p for n_, p in m if n_ in INFINITESIMAL)
        m2 = tuple((n_, p) for n_, p in m if n_ not in INFINITESIMAL)
        g = groups.setdefault(k, {})
        g[m2] = g.get(m2, 0) + c
    return groups


def eps_power(k):
    r = Rat(1)
    for _ in range(int(k)):
        r = r * Rat.sym("eps", "pos")
    return r


def eps_factor(r):
    """r = eps^k * rest with rest free of infinitesimals -> (k, rest); None when the terms are of different order, several
    infinitesimal symbols are involved or the denominator carries one"""
    r = rat(r)
    if r.d.symbols() & INFINITESIMAL or (r.symbols() & INFINITESIMAL) - {"eps"}:
        return None
    if r.n.is_zero():
        return (0, r)
    groups = _eps_groups(r)
    if len(groups) != 1:
        return None
    (k, terms), = groups.items()
    return (k, Rat(Poly(terms), r.d))


def eps_lowest(r):
    """the lowest-order part of r (infinitesimals removed); None when the denominator carries an infinitesimal"""
    r = rat(r)
    if r.d.symbols() & INFINITESIMAL or r.n.is_zero():
        return None
    groups = _eps_groups(r)
    return Rat(Poly(groups[min(groups)]), r.d)


def rat(v):
    if isinstance(v, Rat):
        return v
    if isinstance(v, SArr) and v.shape == ():
        return rat(v.data[0])          # a NumPy scalar (0-d array) used as a number
    if isinstance(v, bool):
        return Rat(int(v))
    if isinstance(v, int):
        return Rat(Poly.const(int(v)))
    if isinstance(v, float):
        return Rat(Poly.const(Fraction(v).limit_denominator(10 ** 12)))
    if isinstance(v, Fraction):
        return Rat(Poly.const(v))
    raise SymAbort(f"{type(v).__name__} used as a number in the symbolic evaluation")


def fsym(name, *args, sign=None):
    """application of an uninterpreted function to symbolic arguments = a symbol named by its canonical text"""
    args = [rat(a) for a in args]
    nm = f"{name}<{';'.join(a.canon() for a in args)}>"
    if sign is None:
        if name in ("exp", "sqrt"):
            sign = "pos" if name == "exp" or all(a.sign() == "pos" for a in args) else "nonneg"
        elif name.startswith("sf_") or name.startswith("ind_"):
            sign = "nonneg"
        elif name in ("min", "max") and all(a.sign() in ("pos",) for a in args):
            sign = "pos"
        elif name in ("min", "max") and all(a.sign() in ("pos", "nonneg", "zero") for a in args):
            sign = "nonneg"
        elif name in ("min",) and any(a.sign() in ("neg",) for a in args):
            sign = "neg"
        elif name == "abs":
            sign = "nonneg"
    return Rat.sym(nm, sign)


# ----------------------------------------------------------------------------- arrays
def _prod(t):
    r = 1
    for x in t:
        r *= x
    return r


def _strides(shape):
    st, acc = [], 1
    for s in reversed(shape):
        st.append(acc)
        acc *= s
    return tuple(reversed(st))


class SArr:
    """dense n-d array of Rat; a basic-index result is a *view*: it reads and writes its base's memory"""
    __slots__ = ("shape", "_own", "_view", "base", "dtype")

    def __init__(self, shape, data, base=None, dtype="float", view=None):
        self.shape = tuple(int(s) for s in shape)
        self._view = view           # (base array, flat positions in it) for views
        self._own = None if view is not None else data
        n = len(view[1]) if view is not None else len(data)
        if n != _prod(self.shape):
            raise SymAbort(f"internal: data of length {n} for shape {self.shape}")
        self.base = base if base is not None else self     # identity of the memory (views share it)
        self.dtype = dtype

    @property
    def data(self):
        if self._view is not None:
            b, pos = self._view
            d = b.data
            return [d[p] for p in pos]
        return self._own

    def _store(self, p, x):
        if self._view is not None:
            b, pos = self._view
            b._store(pos[p], x)
        else:
            self._own[p] = x

    # ---- construction
    @staticmethod
    def full(shape, v):
        shape = tuple(int(s) for s in (shape if isinstance(shape, (tuple, list)) else (shape,)))
        v = rat(v)
        return SArr(shape, [v] * _prod(shape))

    @staticmethod
    def from_nested(x):
        if isinstance(x, SArr):
            return x.copy()
        if isinstance(x, (list, tuple)):
            subs = [SArr.from_nested(e) for e in x]
            if not subs:
                return SArr((0,), [])
            sh = subs[0].shape
            if any(s.shape != sh for s in subs):
                raise NumpyRaise("ValueError", "inhomogeneous array")
            data = []
            for s in subs:
                data.extend(s.data)
            if any(isinstance(x, str) for x in data) and any(isinstance(x, Rat) for x in data) and all(isinstance(x, str) or (isinstance(x, Rat) and x.is_const()) for x in data):
                # NumPy's common type of numbers and strings is a string type: the numbers are written out
                def text(x):
                    if isinstance(x, str):
                        return x
                    c = x.const()
                    return str(int(c)) if c.denominator == 1 and x.n.is_const() and not getattr(x, "_float", False) else repr(float(c))
                data = [text(x) for x in data]
            return SArr((len(subs),) + sh, data, dtype="object" if any(s.dtype == "object" for s in subs) or any(isinstance(x, str) for x in data) else "float")
        try:
            return SArr((), [rat(x)])
        except SymAbort:
            return SArr((), [x], dtype="object")       # a label (str) or another python object: object array

    @property
    def ndim(self):
        return len(self.shape)

    @property
    def size(self):
        return _prod(self.shape)

    def copy(self):
        return SArr(self.shape, list(self.data), dtype=self.dtype)

    def item(self):
        if self.size != 1:
            raise NumpyRaise("ValueError", "can only convert an array of size 1 to a scalar")
        return self.data[0]

    def indices(self):
        return itertools.product(*[range(s) for s in self.shape])

    def get(self, idx):
        st = _strides(self.shape)
        return self.data[sum(i * s for i, s in zip(idx, st))]

    def set(self, idx, v):
        st = _strides(self.shape)
        self._store(sum(i * s for i, s in zip(idx, st)), rat(v))

    def __repr__(self):
        return f"SArr{self.shape}"

    # ---- index plumbing: every index expression is turned into a gather map (result shape, source flat positions)
    def _plan(self, key):
        if not isinstance(key, tuple):
            key = (key,)
        key = list(key)
        n_real = sum(1 for k in key if k is not None and k is not Ellipsis)
        if sum(1 for k in key if k is Ellipsis) > 1:
            raise NumpyRaise("IndexError", "an index can only have a single ellipsis")
        if Ellipsis in key:
            i = key.index(Ellipsis)
            key[i:i + 1] = [slice(None)] * (self.ndim - n_real)
        else:
            key += [slice(None)] * (self.ndim - n_real)
        if sum(1 for k in key if k is not None) > self.ndim:
            raise NumpyRaise("IndexError", f"too many indices for array: array is {self.ndim}-dimensional")
        per, ax = [], 0
        for k in key:
            if k is None:
                per.append(("new", None))
                continue
            n = self.shape[ax]
            if isinstance(k, slice):
                per.append(("slice", list(range(*slice(*[None if v is None else int(v) for v in (k.start, k.stop, k.step)]).indices(n)))))
            elif isinstance(k, SArr):
                vals = []
                for e in k.data:
                    if not isinstance(e, Rat) or not e.is_const():
                        raise NumpyRaise("IndexError", f"a data value ({e!r}) is used as an array position: positions must come from labels")
                    vals.append(int(e.const()))
                per.append(("arr", (k.shape, [self._chk(v, n) for v in vals])))
            elif isinstance(k, (list, tuple)):
                per.append(("arr", ((len(k),), [self._chk(self._as_pos(v), n) for v in k])))
            elif isinstance(k, bool):
                raise SymAbort("boolean index")
            else:
                per.append(("int", self._chk(self._as_pos(k), n)))
            ax += 1
        return per

    @staticmethod
    def _as_pos(v):
        """a position given as Python int, as an exact constant, or as a NumPy integer scalar (0-d array of the exact domain)"""
        if isinstance(v, SArr):
            if v.size != 1:
                raise NumpyRaise("TypeError", "only integer scalar arrays can be converted to a scalar index")
            v = v.data[0]
        if isinstance(v, Rat):
            if not v.is_const() or v.const().denominator != 1:
                raise NumpyRaise("IndexError", f"a data value ({v!r}) is used as an array position: positions must come from labels")
            return int(v.const())
        return int(v)

    @staticmethod
    def _chk(v, n):
        if v < -n or v >= n:
            raise NumpyRaise("IndexError", f"index {v} is out of bounds for axis with size {n}")
        return v % n if n else v

    def _gather(self, key):
        """-> (result shape, list of flat source positions, is_basic)"""
        per = self._plan(key)
        st = _strides(self.shape)
        adv = [i for i, (k, _) in enumerate(per) if k == "arr"]
        ints_adv = [i for i, (k, _) in enumerate(per) if k in ("arr", "int")]
        if not adv:
            shape, axes = [], []      # axes: list of (list of offsets)
            base = 0
            ax = 0
            for kind, pay in per:
                if kind == "new":
                    shape.append(1)
                    axes.append([0])
                elif kind == "slice":
                    shape.append(len(pay))
                    axes.append([p * st[ax] for p in pay])
                    ax += 1
                else:
                    base += pay * st[ax]
                    ax += 1
            pos = [base + sum(c) for c in itertools.product(*axes)] if axes else [base]
            return tuple(shape), pos, True
        # advanced indexing: broadcast index arrays (ints are 0-d)
        bshape = ()
        for i in adv:
            bshape = _bshape(bshape, per[i][1][0])
        nb = _prod(bshape)
        # per broadcast position offsets
        boffs = [0] * nb
        ax = 0
        for i, (kind, pay) in enumerate(per):
            if kind == "new":
                continue
            if kind == "arr":
                shp, vals = pay
                for j, bi in enumerate(itertools.product(*[range(s) for s in bshape])):
                    src = _bcast_index(bi, bshape, shp)
                    boffs[j] += vals[src] * st[ax]
            elif kind == "int":
                for j in range(nb):
                    boffs[j] += pay * st[ax]
            if kind != "new":
                ax += 1
        slices = []
        ax = 0
        for i, (kind, pay) in enumerate(per):
            if kind == "new":
                slices.append((i, 1, [0]))
            elif kind == "slice":
                slices.append((i, len(pay), [p * st[ax] for p in pay]))
            if kind != "new":
                ax += 1
        adjacent = all(per[i][0] in ("arr", "int") for i in range(ints_adv[0], ints_adv[-1] + 1))
        if adjacent:
            before = [s for s in slices if s[0] < ints_adv[0]]
            after = [s for s in slices if s[0] > ints_adv[0]]
        else:
            before, after = [], slices
        shape = tuple(s[1] for s in before) + tuple(bshape) + tuple(s[1] for s in after)
        pos = []
        for cb in itertools.product(*[s[2] for s in before]) if before else [()]:
            for bo in boffs:
                for ca in itertools.product(*[s[2] for s in after]) if after else [()]:
                    pos.append(sum(cb) + bo + sum(ca))
        return shape, pos, False

    def __getitem__(self, key):
        shape, pos, basic = self._gather(key)
        if basic:
            return SArr(shape, None, base=self.base, dtype=self.dtype, view=(self, pos))
        d = self.data
        return SArr(shape, [d[p] for p in pos], dtype=self.dtype)

    def setitem(self, key, value):
        shape, pos, basic = self._gather(key)
        if isinstance(value, SArr):
            vals = list(value.broadcast_to(shape).data)
        else:
            vals = [rat(value)] * len(pos)
        if self.dtype == "int":
            # NumPy casts on assignment: a real value stored into an integer array is truncated
            vals = [x if (isinstance(x, Rat) and ((x.is_const() and x.const().denominator == 1) or (x.d == ONEP and x.n.is_monomial() and x.symbols() <= INTEGER_SYMBOLS
                    and all(c.denominator == 1 for c in x.n.t.values())))) else fsym("trunc", x) for x in vals]
        for p, x in zip(pos, vals):
            self._store(p, x)

    def broadcast_to(self, shape):
        shape = tuple(shape)
        if self.shape == shape:
            return self
        if len(self.shape) > len(shape):
            raise NumpyRaise("ValueError", f"could not broadcast input array from shape {self.shape} into shape {shape}")
        out = []
        for idx in itertools.product(*[range(s) for s in shape]):
            out.append(self.data[_flat(_bcast_index_multi(idx, shape, self.shape), self.shape)])
        return SArr(shape, out)



def _flat(idx, shape):
    st = _strides(shape)
    return sum(i * s for i, s in zip(idx, st))


def _bshape(a, b):
    n = max(len(a), len(b))
    a2 = (1,) * (n - len(a)) + tuple(a)
    b2 = (1,) * (n - len(b)) + tuple(b)
    out = []
    for x, y in zip(a2, b2):
        if x == y or y == 1:
            out.append(x)
        elif x == 1:
            out.append(y)
        else:
            raise NumpyRaise("ValueError", f"operands could not be broadcast together with shapes {tuple(a)} {tuple(b)}")
    return tuple(out)


def _bcast_index_multi(idx, bshape, shp):
    off = len(bshape) - len(shp)
    if off < 0:
        raise NumpyRaise("ValueError", "broadcast")
    out = []
    for k, s in enumerate(shp):
        i = idx[off + k]
        if s == 1:
            out.append(0)
        elif s == bshape[off + k]:
            out.append(i)
        else:
            raise NumpyRaise("ValueError", f"could not broadcast shape {shp} to {bshape}")
    return tuple(out)


def _bcast_index(bi, bshape, shp):
    return _flat(_bcast_index_multi(bi, bshape, shp), shp)


def asarr(v):
    if isinstance(v, SArr):
        return v
    if isinstance(v, (list, tuple)):
        return SArr.from_nested(v)
    return SArr((), [rat(v)])


def elementwise(f, *args):
    arrs = [asarr(a) for a in args]
    shape = ()
    for a in arrs:
        shape = _bshape(shape, a.shape)
    bs = [a.broadcast_to(shape) if a.shape != shape else a for a in arrs]
    return SArr(shape, [f(*vals) for vals in zip(*[b.data for b in bs])])


def reduce_sum(a: SArr, axis=None, keepdims=False):
    if axis is None:
        t = Rat(0)
        for x in a.data:
            t = t + x
        return SArr((), [t])
    axes = sorted({ax % a.ndim if a.ndim else 0 for ax in (axis if isinstance(axis, (tuple, list)) else [axis])})
    for ax in (axis if isinstance(axis, (tuple, list)) else [axis]):
        if int(ax) < -a.ndim or int(ax) >= a.ndim:
            raise NumpyRaise("AxisError", f"axis {ax} is out of bounds for array of dimension {a.ndim}")
    keep = [i for i in range(a.ndim) if i not in axes]
    oshape = tuple(a.shape[i] for i in keep)
    out = {}
    for idx in a.indices():
        k = tuple(idx[i] for i in keep)
        v = a.data[_flat(idx, a.shape)]
        out[k] = out[k] + v if k in out else v
    data = [out.get(k, Rat(0)) for k in itertools.product(*[range(s) for s in oshape])]
    return SArr(oshape, data)


def cumsum(a: SArr, axis):
    if axis is None:
        raise SymAbort("cumsum of the flattened array")
    ax = int(axis) % a.ndim
    out = list(a.data)
    st = _strides(a.shape)
    for idx in a.indices():
        if idx[ax] > 0:
            p = _flat(idx, a.shape)
            out[p] = out[p - st[ax]] + a.data[p]
    return SArr(a.shape, out)


def diff(a: SArr, axis=-1, prepend=None):
    ax = int(axis) % a.ndim
    if prepend is not None:
        pshape = list(a.shape)
        pshape[ax] = 1
        p = asarr(prepend).broadcast_to(tuple(pshape)) if not isinstance(prepend, SArr) or asarr(prepend).ndim < a.ndim else asarr(prepend)
        a = concatenate([p, a], ax)
    n = a.shape[ax]
    if n == 0:
        return a
    hi = a[tuple([slice(None)] * ax + [slice(1, None)])]
    lo = a[tuple([slice(None)] * ax + [slice(None, n - 1)])]
    return elementwise(lambda x, y: x - y, hi, lo)


def concatenate(arrs, axis=0):
    arrs = [asarr(x) for x in arrs]
    arrs = [x if x.ndim else SArr((1,), x.data) for x in arrs]
    ax = int(axis) % arrs[0].ndim
    oshape = list(arrs[0].shape)
    for x in arrs[1:]:
        if x.ndim != arrs[0].ndim or any(x.shape[i] != oshape[i] for i in range(x.ndim) if i != ax):
            raise NumpyRaise("ValueError", "all the input array dimensions except for the concatenation axis must match exactly")
    oshape[ax] = sum(x.shape[ax] for x in arrs)
    out = SArr.full(tuple(oshape), 0)
    off = 0
    for x in arrs:
        key = tuple([slice(None)] * ax + [slice(off, off + x.shape[ax])])
        out.setitem(key, x)
        off += x.shape[ax]
    return out


def mem_positions(a: SArr):
    """where each element (in row-major order of the logical index) lies in the underlying buffer"""
    if a._view is None:
        return list(range(a.size))
    parent, pos = a._view
    pp = mem_positions(parent)
    return [pp[p] for p in pos]


def strided_view_possible(pos, shape) -> bool:
    """can the elements (given by their memory positions in row-major order of the NEW shape) be addressed as base + sum(index * stride)?"""
    n = len(pos)
    if n <= 1:
        return True
    st = _strides(shape)
    strides = []
    for k, s in enumerate(shape):
        strides.append(pos[st[k]] - pos[0] if s > 1 else 0)
    for flat, idx in enumerate(itertools.product(*[range(s) for s in shape])):
        if pos[flat] != pos[0] + sum(i * d for i, d in zip(idx, strides)):
            return False
    return True


def k_order_axes(a: SArr):
    """axis order of NumPy's order='K': axes by decreasing |stride| (ties: as they are); each axis keeps its own direction.
    A length-1 axis has no stride of its own: it stays in front of the axes that follow it."""
    pos = mem_positions(a)
    st = _strides(a.shape)
    stride = [abs(pos[st[k]] - pos[0]) if a.shape[k] > 1 else None for k in range(a.ndim)]
    for k in range(a.ndim - 1, -1, -1):
        if stride[k] is None:
            stride[k] = max([x for x in stride[k + 1:] if x is not None] or [0])
    return sorted(range(a.ndim), key=lambda k: (-stride[k], k))


def keep_layout(like: SArr, new: SArr) -> SArr:
    """order='K' of np.*_like / np.copy: the new array gets the axis order in memory that `like` has"""
    if like.ndim < 2 or like.size <= 1 or like.shape != new.shape:
        return new
    pos = mem_positions(like)
    if len(set(pos)) != len(pos):
        return new              # broadcast views: NumPy falls back to C order
    perm = k_order_axes(like)      # slowest axis first
    if perm == list(range(like.ndim)):
        return new
    base = transpose(new, perm).copy()
    inv = [perm.index(k) for k in range(like.ndim)]
    r = transpose(base, inv)
    r.dtype = new.dtype
    return r


def f_layout(a: SArr) -> SArr:
    """the same logical array stored in column-major (Fortran) memory order: a non-contiguous view, as einsum / transpose produce"""
    if a.ndim < 2:
        return a
    t = transpose(a).copy()
    t.dtype = a.dtype
    r = transpose(t)
    r.dtype = a.dtype
    return r


def transpose(a: SArr, perm=None):
    perm = list(reversed(range(a.ndim))) if perm is None else [int(p) % a.ndim for p in perm]
    if sorted(perm) != list(range(a.ndim)):
        raise NumpyRaise("ValueError", "axes don't match array")
    oshape = tuple(a.shape[p] for p in perm)
    data = []
    for idx in itertools.product(*[range(s) for s in oshape]):
        src = [0] * a.ndim
        for k, p in enumerate(perm):
            src[p] = idx[k]
        data.append(_flat(src, a.shape))
    return SArr(oshape, None, base=a.base, view=(a, data))


def moveaxis(a: SArr, src, dst):
    srcs = [int(x) % a.ndim for x in (src if isinstance(src, (tuple, list)) else [src])]
    dsts = [int(x) % a.ndim for x in (dst if isinstance(dst, (tuple, list)) else [dst])]
    if len(srcs) != len(dsts) or len(set(srcs)) != len(srcs) or len(set(dsts)) != len(dsts):
        raise NumpyRaise("ValueError", "`source` and `destination` arguments must have the same number of distinct elements")
    order = [i for i in range(a.ndim) if i not in srcs]
    for d, s in sorted(zip(dsts, srcs)):
        order.insert(d, s)
    return transpose(a, order)


def diagonal(a: SArr, offset=0, axis1=0, axis2=1):
    if offset != 0:
        raise SymAbort("diagonal with offset")
    a1, a2 = int(axis1) % a.ndim, int(axis2) % a.ndim
    n = min(a.shape[a1], a.shape[a2])
    rest = [i for i in range(a.ndim) if i not in (a1, a2)]
    oshape = tuple(a.shape[i] for i in rest) + (n,)
    data = []
    for idx in itertools.product(*[range(s) for s in oshape]):
        src = [0] * a.ndim
        for k, i in enumerate(rest):
            src[i] = idx[k]
        src[a1] = src[a2] = idx[-1]
        data.append(_flat(src, a.shape))
    return SArr(oshape, None, base=a.base, view=(a, data))


def tile(a, reps):
    a = asarr(a)
    reps = [int(r) for r in (reps if isinstance(reps, (tuple, list)) else (reps,))]
    nd = max(a.ndim, len(reps))
    shape = (1,) * (nd - a.ndim) + a.shape
    reps = [1] * (nd - len(reps)) + reps
    oshape = tuple(s * r for s, r in zip(shape, reps))
    data = []
    for idx in itertools.product(*[range(s) for s in oshape]):
        data.append(a.data[_flat([i % s for i, s in zip(idx, shape)], shape)])
    return SArr(oshape, data)


def parse_subs(s):
    out, i = [], 0
    while i < len(s):
        if s.startswith("...", i):
            out.append("...")
            i += 3
        elif s[i] == " ":
            i += 1
        else:
            out.append(s[i])
            i += 1
    return out


def einsum(spec, *ops):
    ops = [asarr(o) for o in ops]
    if "->" in spec:
        ins, out = spec.split("->")
        out = parse_subs(out)
    else:
        ins, out = spec, None
    ins = [parse_subs(x) for x in ins.split(",")]
    if len(ins) != len(ops):
        raise NumpyRaise("ValueError", "einsum: operands do not match the subscripts")
    sizes, ell_shape = {}, None
    named_ops = []
    for sub, op in zip(ins, ops):
        if "..." in sub:
            k = sub.index("...")
            n_named = len(sub) - 1
            if op.ndim < n_named:
                raise NumpyRaise("ValueError", "einsum: operand has too few dimensions")
            n_ell = op.ndim - n_named
            ell = op.shape[k:k + n_ell]
            ell_shape = tuple(ell) if ell_shape is None else _bshape(ell_shape, ell)
            letters = sub[:k] + [("…", j, n_ell) for j in range(n_ell)] + sub[k + 1:]
        else:
            if len(sub) != op.ndim:
                raise NumpyRaise("ValueError", f"einsum: operand with {op.ndim} dimensions given {len(sub)} subscripts")
            letters = list(sub)
        for l, s in zip(letters, op.shape):
            if isinstance(l, tuple):
                continue
            if sizes.get(l, s) != s:
                if s == 1 or sizes[l] == 1:
                    sizes[l] = max(s, sizes[l])
                else:
                    raise NumpyRaise("ValueError", f"einsum: size mismatch for subscript '{l}': {sizes[l]} vs {s}")
            else:
                sizes[l] = s
        named_ops.append(letters)
    n_ell_out = len(ell_shape) if ell_shape is not None else 0
    if out is None:
        cnt = {}
        for letters in named_ops:
            for l in letters:
                if not isinstance(l, tuple):
                    cnt[l] = cnt.get(l, 0) + 1
        out = (["..."] if ell_shape is not None else []) + sorted(l for l, c in cnt.items() if c == 1)
    out_letters = []
    for l in out:
        if l == "...":
            out_letters += [("E", j) for j in range(n_ell_out)]
        else:
            if l not in sizes:
                raise NumpyRaise("ValueError", f"einsum: output subscript '{l}' not in inputs")
            out_letters.append(l)
    summed = [l for l in sizes if l not in out]
    if len(ops) == 1 and not summed and ell_shape is None and sorted(out_letters) == sorted(named_ops[0]) and len(set(out_letters)) == len(out_letters):
        # a one-operand einsum that only reorders axes returns a (non-contiguous) view, like np.transpose
        return transpose(ops[0], [named_ops[0].index(l) for l in out_letters])
    oshape = tuple((ell_shape[l[1]] if isinstance(l, tuple) else sizes[l]) for l in out_letters)
    data = []
    sum_ranges = [range(sizes[l]) for l in summed]
    for oidx in itertools.product(*[range(s) for s in oshape]):
        env = {}
        for l, i in zip(out_letters, oidx):
            env[l] = i
        tot = Rat(0)
        for sidx in itertools.product(*sum_ranges):
            for l, i in zip(summed, sidx):
                env[l] = i
            term = None
            for letters, op in zip(named_ops, ops):
                idx = []
                for ax, l in enumerate(letters):
                    if isinstance(l, tuple):
                        _, j, n_ell = l
                        e = env[("E", n_ell_out - n_ell + j)]
                        idx.append(0 if op.shape[ax] == 1 else e)
                    else:
                        idx.append(0 if op.shape[ax] == 1 and sizes[l] != 1 else env[l])
                v = op.data[_flat(idx, op.shape)]
                term = v if term is None else term * v
            tot = tot + term
        data.append(tot)
    return SArr(oshape, data)


def solve_triangular(a, b, lower=False, **kw):
    a, b = asarr(a), asarr(b)
    if a.ndim != 2 or a.shape[0] != a.shape[1]:
        raise NumpyRaise("ValueError", "expected square matrix")
    n = a.shape[0]
    if b.shape[0] != n:
        raise NumpyRaise("ValueError", f"shapes of a {a.shape} and b {b.shape} are incompatible")
    if kw.get("trans"):
        raise SymAbort("solve_triangular(trans=...)")
    unit = bool(kw.get("unit_diagonal"))          # the diagonal is TAKEN to be 1 (its entries are not read)
    cols = 1 if b.ndim == 1 else _prod(b.shape[1:])
    x = SArr.full(b.shape, 0)
    order = range(n) if lower else range(n - 1, -1, -1)
    for col in range(cols):
        sol = [None] * n
        for i in order:
            acc = b.data[i * cols + col]
            rng = range(0, i) if lower else range(i + 1, n)
            for j in rng:
                acc = acc - a.data[i * n + j] * sol[j]
            sol[i] = acc if unit else acc / a.data[i * n + i]
        for i in range(n):
            x._own[i * cols + col] = sol[i]
    return x
