"""Representatives for the enumerative evaluator: dimensions, dimension sets and arrays on the abstract heap."""
from __future__ import annotations

import itertools

from .core import AnalysisError, Program
from .interp import Interp, ItemList, Obj, PyRaise, run_guarded, AnalysisAbort
from . import npmodel as NP
from .npmodel import AArr, SymScalar

# pairwise distinct lengths for full dimensions and for the selections taken from them, so that no two
# axes that are not the same axis ever agree in length (a positional mix-up cannot hide behind a shape)
LENGTHS = {"a": 5, "b": 7, "c": 11, "d": 13, "e": 17, "t": 19, "s": 1}
SUBSET_POS = {"a": [4, 0], "b": [6, 0, 3], "c": [10, 0, 5, 2], "d": [12, 0, 7, 3, 9, 1], "e": [16, 0, 8, 4, 12, 2, 10, 6]}


UNIFORM_LENGTHS = {k: (3 if k != "s" else 1) for k in LENGTHS}
UNIFORM_SUBSET_POS = {k: [2, 0] for k in SUBSET_POS}
MODE = {"lengths": "distinct", "names": "distinct"}     # "uniform": all dimensions (and all selections) have the same length, so that a
#                                    shape comparison cannot tell two dimensions apart (silent-transposition class)


def in_length_mode(mode, thunk):
    """mode: 'uniform' (all lengths equal) and/or 'samenames' (all dimensions carry the SAME name - only their letters differ;
    the validators allow it), joined by '+'"""
    old = dict(MODE)
    parts = mode.split("+")
    MODE["lengths"] = "uniform" if "uniform" in parts else "distinct"
    MODE["names"] = "same" if "samenames" in parts else "distinct"
    try:
        c = thunk()
    finally:
        MODE.update(old)
    if c is not None and hasattr(c, "inp") and mode != "distinct":
        c.inp = dict(c.inp, lengths=mode)
    return c


def with_lengths(gen, mode):
    for th in gen:
        yield (lambda th=th: in_length_mode(mode, th))


def lists_over(alpha):
    """all duplicate-free ordered lists over an alphabet"""
    out = [()]
    for k in range(1, len(alpha) + 1):
        out += list(itertools.permutations(alpha, k))
    return out


class World:
    def __init__(self, prog: Program, taint_mode="abort"):
        self.prog = prog
        self.lengths = dict(UNIFORM_LENGTHS if MODE["lengths"] == "uniform" else LENGTHS)
        self.subset_pos = dict(UNIFORM_SUBSET_POS if MODE["lengths"] == "uniform" else SUBSET_POS)
        self.it = Interp(prog)
        self.it.taint_mode = taint_mode
        self.Dimension = prog.cls("Dimension")
        self.DimensionSet = prog.cls("DimensionSet")
        self.FlodymArray = prog.cls("FlodymArray")
        self._dims = {}
        self.same_names = MODE["names"] == "same"

    # ---- construction (through the analysed constructors and validators)
    def items(self, letter, n=None):
        if letter in getattr(self, "numeric_text_letters", ()):
            # labels that are TEXT but read like numbers (years kept as strings): "2020", "2021", ...
            return [str(2020 + j) for j in range(n if n is not None else self.lengths[letter])]
        return [f"{letter}{j}" for j in range(n if n is not None else self.lengths[letter])]

    def dim(self, letter, n=None, fresh=False):
        if letter in self._dims and not fresh and n is None:
            return self._dims[letter]
        d = self.it.construct(self.Dimension, [], dict(name="same name" if self.same_names else letter * 2, letter=letter, items=ItemList(self.items(letter, n))))
        if n is None and not fresh:
            self._dims[letter] = d
        return d

    def subdim(self, letter, positions=None, new_letter=None):
        base = self.items(letter)
        pos = positions if positions is not None else self.subset_pos[letter]
        return self.it.construct(self.Dimension, [], dict(name="sub" + letter, letter=new_letter or letter.upper(),
                                                          items=ItemList([base[p] for p in pos])))

    def dimset(self, letters, dims=None):
        return self.it.construct(self.DimensionSet, [], dict(dim_list=[(dims or {}).get(l) or self.dim(l) for l in letters]))

    def array(self, name, letters, cls=None, dimobjs=None, dtype="float", **extra):
        ds = self.dimset(letters, dimobjs)
        vals = NP.leaf(name, [tuple(d.f["items"]) for d in ds.f["dim_list"]])
        vals.dtype = dtype
        return self.it.construct(cls or self.FlodymArray, [], dict(dims=ds, values=vals, name=name, **extra))

    def user_ndarray(self, name, axes_items):
        return NP.leaf(name, axes_items, origin="user:" + name)

    # ---- observation
    @staticmethod
    def letters(ds: Obj):
        return tuple(d.f["letter"] for d in ds.f["dim_list"])

    @staticmethod
    def axes_of_dims(ds: Obj):
        return tuple(tuple(d.f["items"]) for d in ds.f["dim_list"])

    def invariant(self, arr: Obj):
        """C13: values is an ndarray whose axes are exactly the dims' item lists, letters pairwise distinct"""
        ds = arr.f.get("dims")
        v = arr.f.get("values")
        if not isinstance(ds, Obj) or ds.cls is not self.DimensionSet and self.DimensionSet not in self.prog.mro(ds.cls):
            return f"dims is {self.it.tname(ds)}"
        if not isinstance(v, AArr):
            return f"values is a {self.it.tname(v)}, not an ndarray"
        want = self.axes_of_dims(ds)
        if tuple(v.axes) != want:
            return (f"values axes {[list(a) if isinstance(a, tuple) else a for a in v.axes]} differ from the dims' items "
                    f"{[list(a) for a in want]} (letters {self.letters(ds)})")
        ls = self.letters(ds)
        if len(set(ls)) != len(ls):
            return f"duplicate dimension letters {ls}"
        return None

    def snap(self, *objs):
        """deep identity + content snapshot of arrays / dimension sets (for purity and atomicity)"""
        out = []
        for o in objs:
            out.append(self._snap1(o))
        return out

    def _snap1(self, o):
        if isinstance(o, Obj) and "dim_list" in o.f:
            dl = o.f["dim_list"]
            # the list OBJECT is not part of the snapshot: pydantic re-runs a model's after-validators when the instance is handed to a
            # model-typed field, and DimensionSet.copy_dim_list then swaps the list for an equal copy - the set itself is unchanged
            return ("ds", o, 0, tuple(id(d) for d in dl), tuple((d.f["letter"], tuple(d.f["items"])) for d in dl))
        if isinstance(o, Obj) and "values" in o.f and "dims" in o.f:
            v = o.f["values"]
            vs = (id(v), v.buf.bid, v.buf.writes, tuple(v.axes), v.term) if isinstance(v, AArr) else ("nonarray", repr(v))
            # the dims of an array by CONTENT (letters and items in order): pydantic re-runs FlodymArray.copy_dims when the array is handed
            # to a model-typed field (a stock's inflow=..., a system's flows=...), which swaps the dims object for an equal copy
            dl = o.f["dims"].f.get("dim_list", []) if isinstance(o.f["dims"], Obj) else []
            return ("arr", o, vs, ("ds", None, 0, 0, tuple((d.f["letter"], tuple(d.f["items"])) for d in dl)), 0, o.f.get("name"))
        if isinstance(o, AArr):
            return ("nd", o, (o.buf.bid, o.buf.writes, tuple(o.axes), o.term))
        if isinstance(o, Obj):
            return ("obj", o, tuple(sorted((k, id(v)) for k, v in o.f.items())))
        return ("val", o, repr(o))

    def changed(self, snaps):
        """-> list of descriptions of inputs that differ from their snapshot"""
        out = []
        for s in snaps:
            now = self._snap1(s[1])
            if now[2:] != s[2:]:
                out.append(self.describe_change(s, now))
        return out

    def describe_change(self, before, now):
        o = before[1]
        nm = o.f.get("name") if isinstance(o, Obj) else None
        if before[0] == "arr":
            what = []
            if before[2] != now[2]:
                what.append("values")
            if before[3][2:] != now[3][2:] or before[4] != now[4]:
                what.append("dims")
            return f"array '{nm}' changed ({', '.join(what) or 'attributes'})"
        if before[0] == "ds":
            return f"dimension set changed: {[x[0] for x in before[4]]} -> {[x[0] for x in now[4]]}"
        return f"{before[0]} changed"

    def buffers(self, o):
        if isinstance(o, Obj) and isinstance(o.f.get("values"), AArr):
            return {o.f["values"].buf.bid}
        if isinstance(o, AArr):
            return {o.buf.bid}
        return set()
