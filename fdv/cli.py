"""./check <ID> [--tier quick|thorough] [--replay witness.json]   (exit protocol: DESIGN.md §1.4)"""
from __future__ import annotations

import importlib
import json
import os
import pathlib
import sys
import time
import traceback

from .core import AnalysisError, Finding, Program, Report, SourceSet, VERIF, load_known_findings

PROPS = [f"C{i:02d}" for i in range(1, 21)]


def load_module(pid):
    return importlib.import_module(f"fdv.props.{pid.lower()}")


def run_property(pid: str, ss: SourceSet, tier: str, seed: int, audit: bool = False) -> Report:
    mod = load_module(pid)
    rep = Report(pid, tier, seed)
    rep.extra["digest"] = ss.digest()
    prog = Program(ss)
    mod.run(prog, rep)
    if not rep.findings:        # a floor guards against passing vacuously; with findings the run does not pass anyway
        rep.check_floors()
    return rep


def mutant_audit(pid, ss, rep, seed):
    """thorough tier: every mutation operator of this property must be reported by the rules (kill matrix)."""
    mod = load_module(pid)
    muts = getattr(mod, "MUTANTS", [])
    if not muts:
        return
    from .mutants import apply_mutant
    from concurrent.futures import ProcessPoolExecutor
    jobs = []
    for m in muts:
        try:
            path, text = apply_mutant(ss, m)
        except LookupError as e:
            jobs.append((m, None, str(e)))
            continue
        jobs.append((m, (path, text), None))
    results = {}
    with ProcessPoolExecutor(max_workers=min(16, max(1, len(jobs)))) as ex:
        futs = {}
        for m, pt, err in jobs:
            if pt is None:
                results[m["name"]] = {"status": "not applicable", "why": err}
                continue
            futs[m["name"]] = ex.submit(_run_variant, pid, ss.files, pt[0], pt[1], seed)
        for name, f in futs.items():
            try:
                results[name] = f.result(timeout=600)
            except Exception as e:   # noqa
                results[name] = {"status": "error", "why": repr(e)}
    for m in muts:
        r = results[m["name"]]
        expect = m.get("expect", "kill")
        r["expect"] = expect
        if r["status"] in ("not applicable", "error"):
            continue
        killed = r["status"] == "killed"
        r["as_expected"] = (killed if expect == "kill" else not killed)
    rep.audit = {"mutants": len(muts), "results": results,
                 "unexpected": sorted(n for n, r in results.items() if r.get("as_expected") is False)}
    for n in rep.audit["unexpected"]:
        print(f"AUDIT-WARNING property={pid} mutant={n} status={results[n]['status']} expected={results[n]['expect']}")


def _run_variant(pid, files, path, text, seed):
    ss = SourceSet(files).variant(path, text)
    try:
        rep = run_property(pid, ss, "quick", seed)
    except AnalysisError as e:
        return {"status": "analysis-error", "why": str(e)[:300]}
    except Exception as e:   # noqa
        return {"status": "analysis-error", "why": repr(e)[:300]}
    listed = {k["key"] for k in load_known_findings().get("findings", [])}
    new = [f for f in rep.findings if f.key not in listed]
    if new:
        return {"status": "killed", "by": sorted({f.rule for f in new})[:6], "first": str(new[0])[:300]}
    return {"status": "survived"}


def main(argv=None):
    argv = list(sys.argv[1:] if argv is None else argv)
    if not argv or argv[0] in ("-h", "--help"):
        print(__doc__)
        return 2
    pid = argv[0].upper()
    tier = os.environ.get("VERIF_TIER", "quick")
    replay = None
    i = 1
    while i < len(argv):
        if argv[i] == "--tier":
            tier = argv[i + 1]
            i += 2
        elif argv[i] == "--replay":
            replay = argv[i + 1]
            i += 2
        else:
            print(f"unknown argument {argv[i]}")
            return 2
    if tier not in ("quick", "thorough"):
        tier = "quick"
    try:
        seed = int(os.environ.get("VERIF_SEED", "0"))
    except ValueError:
        seed = 0
    if pid not in PROPS:
        print(f"ANALYSIS-ERROR unknown property {pid}")
        return 2
    t0 = time.time()
    # wall-clock budget: an analysed change can make the symbolic evaluation explode (or loop); the check then ends as analysis-error
    # instead of hanging.  Generous: quick checks take seconds, thorough ones minutes.
    budget = int(os.environ.get("FDV_TIME_BUDGET", "600" if tier == "quick" else "7200"))

    def _out_of_time(signum, frame):
        import multiprocessing as _mp
        print(f"ANALYSIS-ERROR property={pid} time budget of {budget} s exceeded (the evaluation does not terminate in reasonable time on this tree)", flush=True)
        for ch in _mp.active_children():
            try:
                ch.terminate()
            except Exception:    # noqa
                pass
        os._exit(2)
    try:
        import signal as _signal
        _signal.signal(_signal.SIGALRM, _out_of_time)
        _signal.alarm(budget)
    except (ValueError, AttributeError):
        pass
    ev_dir = pathlib.Path(os.environ["FDV_EVIDENCE"]) if os.environ.get("FDV_EVIDENCE") else VERIF / "evidence"   # dev sweeps write elsewhere
    ev_path = ev_dir / f"{pid}.json"
    ev_path.parent.mkdir(parents=True, exist_ok=True)
    try:
        ss = SourceSet.load()
        rep = run_property(pid, ss, tier, seed)
        mod = load_module(pid)
        known = load_known_findings()
        listed = {k["key"]: k for k in known.get("findings", []) if k.get("property") == pid}
        new, old = [], []
        for f in rep.findings:
            (old if f.key in listed else new).append(f)
        if replay:
            want = json.loads(open(replay).read()).get("key")
            hit = [f for f in rep.findings if f.key == want]
            for f in hit:
                print(f"REPLAY reproduced: {f}")
            if not hit:
                print(f"REPLAY: finding {want} is not reported on the current tree")
            return 1 if hit else 0
        if tier == "thorough" and not new:
            mutant_audit(pid, ss, rep, seed)
        wdir = ev_dir / "witness"
        wdir.mkdir(parents=True, exist_ok=True)
        for old_w in wdir.glob(f"{pid}-*.json"):
            old_w.unlink()
        ev = rep.evidence(level=getattr(mod, "LEVEL", "other"), explanation=getattr(mod, "EXPLANATION", ""), violations=len(new))
        ev["coverage"]["known_findings_matched"] = [f.key for f in old]
        ev_path.write_text(json.dumps(ev, indent=1, default=str))
        for f in old:
            print(f"KNOWN-FINDING: property={pid} {listed[f.key].get('what', f.message)}")
        print(f"{pid} [{tier}] obligations={rep.obligations} discharged={rep.discharged} evaluations={max(rep.evaluations, rep.obligations)} "
              f"rules={len(rep.rules)} findings={len(rep.findings)} wall={time.time() - t0:.2f}s")
        if new:
            for n, f in enumerate(new):
                w = wdir / f"{pid}-{n}.json"
                w.write_text(json.dumps(f.to_json(), indent=1, default=str))
                print(f"  {f}")
                print(f"VIOLATION property={pid} replay={w}")
            return 1
        return 0
    except AnalysisError as e:
        print(f"ANALYSIS-ERROR property={pid} {e}")
        return 2
    except Exception as e:    # noqa: a traceback must never look like a violation
        traceback.print_exc()
        print(f"ANALYSIS-ERROR property={pid} internal error: {e!r}")
        return 2


if __name__ == "__main__":
    sys.exit(main())
