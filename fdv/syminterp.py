"""The abstract evaluator with NumPy interpreted over exact symbolic arrays (symnum) on a small concrete grid.

Used for the stock / lifetime kernels: grid sizes are concrete (n_t = 3..5, label dimensions of size 2), every
number is symbolic (drivers, parameters, time items), distribution functions are uninterpreted function symbols.
A branch on symbolic data is decided only when the sign/zero-ness is exact (declared symbol signs, identical
polynomials); otherwise the analysis aborts - there are no path conditions and no solver.
"""
from __future__ import annotations

import ast

from .interp import (einsum_sublists, Interp, AnalysisAbort, PyRaise, Obj, Marker, NDARRAY, NUMBER, ExtModule, BT, Opaque, TypeFn, PyModel)
from . import symnum as S
from .symnum import SArr, Rat, rat, fsym, SymAbort
from .npmodel import NumpyRaise, ModelAbort


class DType(Marker):
    """np.float64 & co: comparable by name, callable as a conversion"""
    def __call__(self, x=0):
        return x

    @property
    def kind(self):
        n = self.name.replace("np.", "")
        return "f" if n.startswith("float") else "i" if n.startswith("int") else "u" if n.startswith("uint") else "b" if n.startswith("bool") else "O"

    @property
    def itemsize(self):
        digits = "".join(c for c in self.name if c.isdigit())
        return int(digits) // 8 if digits else 8

    def __eq__(self, o):
        n = o.name if isinstance(o, Marker) else getattr(o, "name", None) if isinstance(o, BT) else None
        if n is None:
            return False
        norm = lambda z: z.replace("np.", "").replace("dtype:", "").replace("float64", "float").replace("int64", "int")
        return norm(n) == norm(self.name)

    __hash__ = Marker.__hash__


class Flags:
    """ndarray.flags: contiguity computed from where the elements lie in the underlying buffer"""
    writeable = True

    def __init__(self, a: SArr = None):
        self.c_contiguous = self.f_contiguous = True
        if a is None or a.size <= 1:
            return
        pos = S.mem_positions(a)
        self.c_contiguous = all(q - p == 1 for p, q in zip(pos, pos[1:]))
        real = S.mem_positions(S.transpose(a))        # the same elements in column-major order of a's index
        self.f_contiguous = all(q - p == 1 for p, q in zip(real, real[1:]))

    @property
    def contiguous(self):
        return self.c_contiguous

    @property
    def fortran(self):
        return self.f_contiguous and not self.c_contiguous

    @property
    def forc(self):
        return self.c_contiguous or self.f_contiguous


class FInfo(PyModel):
    """np.finfo(float): the machine epsilon is an infinitesimal positive number of the exact domain (smaller than every generic
    quantity, larger than its own square); nothing else of it is modelled"""
    def __getattr__(self, name):
        if name == "eps":
            return Rat.sym("eps", "pos")
        if name in ("tiny", "smallest_normal"):
            return S.eps_power(6)       # the smallest normal number: positive and far below every power of eps that occurs
        raise AnalysisAbort(f"np.finfo(...).{name} is not modelled")


def _prod(shape):
    r = 1
    for x in shape:
        r *= int(x)
    return r


class SymInterp(Interp):
    def __init__(self, prog, **kw):
        super().__init__(prog, **kw)
        self.taint_mode = "concrete"       # grid sizes are concrete by construction in this domain
        self.generic_notes = []
        self.dist_calls = []

    # ------------------------------------------------------------------ values
    def is_num(self, v):
        return isinstance(v, (SArr, Rat))

    def tname(self, v):
        if isinstance(v, SArr):
            return "ndarray"
        if isinstance(v, Rat):
            return "float"
        return super().tname(v)

    def isinstance_(self, v, t):
        ts = t if isinstance(t, tuple) else (t,)
        for x in ts:
            if x is NDARRAY and isinstance(v, SArr):
                return True
            if x is NUMBER and (isinstance(v, Rat) or (isinstance(v, (int, float)) and not isinstance(v, bool)) or isinstance(v, bool)):
                return True
            if isinstance(x, BT) and x.name == "float" and isinstance(v, Rat):
                return True
        rest = tuple(x for x in ts if x is not NDARRAY and x is not NUMBER)
        if isinstance(v, (SArr, Rat)):
            for x in rest:
                from .interp import ITERABLE
                if x is ITERABLE and isinstance(v, SArr) and v.ndim > 0:
                    return True
            return False
        return super().isinstance_(v, rest) if rest else False

    def truth(self, v):
        if isinstance(v, SArr):
            if v.size != 1:
                raise PyRaise("ValueError", None, "The truth value of an array with more than one element is ambiguous")
            v = v.data[0]
        if isinstance(v, Rat):
            if v.is_const():
                return v.const() != 0
            if v.n.is_monomial():      # an indicator / decided comparison is a constant; anything else is data
                pass
            raise AnalysisAbort(f"branch on symbolic data {v!r} in {self.stack[-1] if self.stack else '?'}: outside the abstraction")
        return super().truth(v)

    def shallow_copy(self, v):
        if isinstance(v, SArr):
            return v.copy()
        return super().shallow_copy(v)

    def deepcopy(self, v, memo=None):
        if isinstance(v, SArr):
            return v.copy()
        return super().deepcopy(v, memo)

    def iterate(self, v):
        if isinstance(v, SArr):
            if v.ndim == 0:
                raise PyRaise("TypeError", None, "iteration over a 0-d array")
            return [v[i] if v.ndim > 1 else v.data[i] for i in range(v.shape[0])]
        if isinstance(v, Rat):
            raise PyRaise("TypeError", None, "'float' object is not iterable")
        return super().iterate(v)

    # ------------------------------------------------------------------ operators
    def binop(self, op, l, r, node):
        if (isinstance(l, (SArr, Rat)) or isinstance(r, (SArr, Rat))) and not isinstance(l, Obj) and not isinstance(r, Obj):
            for x in (l, r):
                if not isinstance(x, (SArr, Rat, int, float)) or isinstance(x, str):
                    if isinstance(x, (list, tuple)) and isinstance(op, (ast.Add, ast.Mult)) and not isinstance(l, SArr) and not isinstance(r, SArr):
                        break
                    raise PyRaise("TypeError", node, f"unsupported operand types: '{self.tname(l)}' and '{self.tname(r)}'")
            else:
                f = {ast.Add: lambda a, b: a + b, ast.Sub: lambda a, b: a - b, ast.Mult: lambda a, b: a * b,
                     ast.Div: lambda a, b: a / b, ast.Pow: lambda a, b: a ** b}.get(type(op))
                if f is None:
                    raise AnalysisAbort(f"array operator {type(op).__name__}")
                if isinstance(l, SArr) or isinstance(r, SArr):
                    return S.elementwise(f, l, r)
                return f(rat(l), rat(r))
        return super().binop(op, l, r, node)

    def e_UnaryOp(self, n, fr):
        v = self.eval(n.operand, fr)
        if isinstance(v, (SArr, Rat)):
            if isinstance(n.op, ast.USub):
                return S.elementwise(lambda a: -a, v) if isinstance(v, SArr) else -v
            if isinstance(n.op, ast.UAdd):
                return v
            if isinstance(n.op, ast.Not):
                return not self.truth(v)
            if isinstance(n.op, ast.Invert) and isinstance(v, SArr) and all(x.is_const() and x.const() in (0, 1) for x in v.data):
                return S.elementwise(lambda a: rat(1) - a, v)       # ~ on a boolean array
        if isinstance(n.op, ast.USub) and isinstance(v, Obj):
            return self.call_method(v, "__neg__")
        if isinstance(n.op, ast.Not):
            return not self.truth(v)
        if isinstance(n.op, ast.USub):
            return -v
        if isinstance(n.op, ast.UAdd):
            return v
        raise AnalysisAbort("unary operator")

    def cmp_scalar(self, name, a, b):
        """comparison of two symbolic scalars -> python bool when exact, Rat indicator symbol otherwise"""
        a, b = rat(a), rat(b)
        d = a - b
        if d.is_const() or d.is_zero():
            c = d.const() if not d.is_zero() else 0
            return {"lt": c < 0, "le": c <= 0, "gt": c > 0, "ge": c >= 0, "eq": c == 0, "ne": c != 0}[name]
        sg = d.sign()
        if sg not in ("pos", "neg") and d.symbols() and d.symbols() <= S.INFINITESIMAL and d.d.is_const():
            # numbers plus terms in an infinitesimal positive symbol: the sign is that of the lowest-order term
            dc = d.d.const_value()
            low = min(sum(p for _, p in m) for m in d.n.t)
            lead = sum(c for m, c in d.n.t.items() if sum(p for _, p in m) == low) / dc
            if lead != 0:
                sg = "pos" if lead > 0 else "neg"
        if sg in ("pos",):
            return {"lt": False, "le": False, "gt": True, "ge": True, "eq": False, "ne": True}[name]
        if sg in ("neg",):
            return {"lt": True, "le": True, "gt": False, "ge": False, "eq": False, "ne": True}[name]
        if sg == "nonneg" and name in ("lt", "ge"):
            return name == "ge"
        if sg == "nonpos" and name in ("gt", "le"):
            return name == "le"
        if sg not in ("pos", "neg") and (d.symbols() & S.INFINITESIMAL):
            # terms of different infinitesimal order: the sign is that of the lowest-order part (generic coefficients are not zero)
            lead = S.eps_lowest(d)
            if lead is not None:
                ls = lead.sign()
                if ls in ("nonneg", "nonpos"):
                    self.generic_notes.append(f"generic magnitude: the sign of {str(d)[:80]} is taken from its lowest-order part")
                ls = {"nonneg": "pos", "nonpos": "neg"}.get(ls, ls)
                if ls in ("pos", "neg"):
                    pos_ = ls == "pos"
                    return {"lt": not pos_, "le": not pos_, "gt": pos_, "ge": pos_, "eq": False, "ne": True}[name]
        # magnitude of a generic symbolic quantity against a positive literal threshold (|x| < 1e-10 style guards)
        if b.is_const() and b.const() > 0 and a.sign() in ("nonneg", "pos") and not a.is_const():
            self.generic_notes.append(f"generic magnitude: {a!r} {name} {b!r} decided as for a value that is not negligible")
            return {"lt": False, "le": False, "gt": True, "ge": True, "eq": False, "ne": True}[name]
        if name in ("eq", "ne"):
            return name == "ne"          # two different symbolic values are generically different
        # undecided order comparison: ONE indicator symbol per difference, so that a < b, b > a, not (a >= b) are the same form
        pos = lambda x: fsym("ind_pos", x, sign="nonneg")
        return {"lt": lambda: pos(b - a), "gt": lambda: pos(a - b), "le": lambda: 1 - pos(a - b), "ge": lambda: 1 - pos(b - a)}[name]()

    def data_cmp(self, name, l, r):
        if isinstance(l, SArr) or isinstance(r, SArr):
            def f(a, b):
                v = self.cmp_scalar(name, a, b)
                return rat(int(v)) if isinstance(v, bool) else v
            return S.elementwise(f, l, r)
        return self.cmp_scalar(name, l, r)

    def compare(self, op, l, r, n):
        if (isinstance(l, (SArr, Rat)) or isinstance(r, (SArr, Rat))) and not isinstance(op, (ast.In, ast.NotIn, ast.Is, ast.IsNot)):
            if isinstance(l, (SArr, Rat, int, float)) and isinstance(r, (SArr, Rat, int, float)):
                name = {ast.Eq: "eq", ast.NotEq: "ne", ast.Gt: "gt", ast.GtE: "ge", ast.Lt: "lt", ast.LtE: "le"}[type(op)]
                return self.data_cmp(name, l, r)
            if isinstance(op, (ast.Eq, ast.NotEq)):
                for a, b in ((l, r), (r, l)):
                    if isinstance(a, SArr) and not isinstance(b, (SArr, list, tuple, dict)):
                        # an array of labels (object / text dtype) against one label: elementwise tests
                        def one(x, _b=b):
                            try:
                                same = (rat(x) == rat(_b)) if isinstance(x, (Rat, int, float)) and isinstance(_b, (Rat, int, float)) and not isinstance(x, bool) and not isinstance(_b, bool) \
                                    else (type(x) is type(_b) and x == _b) or (isinstance(x, str) and isinstance(_b, str) and x == _b)
                            except SymAbort:
                                same = False
                            return rat(int(bool(same) == isinstance(op, ast.Eq)))
                        return SArr(a.shape, [one(x) for x in a.data], dtype="bool")
            if isinstance(op, ast.Eq):
                return False
            if isinstance(op, ast.NotEq):
                return True
        return super().compare(op, l, r, n)

    def e_Compare(self, n, fr):
        l = self.eval(n.left, fr)
        for op, rn in zip(n.ops, n.comparators):
            r = self.eval(rn, fr)
            v = self.compare(op, l, r, n)
            if isinstance(v, (SArr, Rat, PyModel)):
                if len(n.ops) > 1:
                    raise AnalysisAbort("chained comparison on array data")
                return v        # an elementwise result (array, series, frame), not a truth value
            if not v:
                return False
            l = r
        return True

    def py_eq(self, a, b):
        if isinstance(a, Rat) or isinstance(b, Rat):
            if isinstance(a, (Rat, int, float)) and isinstance(b, (Rat, int, float)):
                return rat(a) == rat(b)
            return False
        if isinstance(a, SArr) or isinstance(b, SArr):
            raise AnalysisAbort("== between arrays used as a python bool")
        return super().py_eq(a, b)

    # ------------------------------------------------------------------ items / attributes
    def get_item(self, o, k, node):
        if isinstance(o, SArr):
            r = o[self.idx(k)]
            return r
        return super().get_item(o, k, node)

    def set_item(self, o, k, val, node):
        if isinstance(o, SArr):
            o.setitem(self.idx(k), val)
            return
        super().set_item(o, k, val, node)

    def idx(self, k):
        def one(x):
            if isinstance(x, Rat):
                if not x.is_const():
                    raise AnalysisAbort("symbolic index")
                return int(x.const())
            if isinstance(x, SArr) and x.ndim == 0:
                return one(x.data[0])
            return x
        if isinstance(k, tuple):
            return tuple(one(x) for x in k)
        return one(k)

    def aug(self, op, cur, val, node):
        if isinstance(cur, SArr):
            new = self.binop(op, cur, val, node)
            cur.setitem(Ellipsis, new)
            return cur
        return super().aug(op, cur, val, node)

    def get_attr(self, v, name, node=None):
        if isinstance(v, Flags):
            return getattr(v, name)
        if isinstance(v, DType) and name in ("kind", "itemsize", "name"):
            return getattr(v, name)
        if isinstance(v, SArr):
            return self.guard_kwargs(self.sarr_attr(v, name, node), "ndarray." + name)
        if isinstance(v, Rat):
            if name == "shape":
                return ()
            if name == "ndim":
                return 0
            if name == "astype":
                return lambda t, **k: v
            if name == "dtype":
                return Marker("dtype:float")
            raise PyRaise("AttributeError", node, f"'float' object has no attribute '{name}'")
        return super().get_attr(v, name, node)

    def sarr_attr(self, a: SArr, name, node):
        if name == "shape":
            return a.shape
        if name == "ndim":
            return a.ndim
        if name == "size":
            return a.size
        if name == "T":
            return S.transpose(a)
        if name == "dtype":
            return DType("np." + {"float": "float64", "int": "int64"}.get(a.dtype, a.dtype))
        if name == "flags":
            return Flags(a)
        if name in ("any", "all"):
            return lambda axis=None, **kw: self.np_attr(name, None)(a, axis=axis)
        if name == "copy":
            return lambda order=None: a.copy()
        if name == "sum":
            return lambda axis=None, **kw: self.unwrap(S.reduce_sum(a, axis))
        if name == "cumsum":
            return lambda axis=None: S.cumsum(a, axis)
        if name == "diagonal":
            return lambda offset=0, axis1=0, axis2=1: S.diagonal(a, offset, axis1, axis2)
        if name == "transpose":
            return lambda *perm: S.transpose(a, list(perm[0]) if len(perm) == 1 and isinstance(perm[0], (list, tuple)) else (list(perm) or None))
        if name == "astype":
            def astype(t, copy=True):
                r = a.copy()
                tn = t.name if isinstance(t, (BT, Marker)) else str(t)
                if "int" in tn:
                    for x in r.data:
                        if isinstance(x, Rat) and "nan" in x.symbols():
                            raise PyRaise("ValueError", node, "cannot convert float NaN to integer")
                        if not isinstance(x, Rat):
                            raise PyRaise("ValueError", node, f"invalid literal for int(): {x!r}")
                    r.dtype = "int"
                return r
            return astype
        if name == "flatten" or name == "ravel":
            def flat(order="C"):
                if order == "A" and a._view is not None:
                    fl = Flags(a)
                    order = "F" if fl.f_contiguous and not fl.c_contiguous else "C"
                if order == "K" and a._view is not None and a.ndim >= 2:
                    # 'K': axes in the order of their strides in memory (largest first), each axis in its own direction
                    pos = S.mem_positions(a)
                    if len(set(pos)) == len(pos):
                        perm = S.k_order_axes(a)
                        return SArr((a.size,), list(S.transpose(a, perm).data), dtype=a.dtype)
                if order == "F":
                    return SArr((a.size,), list(S.transpose(a).data))
                return SArr((a.size,), list(a.data))
            return flat
        if name == "tolist":
            def tolist():
                def rec(x):
                    return x.data[0] if x.ndim == 0 else [rec(x[i]) for i in range(x.shape[0])]
                return rec(a)
            return tolist
        if name == "item":
            return lambda: a.item()
        if name == "fill":
            return lambda v: a.setitem(Ellipsis, v)
        if name in ("max", "min"):
            return lambda axis=None: self.np_minmax(name, a, axis)
        if name == "squeeze":
            return lambda axis=None: SArr(tuple(s for s in a.shape if s != 1), list(a.data)) if axis is None else (_ for _ in ()).throw(AnalysisAbort("squeeze with axis"))
        if name == "reshape":
            def reshape(*shape, order="C"):
                shape = shape[0] if len(shape) == 1 and isinstance(shape[0], (tuple, list)) else shape
                shape = [int(x) for x in shape]
                if shape.count(-1) > 1:
                    raise PyRaise("ValueError", node, "can only specify one unknown dimension")
                if -1 in shape:
                    known = 1
                    for x in shape:
                        if x != -1:
                            known *= x
                    if known == 0 or a.size % known:
                        raise PyRaise("ValueError", node, f"cannot reshape array of size {a.size} into shape {tuple(shape)}")
                    shape[shape.index(-1)] = a.size // known
                n = 1
                for x in shape:
                    n *= x
                if n != a.size:
                    raise PyRaise("ValueError", node, f"cannot reshape array of size {a.size} into shape {tuple(shape)}")
                # NumPy returns a view when the new shape can be laid over the same memory with strides, a copy otherwise
                if order == "C" and S.strided_view_possible(S.mem_positions(a), shape):
                    return SArr(tuple(shape), None, base=a.base, dtype=a.dtype, view=(a, list(range(a.size))))
                if order != "C":
                    raise AnalysisAbort("reshape with order other than C")
                return SArr(tuple(shape), list(a.data), dtype=a.dtype)
            return reshape
        raise AnalysisAbort(f"ndarray.{name} is not modelled (symbolic arrays)")

    def unwrap(self, r):
        return r.data[0] if isinstance(r, SArr) and r.ndim == 0 else r

    def np_minmax(self, name, a, axis=None):
        if axis is not None:
            raise AnalysisAbort(f"np.{name} with axis")
        a = S.asarr(a)
        vals = []
        for v in a.data:
            if not any(v == w for w in vals):
                vals.append(v)
        if len(vals) == 1:
            return vals[0]
        if all(v.is_const() for v in vals):
            return rat((max if name == "max" else min)(v.const() for v in vals))
        if name == "max" and all(v.sign() in ("pos", "nonneg", "zero") for v in vals) and any(v.symbols() & S.INFINITESIMAL for v in vals):
            # magnitudes of different infinitesimal order: the largest is among those of the lowest order; a common factor eps^k
            # is taken out (generic values: the coefficients are not exactly zero)
            facs = [S.eps_factor(v) for v in vals if not v.is_zero()]
            if facs and all(f is not None for f in facs):
                k = min(f[0] for f in facs)
                low = [r for kk, r in facs if kk == k]
                self.generic_notes.append("np.max over magnitudes of different infinitesimal order keeps those of the lowest order")
                return S.eps_power(k) * self.np_minmax("max", SArr((len(low),), low))
        # an extremum that the declared signs decide: v0 with (w - v0) >= 0 for every other w (min) / <= 0 (max)
        for v0 in vals:
            good = ("pos", "nonneg", "zero") if name == "min" else ("neg", "nonpos", "zero")
            if all(w is v0 or (w - v0).is_zero() or (w - v0).sign() in good for w in vals):
                return v0
        if any(v.symbols() & S.INFINITESIMAL for v in vals):
            # generic quantities against infinitesimal ones (np.maximum(dt, np.finfo(float).tiny)): decided by the lowest order
            for v0 in vals:
                if all(w is v0 or self.cmp_scalar("ge" if name == "min" else "le", w, v0) is True for w in vals):
                    return v0
        return fsym(name, *sorted(vals, key=lambda x: x.canon()))

    # ------------------------------------------------------------------ numpy over symbolic arrays
    def np_attr(self, name, node):
        I = self
        ew = S.elementwise
        un = {"abs": "abs", "absolute": "abs", "sqrt": "sqrt", "exp": "exp", "log": "log", "sign": "sign"}
        if name in un:
            def f(a, _n=un[name]):
                def g(x):
                    if _n == "abs":
                        sg = x.sign()
                        if sg in ("pos", "nonneg", "zero"):
                            return x
                        if sg in ("neg", "nonpos"):
                            return -x
                        k, rest = S.eps_factor(x)
                        if k:           # |eps^k y| = eps^k |y| (eps is positive)
                            return S.eps_power(k) * fsym("abs", rest)
                    if x.is_const() and _n == "sqrt" and x.const() in (0, 1):
                        return x
                    if x.is_const() and _n == "exp" and x.const() == 0:
                        return rat(1)
                    if x.is_const() and _n == "log" and x.const() == 1:
                        return rat(0)
                    return fsym(_n, x)
                return ew(g, a) if isinstance(a, SArr) else g(rat(a))
            return f
        bin_uf = {"add": lambda a, b: a + b, "subtract": lambda a, b: a - b, "multiply": lambda a, b: a * b, "divide": lambda a, b: a / b,
                  "true_divide": lambda a, b: a / b, "power": lambda a, b: a ** b}
        cmp_uf = {"less": "lt", "less_equal": "le", "greater": "gt", "greater_equal": "ge", "equal": "eq", "not_equal": "ne"}
        un_uf = {"negative": lambda a: -a, "square": lambda a: a * a, "reciprocal": lambda a: rat(1) / a, "positive": lambda a: a}

        def with_out(r, out, k=None):
            k = dict(k or {})
            where = k.pop("where", True)
            for key in list(k):
                if key in ("dtype", "casting", "order", "subok"):
                    k.pop(key)
            if k:
                raise AnalysisAbort(f"ufunc keyword(s) {sorted(k)} are not modelled")
            if where is not True:
                # ufunc(..., where=mask): only the entries where the mask holds are computed; the others keep what `out` held
                # (uninitialised memory without out=)
                r = S.asarr(r)
                mask = S.asarr(where).broadcast_to(r.shape)
                old = out.broadcast_to(r.shape).data if isinstance(out, SArr) else [Rat.sym("uninitialised")] * r.size
                data = []
                for m, new, o in zip(mask.data, r.data, old):
                    if not (isinstance(m, Rat) and m.is_const()):
                        raise AnalysisAbort("ufunc where= mask that depends on symbolic data")
                    data.append(new if m.const() != 0 else o)
                r = SArr(r.shape, data)
            if out is None:
                return r
            if not isinstance(out, SArr):
                raise AnalysisAbort("out= is not an array")
            out.setitem(Ellipsis, r)
            return out
        if name in bin_uf:
            f = bin_uf[name]

            def call(a, b, out=None, **k):
                return with_out(ew(lambda x, y: f(rat(x), rat(y)), a, b) if (isinstance(a, SArr) or isinstance(b, SArr)) else f(rat(a), rat(b)), out, k)

            def outer(a, b, **k):
                if k:
                    raise AnalysisAbort(f"np.{name}.outer keyword(s) {sorted(k)}")
                a, b = S.asarr(a), S.asarr(b)
                return SArr(a.shape + b.shape, [f(rat(x), rat(y)) for x in a.data for y in b.data])
            call._ufunc = {"outer": outer}
            return call
        if name in cmp_uf:
            return lambda a, b, out=None, **k: with_out(I.data_cmp(cmp_uf[name], a, b), out, k)
        if name in un_uf:
            g = un_uf[name]
            return lambda a, out=None, **k: with_out(ew(lambda x: g(rat(x)), a) if isinstance(a, SArr) else g(rat(a)), out, k)
        if name == "errstate":
            return lambda **k: None
        if name == "asanyarray" or name == "ascontiguousarray":
            def asany(x, dtype=None, _n=name, **k):
                if k:
                    raise AnalysisAbort(f"np.{_n} keyword(s) {sorted(k)}")
                a = x if isinstance(x, SArr) else SArr.from_nested(x)
                if _n == "ascontiguousarray":
                    if a.ndim == 0:
                        return I.sarr_attr(a, "reshape", None)((1,))      # documented: ndim >= 1
                    if not Flags(a).c_contiguous:
                        return a.copy()
                return a
            return asany
        if name == "ndarray":
            return NDARRAY
        if name == "newaxis":
            return None
        if name in ("zeros", "ones", "empty"):
            return lambda shape, dtype=None: SArr.full(shape, {"zeros": 0, "ones": 1, "empty": 0}[name]) if name != "empty" else SArr.full(shape, Rat.sym("uninitialised"))
        if name == "full":
            return lambda shape, fill_value, dtype=None: S.asarr(fill_value).broadcast_to(tuple(shape) if isinstance(shape, (tuple, list)) else (shape,)).copy()
        if name in ("zeros_like", "ones_like", "full_like", "empty_like"):
            def like(a, fill_value=None, dtype=None, _n=name):
                fv = {"zeros_like": 0, "ones_like": 1, "empty_like": Rat.sym("uninitialised")}.get(_n, fill_value)
                r = S.asarr(fv).broadcast_to(S.asarr(a).shape).copy()
                r.dtype = getattr(a, "dtype", "float") if dtype is None else "float"
                return S.keep_layout(a, r) if isinstance(a, SArr) else r
            return like
        if name in ("array", "asarray"):
            def array(x, dtype=None, copy=None, subok=False, order=None, ndmin=0, like=None):
                if ndmin or like is not None:
                    raise AnalysisAbort(f"np.{name} with ndmin / like")
                if isinstance(x, SArr):
                    return x.copy() if (name == "array" and copy is not False) else x
                return SArr.from_nested(x)
            return array
        if name == "copy":
            return lambda a: a.copy()
        if name == "einsum":
            return lambda spec, *ops, **kw: S.einsum(*einsum_sublists(spec, ops))
        if name == "sum":
            return lambda a, axis=None, **kw: I.unwrap(S.reduce_sum(S.asarr(a), axis))
        if name == "cumsum":
            return lambda a, axis=None, **kw: S.cumsum(S.asarr(a), axis)
        if name == "diff":
            return lambda a, n=1, axis=-1, prepend=None, append=None: S.diff(S.asarr(a), axis, prepend)
        if name == "concatenate":
            return lambda arrs, axis=0: S.concatenate(list(arrs), axis)
        if name == "tile":
            return lambda a, reps: S.tile(a, reps)
        if name == "transpose":
            return lambda a, axes=None: S.transpose(a, axes)
        if name == "moveaxis":
            return lambda a, s, d: S.moveaxis(a, s, d)
        if name == "swapaxes":
            def swap(a, i, j):
                p = list(range(a.ndim))
                p[i], p[j] = p[j], p[i]
                return S.transpose(a, p)
            return swap
        if name == "expand_dims":
            def ed(a, axis):
                a = S.asarr(a)
                req = list(axis) if isinstance(axis, (tuple, list)) else [axis]
                n_out = a.ndim + len(req)
                sh = list(a.shape)
                for k in sorted(int(self.idx(x)) % n_out for x in req):
                    sh.insert(k, 1)
                return SArr(tuple(sh), None, base=a.base, dtype=a.dtype, view=(a, list(range(a.size))))
            return ed
        if name == "broadcast_to":
            return lambda a, shape, **k: S.asarr(a).broadcast_to(tuple(int(self.idx(x)) for x in shape))
        if name == "count_nonzero":
            return lambda a, **k: sum(1 for v in S.asarr(a).data if not (isinstance(v, Rat) and v.is_zero()))
        if name == "stack":
            def stack(arrs, axis=0):
                arrs = [S.asarr(x) for x in arrs]
                ax = int(axis) % (arrs[0].ndim + 1)
                exp = [SArr(x.shape[:ax] + (1,) + x.shape[ax:], list(x.data)) for x in arrs]
                return S.concatenate(exp, ax)
            return stack
        if name == "hstack":
            return lambda arrs: S.concatenate([S.asarr(x) if S.asarr(x).ndim else SArr((1,), S.asarr(x).data) for x in arrs], -1 if S.asarr(list(arrs)[0]).ndim > 1 else 0)
        if name == "diag_indices":
            return lambda n, ndim=2: tuple(list(range(int(n))) for _ in range(ndim))
        if name == "ndindex":
            def ndindex(*shape):
                import itertools
                shape = shape[0] if len(shape) == 1 and isinstance(shape[0], (tuple, list)) else shape
                return iter(list(itertools.product(*[range(int(s)) for s in shape])))      # np.ndindex is an iterator: exhausted after one pass
            return ndindex
        if name == "ix_":
            def ix_(*lists):
                out = []
                for k, l in enumerate(lists):
                    sh = [1] * len(lists)
                    sh[k] = len(l)
                    out.append(SArr(tuple(sh), [rat(int(x)) for x in l]))
                return tuple(out)
            return ix_
        if name in ("nanmax", "nanmin"):
            def nanext(a, axis=None, initial=None, **kw):
                arr = S.asarr(a)
                if axis is not None:
                    raise AnalysisAbort(f"np.{name} with axis")
                vals = [v for v in arr.data if not (isinstance(v, Rat) and "nan" in v.symbols())]
                if initial is not None:
                    vals.append(rat(initial))
                if not vals:
                    return Rat.sym("nan")
                return I.np_minmax("max" if "max" in name else "min", SArr((len(vals),), vals), None)
            return nanext
        if name in ("max", "min", "amax", "amin"):
            return lambda a, axis=None, **kw: I.np_minmax("max" if "max" in name else "min", a, axis)
        if name == "gradient":
            def gradient(f, *varargs, axis=None, edge_order=1):
                f = S.asarr(f)
                if f.ndim != 1 or varargs or edge_order != 1 or axis not in (None, 0, -1):
                    raise AnalysisAbort("np.gradient beyond a 1-d array with unit spacing")
                n, d = f.shape[0], f.data
                if n < 2:
                    raise NumpyRaise("ValueError", "Shape of array too small to calculate a numerical gradient, at least (edge_order + 1) elements are required.")
                out = [d[1] - d[0]] + [(d[i + 1] - d[i - 1]) / 2 for i in range(1, n - 1)] + [d[n - 1] - d[n - 2]]
                return SArr((n,), out)
            return gradient
        if name == "take":
            def take(a, indices, axis=None, **k):
                a = S.asarr(a)
                if k:
                    raise AnalysisAbort(f"np.take keyword(s) {sorted(k)}")
                if axis is None:
                    a = SArr((a.size,), list(a.data), dtype=a.dtype)
                    axis = 0
                ax = int(axis) % a.ndim
                key = tuple([slice(None)] * ax + [indices])
                return a[key]
            return take
        if name == "fromiter":
            def fromiter(it, dtype=None, count=-1):
                vals = [(rat(int(v)) if isinstance(v, bool) else v) for v in I.iterate(it)]
                return SArr.from_nested(vals)
            return fromiter
        if name == "isclose":
            def isclose(a, b, **kw):
                def one(x, y):
                    d = rat(x) - rat(y)
                    if S.is_small(d):
                        return rat(1)       # identical, or differing by less than every tolerance
                    if d.is_const():
                        # numbers: NumPy's default tolerances
                        xv, yv = float(rat(x).const()), float(rat(y).const())
                        rtol, atol = float(kw.get("rtol", 1e-5)), float(kw.get("atol", 1e-8))
                        return rat(int(abs(xv - yv) <= atol + rtol * abs(yv)))
                    I.generic_notes.append("np.isclose of generic symbolic values decided False (they are not identical)")
                    return rat(0)
                if isinstance(a, SArr) or isinstance(b, SArr):
                    return S.elementwise(one, a, b)
                return bool(one(a, b).const())
            return isclose
        if name == "array_equal":
            def array_equal(a, b, **kw):
                if a is None or b is None:
                    return a is None and b is None      # an array never equals None
                a, b = S.asarr(a), S.asarr(b)
                if a.shape != b.shape:
                    return False
                same = all(x == y for x, y in zip(a.data, b.data))
                if not same:
                    I.generic_notes.append("np.array_equal of symbolic arrays: entries that are not identical forms are unequal for generic values")
                return bool(same)
            return array_equal
        if name == "allclose":
            def allclose(a, b, **kw):
                a, b = S.asarr(a), S.asarr(b)
                d = S.elementwise(lambda x, y: x - y, a, b)
                if all(S.is_small(x) for x in d.data):      # identical, or differing by less than every tolerance
                    return True
                I.generic_notes.append("np.allclose of generic symbolic values decided False (they are not identical)")
                return False
            return allclose
        if name in ("any", "all"):
            def anyall(a, axis=None):
                if axis is not None:
                    arr = S.asarr(a)
                    k = int(axis) % arr.ndim
                    moved = S.moveaxis(arr, k, arr.ndim - 1)
                    n = arr.shape[k]
                    d = moved.data
                    rows = [d[i:i + n] for i in range(0, len(d), n)]
                    out = [rat(int(bool(anyall(SArr((n,), list(r)))))) for r in rows]
                    return SArr(moved.shape[:-1], out)
                vals = S.asarr(a).data
                # a non-zero polynomial is non-zero for generic values of its symbols
                bs = [(v.const() != 0) if v.is_const() else (not v.is_zero()) for v in vals]
                if any(not v.is_const() and not v.is_zero() for v in vals):
                    I.generic_notes.append(f"np.{name} over generic symbolic data: non-zero polynomials counted as non-zero")
                return any(bs) if name == "any" else all(bs)
            return anyall
        if name == "unique":
            def unique(a, axis=None, return_inverse=False, return_index=False, return_counts=False):
                a = S.asarr(a)
                if axis is None:
                    cols = [SArr((), [x]) for x in a.data]
                    ax = None
                else:
                    ax = int(axis) % a.ndim
                    cols = [a[tuple([slice(None)] * ax + [j])] for j in range(a.shape[ax])]
                reps, inv, first = [], [], []
                for j, c in enumerate(cols):
                    for k, r in enumerate(reps):
                        if all(x == y for x, y in zip(c.data, r.data)):
                            inv.append(k)
                            break
                    else:
                        inv.append(len(reps))
                        reps.append(c)
                        first.append(j)
                if ax is None:
                    u = SArr((len(reps),), [r.data[0] for r in reps])
                else:
                    u = S.concatenate([SArr(r.shape[:ax] + (1,) + r.shape[ax:], list(r.data)) for r in reps], ax) if reps else a
                out = [u]
                if return_index:
                    out.append(SArr((len(first),), [rat(i) for i in first]))
                if return_inverse:
                    out.append(SArr((len(inv),), [rat(i) for i in inv]))
                if return_counts:
                    out.append(SArr((len(reps),), [rat(inv.count(k)) for k in range(len(reps))]))
                I.generic_notes.append("np.unique groups exactly equal symbolic entries, in order of first occurrence")
                return out[0] if len(out) == 1 else tuple(out)
            return unique
        if name == "indices":
            def indices(dimensions, dtype=None, sparse=False):
                if sparse is not False:
                    raise AnalysisAbort("np.indices(sparse=True)")
                shape = tuple(int(self.idx(x)) for x in dimensions)
                grid = SArr(shape, [rat(0)] * _prod(shape))
                idxs = list(grid.indices())
                return SArr((len(shape),) + shape, [rat(i[k]) for k in range(len(shape)) for i in idxs], dtype="int")
            return indices
        if name == "nonzero":
            def nonzero(a):
                a = S.asarr(a)
                idxs = [idx for idx, v in zip(a.indices(), a.data) if not (isinstance(v, Rat) and v.is_zero())]
                return tuple(SArr((len(idxs),), [rat(i[k]) for i in idxs]) for k in range(a.ndim))
            return nonzero
        if name in ("flatnonzero", "argwhere"):
            def fnz(a):
                a = S.asarr(a)
                if not all(v.is_const() for v in a.data):
                    raise AnalysisAbort(f"np.{name} over symbolic data")
                flat = [i for i, v in enumerate(a.data) if v.const() != 0]
                if name == "flatnonzero":
                    return SArr((len(flat),), [rat(i) for i in flat], dtype="int")
                idxs = [idx for idx, v in zip(a.indices(), a.data) if v.const() != 0]       # row-major order of the logical index
                return SArr((len(idxs), a.ndim), [rat(i) for idx in idxs for i in idx], dtype="int")
            return fnz
        if name == "unravel_index":
            def unravel_index(indices, shape, order="C"):
                shape = tuple(int(self.idx(s)) for s in shape)
                flat = S.asarr(indices)
                if order not in ("C", "F"):
                    raise NumpyRaise("ValueError", "only 'C' or 'F' order is permitted")
                cols = [[] for _ in shape]
                n = S._prod(shape)
                for v in flat.data:
                    p = int(self.idx(v))
                    if not 0 <= p < n:
                        raise NumpyRaise("ValueError", f"index {p} is out of bounds for array with size {n}")
                    ax = range(len(shape)) if order == "F" else reversed(range(len(shape)))
                    for k in ax:
                        cols[k].append(p % shape[k])
                        p //= shape[k]
                return tuple(SArr(flat.shape, [rat(i) for i in c], dtype="int") for c in cols)
            return unravel_index
        if name == "arange":
            return lambda *a: SArr.from_nested([int(self.idx(x)) for x in range(*[int(self.idx(v)) for v in a])])
        if name == "isnan":
            return lambda a: S.elementwise(lambda x: rat(1 if (isinstance(x, Rat) and "nan" in x.symbols()) else 0), a)
        if name == "nan_to_num":
            def nan_to_num(a, copy=True, nan=0.0, posinf=None, neginf=None):
                # NaN -> nan (0), +inf -> posinf (the largest finite float), -inf -> neginf; every other entry unchanged
                def one(x):
                    if isinstance(x, Rat) and "nan" in x.symbols():
                        return rat(nan)
                    if isinstance(x, Rat) and x == Rat.sym("inf"):
                        return Rat.sym("float_max") if posinf is None else rat(posinf)
                    if isinstance(x, Rat) and x == -Rat.sym("inf"):
                        return -Rat.sym("float_max") if neginf is None else rat(neginf)
                    if isinstance(x, Rat) and "inf" in x.symbols():
                        raise AnalysisAbort("np.nan_to_num of an expression containing inf")
                    return x
                if not isinstance(a, SArr):
                    return one(rat(a))
                if copy is not True:
                    raise AnalysisAbort("np.nan_to_num(copy=False)")
                return S.elementwise(one, a)
            return nan_to_num
        if name == "heaviside":
            def heaviside(x1, x2):
                # 0 where x1 < 0, x2 where x1 == 0, 1 where x1 > 0
                def one(d, h):
                    gt = self.cmp_scalar("gt", d, 0)
                    if gt is True:
                        return rat(1)
                    if isinstance(gt, bool):        # not positive: zero or negative
                        return rat(h) if self.cmp_scalar("eq", d, 0) is True else rat(0)
                    return gt                       # undecided: generically not exactly zero
                return S.elementwise(one, x1, x2) if isinstance(x1, SArr) or isinstance(x2, SArr) else one(x1, x2)
            return heaviside
        if name == "resize":
            def resize(a, new_shape):
                # the flattened data repeated cyclically (NO broadcasting by axes), in C order
                a = S.asarr(a)
                shape = tuple(int(self.idx(x)) for x in (new_shape if isinstance(new_shape, (tuple, list)) else (new_shape,)))
                n = _prod(shape)
                flat = list(a.data)          # SArr.data is the logical C-order listing
                if not flat:
                    return SArr(shape, [rat(0)] * n, dtype=a.dtype)
                return SArr(shape, [flat[i % len(flat)] for i in range(n)], dtype=a.dtype)
            return resize
        if name == "linspace":
            def linspace(start, stop, num=50, endpoint=True, **k):
                if k:
                    raise AnalysisAbort(f"np.linspace keyword(s) {sorted(k)}")
                n = int(self.idx(num))
                a, b = rat(start), rat(stop)
                if n == 1:
                    return SArr((1,), [a])
                div = (n - 1) if endpoint else n
                return SArr((n,), [a + (b - a) * i / div for i in range(n)])
            return linspace
        if name in ("argmax", "argmin"):
            def argm(a, axis=None, **k):
                if k or axis not in (None, 0, -1):
                    raise AnalysisAbort(f"np.{name} with axis / keywords")
                a = S.asarr(a)
                if a.ndim != 1 or not all(isinstance(v, Rat) and v.is_const() for v in a.data):
                    raise AnalysisAbort(f"np.{name} over symbolic (undecided) values")
                vals = [v.const() for v in a.data]
                best = max(vals) if name == "argmax" else min(vals)
                return rat(vals.index(best))          # the first position of the extremum
            return argm
        if name == "isfinite":
            return lambda a: S.elementwise(lambda x: rat(0 if (isinstance(x, Rat) and ({"nan", "inf"} & set(x.symbols()))) else 1), a)
        if name == "reshape":
            return lambda a, shape, **k: I.sarr_attr(S.asarr(a), "reshape", None)(shape)
        if name == "where":
            def where(c, a=None, b=None):
                if a is None or b is None:
                    raise AnalysisAbort("np.where with one argument")

                def one(cc, x, y):
                    cc, x, y = rat(cc), rat(x), rat(y)
                    if cc.is_const():
                        return x if cc.const() != 0 else y
                    if x == y:
                        return x
                    return fsym("where", cc, x, y)
                return S.elementwise(one, c, a, b)
            return where
        if name in ("minimum", "maximum"):
            def minmax2(a, b, out=None, _n=name[:3], **k):
                if k:
                    raise AnalysisAbort(f"np.{name} keyword(s) {sorted(k)}")
                res = S.elementwise(lambda x, y: I.np_minmax(_n, SArr((2,), [rat(x), rat(y)])), a, b)
                if out is None:
                    return res
                if not isinstance(out, SArr):
                    raise AnalysisAbort(f"np.{name}(out=...) with a non-array target")
                out.setitem(Ellipsis, res)     # the result is written into the given array (which is also what is returned)
                return out
            return minmax2
        if name == "clip":
            def clip(x, lo, hi):
                def one(v, l, h):
                    v = I.np_minmax("max", SArr((2,), [rat(v), rat(l)])) if l is not None else rat(v)
                    return I.np_minmax("min", SArr((2,), [v, rat(h)])) if h is not None else v
                if lo is None or hi is None:
                    raise AnalysisAbort("np.clip with an open bound")
                return S.elementwise(one, x, lo, hi)
            return clip
        if name == "prod":
            def prod(t, **kw):
                r = 1
                for x in (t.data if isinstance(t, SArr) else t):
                    r = r * x
                return r
            return prod
        if name == "shape":
            return lambda a: S.asarr(a).shape
        if name == "finfo":
            return lambda dt=None: FInfo()
        if name in ("float64", "float32", "int8", "int16", "int32", "int64", "intp", "uint8", "uint16", "uint32", "object_", "bool_"):
            return DType("np." + name)
        if name == "flip":
            def flip(a, axis=None):
                key = tuple(slice(None, None, -1) if (axis is None or i == int(axis) % a.ndim) else slice(None) for i in range(a.ndim))
                return a[key].copy() if False else a[key]
            return flip
        if name == "triu" or name == "tril":
            def tri(a, k=0):
                r = a.copy()
                for idx in a.indices():
                    i, j = idx[-2], idx[-1]
                    if (name == "triu" and j - i < k) or (name == "tril" and j - i > k):
                        r.set(idx, 0)
                return r
            return tri
        raise AnalysisAbort(f"np.{name} is not modelled (symbolic arrays)")

    def _builtin(self, name):
        if name == "abs":
            base = super()._builtin(name)

            def ab(v):
                if isinstance(v, (SArr, Rat)):
                    return self.np_attr("abs", None)(v)
                return base(v)
            return ab
        if name == "len":
            base = super()._builtin(name)

            def length(v):
                if isinstance(v, SArr):
                    if v.ndim == 0:
                        raise PyRaise("TypeError", None, "len() of unsized object")
                    return v.shape[0]
                return base(v)
            return length
        if name == "sum":
            def summ(it, start=0):
                tot = start
                for x in self.iterate(it):
                    tot = self.binop(ast.Add(), tot, x, None)
                return tot
            return summ
        if name in ("max", "min"):
            base = super()._builtin(name)

            def mm(*args, default=Ellipsis, key=None):
                vals = self.iterate(args[0]) if len(args) == 1 else list(args)
                if vals and any(isinstance(v, (Rat, SArr)) for v in vals):
                    return self.np_minmax(name, SArr.from_nested([self.unwrap(v) if isinstance(v, SArr) else v for v in vals]))
                return base(*args, default=default, key=key) if default is not Ellipsis else base(*args)
            return mm
        if name == "range":
            base = super()._builtin(name)
            return lambda *a: base(*[self.idx(x) if isinstance(x, (Rat, SArr)) else x for x in a])
        if name == "bool":
            return BT("bool", (bool,), lambda v=False: self.truth(v))
        if name == "float":
            return BT("float", (float,), lambda v=0.0: v if isinstance(v, Rat) else float(v))
        if name == "int":
            # int() of a generic symbolic real: some integer that equals no label
            def to_int(v=0):
                if isinstance(v, Rat):
                    if "nan" in v.symbols():
                        raise ValueError("cannot convert float NaN to integer")
                    return int(v.const()) if v.is_const() else ("int-of", v.canon())
                if type(v).__name__ == "NaNType":
                    raise ValueError("cannot convert float NaN to integer")
                return int(v)
            return BT("int", (int,), to_int)
        if name == "str":
            return BT("str", (str,), lambda v="": ("str-of:" + v.canon()) if isinstance(v, Rat) else self.to_str(v))
        return super()._builtin(name)

    def call(self, f, args, kwargs, node=None):
        if f is NDARRAY:
            shape = args[0] if args else kwargs.get("shape")
            return SArr.full(tuple(shape) if isinstance(shape, (tuple, list)) else (shape,), Rat.sym("uninitialised"))
        return super().call(f, args, kwargs, node)

    def ext_attr(self, m: ExtModule, name, node):
        full = f"{m.name}.{name}"
        if full in self.hooks:
            return self.hooks[full]
        if m.name.startswith("scipy"):
            return ExtModule(full)
        return super().ext_attr(m, name, node)

    def call_ext(self, f: ExtModule, args, kwargs, node):
        if f.name in self.hooks:
            return self.hooks[f.name](*args, **kwargs)
        parts = f.name.split(".")
        if parts[:2] == ["scipy", "stats"] and len(parts) == 4:
            return self.dist_call(parts[2], parts[3], args, kwargs)
        if f.name == "scipy.special.ndtr":
            (x,) = args
            return S.elementwise(lambda v: fsym("ndtr", v, sign="nonneg"), x) if isinstance(x, SArr) else fsym("ndtr", x, sign="nonneg")
        if f.name in ("scipy.linalg.solve_triangular",):
            kw = dict(kwargs)
            ow = kw.pop("overwrite_b", False)
            if kw.pop("check_finite", True):
                for arr in list(args[:2]) + [kw.get("a"), kw.get("b")]:
                    if isinstance(arr, SArr) and any(isinstance(x, Rat) and "nan" in x.symbols() for x in arr.data):
                        raise NumpyRaise("ValueError", "array must not contain infs or NaNs")
            x = S.solve_triangular(*args, **kw)
            if ow and isinstance(args[1] if len(args) > 1 else kw.get("b"), SArr):
                # "allow overwriting data in b": scipy may reuse b's memory for the solution (it does when b is contiguous)
                (args[1] if len(args) > 1 else kw.get("b")).setitem(Ellipsis, x)
            return x
        return super().call_ext(f, args, kwargs, node)

    DIST_SIG = {      # scipy.stats parametrisation: positional shape parameters, then loc, scale
        "norm": [], "foldnorm": ["c"], "lognorm": ["s"], "weibull_min": ["c"], "expon": [], "gamma": ["a"],
    }

    def dist_call(self, dist, method, args, kwargs):
        """scipy.stats.<dist>.<method>(x, *shape, loc=0, scale=1) as an uninterpreted function of its normalised arguments"""
        if dist not in self.DIST_SIG:
            raise AnalysisAbort(f"scipy.stats.{dist} is not in the distribution table of the model")
        names = ["x"] + self.DIST_SIG[dist] + ["loc", "scale"]
        vals = {"loc": 0, "scale": 1}
        if len(args) > len(names):
            raise PyRaise("TypeError", None, f"{dist}.{method}: too many arguments")
        for n, a in zip(names, args):
            vals[n] = a
        for k, v in kwargs.items():
            if k not in names:
                raise PyRaise("TypeError", None, f"{dist}.{method}: unexpected keyword {k}")
            vals[k] = v
        for n in names:
            if n not in vals:
                raise PyRaise("TypeError", None, f"{dist}.{method}: missing {n}")
        order = [vals[n] for n in names]
        self.dist_calls.append((dist, method))

        def one(*xs):
            if dist == "norm" and method in ("sf", "cdf") and not (isinstance(rat(xs[2]), Rat) and rat(xs[2]).is_zero()):
                # the standard normal distribution function of the standardised argument: sf(x; loc, scale) = ndtr(-(x - loc) / scale),
                # so that an implementation through scipy.special.ndtr is the same symbol
                z = (rat(xs[0]) - rat(xs[1])) / rat(xs[2])
                return fsym("ndtr", -z if method == "sf" else z, sign="nonneg")
            return fsym(f"{method}_{dist}", *xs, sign="nonneg")
        if any(isinstance(v, SArr) for v in order):
            return S.elementwise(one, *order)
        return one(*order)


def solve_triangular_hook(a, b, lower=False, **kw):
    return S.solve_triangular(a, b, lower=lower, **kw)
