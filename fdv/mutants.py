"""In-memory mutation operators for the self-audit (thorough tier).  A mutant = one textual edit of one
module of the SourceSet under analysis; when its anchor text is absent from the tree under analysis the
operator is 'not applicable' (never an error)."""
from __future__ import annotations


def apply_mutant(ss, m):
    path = m["path"]
    text = ss.files.get(path)
    if text is None:
        raise LookupError(f"module {path} absent")
    if "find" in m:
        if text.count(m["find"]) < 1:
            raise LookupError("anchor text absent from the tree under analysis")
        new = text.replace(m["find"], m["replace"], m.get("count", 1))
    else:
        new = m["edit"](text)
        if new is None or new == text:
            raise LookupError("edit not applicable")
    try:
        compile(new, path, "exec")
    except SyntaxError as e:
        raise LookupError(f"mutant does not compile: {e}")
    return path, new
