"""fork-based parallel map: workers inherit the parsed Program (copy-on-write), return sub-reports."""
from __future__ import annotations

import multiprocessing as mp
import os

from .core import Report, AnalysisError

_STATE = {}


def _work(i):
    fn, prog, chunks, proto = _STATE["fn"], _STATE["prog"], _STATE["chunks"], _STATE["proto"]
    rep = Report(proto.prop, proto.tier, proto.seed)
    try:
        extra = fn(prog, rep, chunks[i])
    except AnalysisError as e:
        return ("analysis-error", str(e), None)
    return ("ok", rep, extra)


def pmap(fn, chunks, prog, rep: Report, workers=None):
    """fn(prog, subreport, chunk) -> picklable extra ; sub-reports are merged into rep; returns list of extras"""
    chunks = list(chunks)
    workers = min(workers or int(os.environ.get("FDV_WORKERS", "16")), len(chunks)) or 1
    if workers <= 1 or os.environ.get("FDV_SERIAL"):
        out = []
        for c in chunks:
            out.append(fn(prog, rep, c))
        return out
    _STATE.update(fn=fn, prog=prog, chunks=chunks, proto=rep)
    ctx = mp.get_context("fork")
    with ctx.Pool(workers) as pool:
        res = pool.map(_work, range(len(chunks)), chunksize=1)
    extras = []
    for status, sub, extra in res:
        if status != "ok":
            raise AnalysisError(sub)
        rep.merge(sub)
        extras.append(extra)
    return extras


def split(items, n):
    items = list(items)
    n = max(1, min(n, len(items)))
    return [items[i::n] for i in range(n)]
