"""Front end shared by all checks: SourceSet, program index, findings, report/evidence.

Nothing here imports or executes flodym / numpy / pandas / pydantic / scipy.  The repository is
read as text and parsed with `ast` on every run.
"""
from __future__ import annotations

import ast
import hashlib
import json
import os
import pathlib
import re
import time

REPO = pathlib.Path(os.environ.get("FDV_REPO", "/repo"))
PKG = "flodym"
VERIF = pathlib.Path(__file__).resolve().parent.parent


class AnalysisError(Exception):
    """The analysis itself cannot stand (vanished anchor, unsupported construct, floor missed)."""


# --------------------------------------------------------------------------- sources
class SourceSet:
    """{relative path -> text} of the analysed package; in-memory variants for the mutant audit."""

    def __init__(self, files: dict[str, str], origin: str = "memory"):
        self.files = dict(files)
        self.origin = origin
        self._trees: dict[str, ast.Module] = {}

    @classmethod
    def load(cls, repo: pathlib.Path | None = None) -> "SourceSet":
        root = (repo or REPO) / PKG
        if not root.is_dir():
            raise AnalysisError(f"package directory {root} not found")
        files = {}
        for p in sorted(root.rglob("*.py")):
            files[p.relative_to(root).as_posix()] = p.read_text()
        if not files:
            raise AnalysisError(f"no python sources under {root}")
        return cls(files, origin=str(root))

    def variant(self, path: str, new_text: str) -> "SourceSet":
        f = dict(self.files)
        f[path] = new_text
        return SourceSet(f, origin=f"{self.origin}+mutant")

    def tree(self, path: str) -> ast.Module:
        if path not in self._trees:
            if path not in self.files:
                raise AnalysisError(f"module {path} not found in {self.origin}")
            try:
                self._trees[path] = ast.parse(self.files[path], filename=path)
            except SyntaxError as e:
                raise AnalysisError(f"cannot parse {path}: {e}")
        return self._trees[path]

    def digest(self) -> str:
        h = hashlib.sha256()
        for k in sorted(self.files):
            h.update(k.encode())
            h.update(self.files[k].encode())
        return h.hexdigest()[:16]


# --------------------------------------------------------------------------- program index
def deco_names(fn: ast.FunctionDef) -> list[str]:
    return [ast.unparse(d) for d in fn.decorator_list]


class FuncInfo:
    def __init__(self, node: ast.FunctionDef, module: str, cls: "ClassInfo | None" = None):
        self.node, self.module, self.cls = node, module, cls
        self.name = node.name
        self.decos = deco_names(node)

    @property
    def qual(self) -> str:
        return f"{self.cls.name}.{self.name}" if self.cls else self.name

    @property
    def is_property(self) -> bool:
        return any(d in ("property", "cached_property", "functools.cached_property") or d.endswith("computed_field")
                   for d in self.decos)

    @property
    def is_cached_property(self) -> bool:
        return any(d.endswith("cached_property") for d in self.decos)

    @property
    def is_memoised(self) -> bool:
        return any(d.split("(")[0].split(".")[-1] in ("lru_cache", "cache") for d in self.decos)

    KNOWN_DECOS = ("property", "cached_property", "classmethod", "staticmethod", "model_validator", "field_validator", "computed_field",
                   "abstractmethod", "lru_cache", "cache", "override", "final", "overload", "field_serializer", "validate_call",
                   "contextmanager", "singledispatch", "singledispatchmethod", "register")

    @property
    def is_contextmanager(self) -> bool:
        return any(d.split("(")[0].split(".")[-1] == "contextmanager" for d in self.decos)

    @property
    def dispatch_kind(self) -> str | None:
        for d in self.decos:
            b = d.split("(")[0].split(".")[-1]
            if b in ("singledispatch", "singledispatchmethod"):
                return b
        return None

    @property
    def unknown_decorators(self) -> list:
        return [d for d in self.decos if d.split("(")[0].split(".")[-1] not in self.KNOWN_DECOS]

    @property
    def is_classmethod(self) -> bool:
        return "classmethod" in self.decos

    @property
    def is_staticmethod(self) -> bool:
        return "staticmethod" in self.decos

    @property
    def validator_kind(self) -> str | None:
        for d in self.decos:
            if d.startswith("model_validator"):
                return "model_after" if "after" in d else "model_before"
            if d.startswith("field_validator"):
                return "field"
        return None


class ClassInfo:
    def __init__(self, node: ast.ClassDef, module: str):
        self.node, self.module, self.name = node, module, node.name
        self.base_exprs = [ast.unparse(b) for b in node.bases]
        self.methods: dict[str, FuncInfo] = {}
        self.aliases: dict[str, ast.expr] = {}
        self.fields: dict[str, tuple[ast.expr | None, ast.expr | None]] = {}  # name -> (annotation, default)
        self.class_consts: dict[str, ast.expr] = {}
        self.ann_consts: dict[str, ast.expr] = {}      # annotated class attributes with a value (class attributes of a plain class)
        for st in node.body:
            if isinstance(st, ast.FunctionDef):
                self.methods[st.name] = FuncInfo(st, module, self)
            elif isinstance(st, ast.AnnAssign) and isinstance(st.target, ast.Name):
                self.fields[st.target.id] = (st.annotation, st.value)
                if st.value is not None:
                    self.ann_consts[st.target.id] = st.value
            elif isinstance(st, ast.Assign) and len(st.targets) == 1 and isinstance(st.targets[0], ast.Name):
                nm = st.targets[0].id
                if isinstance(st.value, (ast.Name, ast.Attribute)):
                    self.aliases[nm] = st.value
                else:
                    self.class_consts[nm] = st.value
        self.bases: list[ClassInfo] = []       # resolved repo bases
        self.ext_bases: list[str] = []         # unresolved (external) base expressions
        self.is_pydantic = False
        self.decos = [ast.unparse(d) for d in node.decorator_list]

    KNOWN_EXT_BASES = ("pydantic.BaseModel", "abc.ABC", "typing.NamedTuple", "typing.Generic", "typing.Protocol", "object")

    @property
    def deco_names(self):
        return [d.split("(")[0].split(".")[-1] for d in self.decos]

    def own_record_kind(self):
        if any(e.split("[")[0].endswith("NamedTuple") for e in self.ext_bases):
            return "namedtuple"
        if "dataclass" in self.deco_names:
            return "dataclass"
        return None

    def dataclass_options(self) -> dict:
        for d in self.node.decorator_list:
            if isinstance(d, ast.Call) and ast.unparse(d.func).split(".")[-1] == "dataclass":
                return {k.arg: ast.literal_eval(k.value) for k in d.keywords}
        return {}

    def __repr__(self):
        return f"<class {self.name}>"


class ModuleInfo:
    def __init__(self, path: str, tree: ast.Module):
        self.path, self.tree = path, tree
        self.classes: dict[str, ClassInfo] = {}
        self.funcs: dict[str, FuncInfo] = {}
        self.imports: dict[str, tuple[str, str | None]] = {}   # local name -> (module dotted, attr|None)
        self.consts: dict[str, ast.expr] = {}

    @property
    def dotted(self) -> str:
        p = self.path[:-3].replace("/", ".")
        if p.endswith("__init__"):
            p = p[: -len(".__init__")] if "." in p else ""
        return PKG + ("." + p if p else "")


class Program:
    """Resolved view of the package: modules, classes with MRO, functions, import table."""

    def __init__(self, ss: SourceSet):
        self.ss = ss
        self.modules: dict[str, ModuleInfo] = {}
        for path in ss.files:
            tree = ss.tree(path)
            mi = ModuleInfo(path, tree)
            for st in tree.body:
                self._top(st, mi)
            self.modules[path] = mi
        self.by_dotted = {m.dotted: m for m in self.modules.values()}
        self.classes: dict[str, ClassInfo] = {}
        for m in self.modules.values():
            for c in m.classes.values():
                if c.name in self.classes:
                    raise AnalysisError(f"class name {c.name} defined twice ({self.classes[c.name].module}, {m.path})")
                self.classes[c.name] = c
        for c in self.classes.values():
            for b in c.base_exprs:
                r = self.resolve_name(self.modules[c.module], b.split(".")[-1]) if "." not in b else None
                if isinstance(r, ClassInfo):
                    c.bases.append(r)
                else:
                    c.ext_bases.append(self.ext_origin(self.modules[c.module], b))
        for c in self.classes.values():
            c.is_pydantic = any("pydantic" in e and "BaseModel" in e for k in self.mro(c) for e in k.ext_bases)
        for c in self.classes.values():
            # code that runs when a (sub)class is CREATED can rewrite the class (operators, fields, registries): not modelled
            hooks = [m for m in ("__init_subclass__", "__pydantic_init_subclass__", "__set_name__", "__class_getitem__", "__prepare__") if m in c.methods]
            if hooks or any(k.arg == "metaclass" for k in c.node.keywords):
                raise AnalysisError(f"class {c.name} ({c.module}) defines a class-creation hook ({', '.join(hooks) or 'metaclass'}): the classes of the "
                                    f"program may differ from what their bodies say; outside the modelled subset")

    def _top(self, st, mi: ModuleInfo):
        if isinstance(st, ast.ClassDef):
            mi.classes[st.name] = ClassInfo(st, mi.path)
        elif isinstance(st, ast.FunctionDef):
            mi.funcs[st.name] = FuncInfo(st, mi.path)
        elif isinstance(st, ast.Import):
            for a in st.names:
                mi.imports[(a.asname or a.name).split(".")[0]] = (a.name if a.asname else a.name.split(".")[0], None)
        elif isinstance(st, ast.ImportFrom):
            base = st.module or ""
            if st.level:
                pkg_parts = (PKG + "/" + mi.path).split("/")[:-1]
                pkg_parts = pkg_parts[: len(pkg_parts) - (st.level - 1)]
                base = ".".join(pkg_parts + ([st.module] if st.module else []))
            for a in st.names:
                mi.imports[a.asname or a.name] = (base, a.name)
        elif isinstance(st, ast.Assign) and len(st.targets) == 1 and isinstance(st.targets[0], ast.Name):
            mi.consts[st.targets[0].id] = st.value
        elif (isinstance(st, ast.Assign) and len(st.targets) == 1 and isinstance(st.targets[0], (ast.Tuple, ast.List))
              and isinstance(st.value, (ast.Tuple, ast.List)) and len(st.value.elts) == len(st.targets[0].elts)
              and all(isinstance(t, ast.Name) for t in st.targets[0].elts) and not any(isinstance(e, ast.Starred) for e in st.value.elts)):
            for t, e in zip(st.targets[0].elts, st.value.elts):      # A, B = 0, 1
                mi.consts[t.id] = e
        elif isinstance(st, ast.AnnAssign) and isinstance(st.target, ast.Name) and st.value is not None:
            mi.consts[st.target.id] = st.value
        elif isinstance(st, ast.If):      # e.g. `if TYPE_CHECKING:` imports
            for s in st.body + st.orelse:
                self._top(s, mi)

    # -- name resolution ---------------------------------------------------
    def resolve_name(self, mi: ModuleInfo, name: str, _depth=0):
        """-> ClassInfo | FuncInfo | ('ext', dotted) | ('const', expr, ModuleInfo) | None"""
        if name in mi.classes:
            return mi.classes[name]
        if name in mi.funcs:
            return mi.funcs[name]
        if name in mi.consts:
            return ("const", mi.consts[name], mi)
        if name in mi.imports and _depth < 6:
            mod, attr = mi.imports[name]
            target = self.by_dotted.get(mod)
            if attr is None:
                return ("ext", mod) if target is None else ("mod", target)
            if target is not None:
                r = self.resolve_name(target, attr, _depth + 1)
                if r is not None:
                    return r
                sub = self.by_dotted.get(mod + "." + attr)
                if sub is not None:
                    return ("mod", sub)
                return None
            return ("ext", f"{mod}.{attr}")
        return None

    def ext_origin(self, mi: ModuleInfo, expr: str) -> str:
        head, _, rest = expr.partition(".")
        r = self.resolve_name(mi, head)
        if isinstance(r, tuple) and r[0] == "ext":
            return r[1] + ("." + rest if rest else "")
        return expr

    def mro(self, cls: ClassInfo) -> list[ClassInfo]:
        """C3 is not needed for this code base (single repo-base chains plus mixins): left-to-right DFS
        with later duplicates removed, which coincides with C3 for the hierarchies present; verified by
        `check_mro_shape`."""
        out: list[ClassInfo] = []

        def rec(c):
            if c in out:
                out.remove(c)
            out.append(c)
            for b in c.bases:
                rec(b)
        rec(cls)
        return out

    def find_attr(self, cls: ClassInfo, name: str, after: ClassInfo | None = None):
        """-> ('method'|'property', FuncInfo) | ('const', expr, ClassInfo) | None ; `after` for super()"""
        chain = self.mro(cls)
        if after is not None:
            chain = chain[chain.index(after) + 1:]
        for c in chain:
            seen = 0
            nm = name
            while nm in c.aliases and seen < 4:
                tgt = c.aliases[nm]
                seen += 1
                if isinstance(tgt, ast.Name):
                    nm = tgt.id
                    continue
                if isinstance(tgt, ast.Attribute) and isinstance(tgt.value, ast.Name):   # X = Other.method
                    oc = self.resolve_name(self.modules[c.module], tgt.value.id)
                    if isinstance(oc, ClassInfo):
                        r = self.find_attr(oc, tgt.attr)
                        if r:
                            return r
                break
            if nm in c.methods:
                f = c.methods[nm]
                return ("property" if f.is_property else "method", f)
            if nm in c.class_consts:
                return ("const", c.class_consts[nm], c)
            if nm in c.ann_consts and not c.is_pydantic:
                return ("const", c.ann_consts[nm], c)
        return None

    def cls(self, name: str) -> ClassInfo:
        if name not in self.classes:
            raise AnalysisError(f"anchor class {name} not found (renamed or removed?)")
        return self.classes[name]

    def method(self, cls: str, name: str) -> FuncInfo:
        r = self.find_attr(self.cls(cls), name)
        if not r or r[0] == "const":
            raise AnalysisError(f"anchor {cls}.{name} not found (renamed or removed?)")
        return r[1]

    def func(self, module: str, name: str) -> FuncInfo:
        m = self.modules.get(module)
        if m is None or name not in m.funcs:
            raise AnalysisError(f"anchor function {module}:{name} not found")
        return m.funcs[name]

    def all_functions(self):
        for m in self.modules.values():
            for f in m.funcs.values():
                yield f
            for c in m.classes.values():
                for f in c.methods.values():
                    yield f

    def subclasses(self, cls: ClassInfo) -> list[ClassInfo]:
        return [c for c in self.classes.values() if cls in self.mro(c)]

    def model_fields(self, cls: ClassInfo) -> dict[str, tuple[ast.expr | None, ast.expr | None, ClassInfo]]:
        out = {}
        for c in reversed(self.mro(cls)):
            for k, (ann, dflt) in c.fields.items():
                if k in ("model_config", "__pydantic_extra__"):
                    continue
                out[k] = (ann, dflt, c)
        return out

    def validators(self, cls: ClassInfo) -> list[FuncInfo]:
        """after-validators in execution order (base classes first, definition order)."""
        seen, out = set(), []
        for c in reversed(self.mro(cls)):
            for f in c.methods.values():
                if f.validator_kind == "model_after" and f.name not in seen:
                    seen.add(f.name)
                    out.append(self.find_attr(cls, f.name)[1])
        return out

    def model_config_text(self, cls: ClassInfo) -> str:
        for c in self.mro(cls):
            if "model_config" in c.class_consts:
                return ast.unparse(c.class_consts["model_config"])
        return ""


# --------------------------------------------------------------------------- findings / report
def norm_stmt(node_or_text) -> str:
    t = node_or_text if isinstance(node_or_text, str) else ast.unparse(node_or_text)
    t = re.sub(r"\s+", " ", t).strip()
    return t[:160]


class Finding:
    def __init__(self, prop, rule, module, qual, construct, message, line=None, abstract_input=None):
        self.prop, self.rule, self.module, self.qual = prop, rule, module, qual
        self.construct = norm_stmt(construct) if construct is not None else ""
        self.message, self.line, self.abstract_input = message, line, abstract_input

    @property
    def key(self) -> str:
        return f"{self.prop}|{self.rule}|{self.module}|{self.qual}|{self.construct}"

    def to_json(self):
        return {"property": self.prop, "rule": self.rule, "module": self.module, "function": self.qual,
                "construct": self.construct, "line": self.line, "message": self.message,
                "abstract_input": self.abstract_input, "key": self.key}

    def __str__(self):
        loc = f"{PKG}/{self.module}:{self.line}" if self.line else f"{PKG}/{self.module}"
        ai = f" [input {self.abstract_input}]" if self.abstract_input is not None else ""
        return f"{loc} {self.qual}: [{self.rule}] {self.message}{ai}"


class Report:
    """What one check run analysed.  Everything the evidence file says is counted here."""

    def __init__(self, prop: str, tier: str, seed: int):
        self.prop, self.tier, self.seed = prop, tier, seed
        self.t0 = time.time()
        self.findings: list[Finding] = []
        self.obligations = 0
        self.discharged = 0
        self.evaluations = 0
        self.nontrivial: set = set()
        self.samples: list = []
        self.rules: dict[str, dict] = {}      # rule id -> {"text":…, "instances":n, "floor":n}
        self.notes: list[str] = []
        self.assumptions: list[str] = []
        self.unresolved: list[str] = []
        self.exhaustive = None
        self.info: list[str] = []
        self.audit: dict | None = None
        self.extra: dict = {}

    # rules ----------------------------------------------------------------
    def rule(self, rid: str, text: str, floor: int = 0):
        self.rules.setdefault(rid, {"text": text, "instances": 0, "floor": floor, "failed": 0})
        self.rules[rid]["floor"] = max(self.rules[rid]["floor"], floor)
        return rid

    def oblige(self, rid: str, ok: bool, *, where: str = "", what: str = "", distinct=None, sample=None):
        """One obligation examined under rule `rid`."""
        if rid not in self.rules:
            self.rule(rid, rid)
        self.rules[rid]["instances"] += 1
        self.obligations += 1
        if ok:
            self.discharged += 1
        else:
            self.rules[rid]["failed"] += 1
        self.nontrivial.add(distinct if distinct is not None else (rid, where, what))
        if sample is not None and len(self.samples) < 400:
            self.samples.append(sample)
        elif len(self.samples) < 40:
            self.samples.append({"rule": rid, "where": where, "what": what, "verdict": "ok" if ok else "VIOLATED"})

    def merge(self, other: "Report"):
        self.obligations += other.obligations
        self.discharged += other.discharged
        self.evaluations += other.evaluations
        self.nontrivial |= other.nontrivial
        for s in other.samples:
            if len(self.samples) < 400:
                self.samples.append(s)
        for rid, r in other.rules.items():
            mine = self.rules.setdefault(rid, {"text": r["text"], "instances": 0, "floor": r["floor"], "failed": 0})
            mine["instances"] += r["instances"]
            mine["failed"] += r["failed"]
            mine["floor"] = max(mine["floor"], r["floor"])
        for f in other.findings:
            self.add(f)
        self.notes += [n for n in other.notes if n not in self.notes]
        self.unresolved += other.unresolved
        self.info += [n for n in other.info if n not in self.info]

    def add(self, f: Finding):
        if all(g.key != f.key for g in self.findings):
            self.findings.append(f)

    def check_floors(self):
        for rid, r in self.rules.items():
            if r["instances"] < r["floor"]:
                raise AnalysisError(
                    f"rule {rid} examined {r['instances']} instance(s), fewer than the {r['floor']} confirmed by hand "
                    f"on the reference tree - an anchor has vanished; refusing to pass vacuously")

    def evidence(self, level="other", explanation="", violations=0) -> dict:
        import random
        rnd = random.Random(self.seed)
        samples = list(self.samples)
        if len(samples) > 12:
            samples = samples[:4] + rnd.sample(samples[4:], 8)
        cov = {
            "explanation": explanation,
            "obligations": self.obligations,
            "discharged": self.discharged,
            "evaluations": max(self.evaluations, self.obligations),
            "distinct_nontrivial": len(self.nontrivial),
            "rule": "one case = one obligation of a rule at one site / one abstract input; distinct by (rule, site, "
                    "abstract input); non-trivial = carries a check that can fail (sites with nothing to check are not counted)",
            "samples": samples,
            "rules": self.rules,
            "unresolved": sorted(set(self.unresolved))[:40],
            "info": self.info[:40],
            "notes": self.notes[:40],
            "source_digest": self.extra.get("digest"),
            "analysed": self.extra.get("analysed"),
            "findings": [f.to_json() for f in self.findings][:60],
        }
        if self.exhaustive is not None:
            cov["exhaustive"] = bool(self.exhaustive)
        if self.audit is not None:
            cov["mutant_audit"] = self.audit
        for k, v in self.extra.items():
            if k not in cov:
                cov[k] = v
        return {
            "property_id": self.prop, "tier": self.tier, "seed": self.seed, "level": level,
            "coverage": cov, "assumptions": self.assumptions, "wall_s": round(time.time() - self.t0, 3),
            "violations": violations,
        }


def load_known_findings() -> dict:
    p = VERIF / "known_findings.json"
    if not p.exists():
        return {"findings": [], "fixed": []}
    return json.loads(p.read_text())
