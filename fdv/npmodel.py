"""Abstract NumPy for the enumerative evaluator: *labelled tensors*.

An abstract array (AArr) has
  * axes  - each axis is the ordered tuple of *item atoms* it ranges over (a full dimension, a permuted
            subset selected by an index list, ...), or ONE (a broadcastable size-1 axis made by np.newaxis),
            or ('#', n) for an axis whose labels are unknown;
  * term  - a symbolic description of one entry as a function of the items on the axes: leaves are the
            input arrays addressed *by label* (so a stored order does not matter), inner nodes are
            sums over label variables and elementwise operations;
  * buf   - the identity of the memory it lives in (views share it), so aliasing is observable.

Positional operations are interpreted by NumPy's documented rules (broadcasting from the right, einsum
subscripts, advanced indexing).  Whenever an operation would align two axes that range over different
items - which real NumPy reports as a shape error when the lengths differ and silently accepts when
they coincide - the model raises ModelViolation: by construction this is a positional mix-up for *some*
input.  Nothing here imports numpy.
"""
from __future__ import annotations

import itertools
from fractions import Fraction


class ModelViolation(Exception):
    """The analysed code used array positions in a way that is wrong for some input of the abstract class."""


class ModelAbort(Exception):
    """Operation outside the modelled subset of NumPy (the analysis stops: ANALYSIS-ERROR)."""


class NumpyRaise(Exception):
    """Real NumPy would raise here for the generic member of the abstract class."""
    def __init__(self, exc_name, msg):
        self.exc_name, self.msg = exc_name, msg
        super().__init__(f"{exc_name}: {msg}")


ONE = "ONE"


class TInt(int):
    """An int derived from a dimension length or an item position.  `src` = the item tuple it is the
    length of (if any).  Usable as an index, in arithmetic and in ==/!=; ordered comparison or use as a
    branch condition aborts the analysis (the verdict must not depend on the representative lengths)."""
    def __new__(cls, v, src=None):
        o = int.__new__(cls, v)
        o.src = src
        return o

    def __repr__(self):
        return f"T{int(self)}"

    def _arith(self, other, f):
        return TInt(f(int(self), int(other)))

    def __add__(self, o): return self._arith(o, lambda a, b: a + b) if isinstance(o, int) else NotImplemented
    def __radd__(self, o): return self._arith(o, lambda a, b: b + a) if isinstance(o, int) else NotImplemented
    def __sub__(self, o): return self._arith(o, lambda a, b: a - b) if isinstance(o, int) else NotImplemented
    def __rsub__(self, o): return self._arith(o, lambda a, b: b - a) if isinstance(o, int) else NotImplemented
    def __mul__(self, o): return self._arith(o, lambda a, b: a * b) if isinstance(o, int) else NotImplemented
    def __rmul__(self, o): return self._arith(o, lambda a, b: b * a) if isinstance(o, int) else NotImplemented
    def __neg__(self): return TInt(-int(self))
    __hash__ = int.__hash__


class NpInt(TInt):
    """an element taken out of a NumPy integer array (np.int64 / np.intp scalar): behaves like the number, but it is NOT an instance
    of Python's int (isinstance(np.int64(3), int) is False)"""
    def __repr__(self):
        return f"np{int(self)}"


# --------------------------------------------------------------------------- terms
def universe(item) -> str:
    return item[0] if isinstance(item, str) else str(item)


def vkey(items) -> tuple:
    return tuple(sorted(items, key=str))


def t_k(v):
    return ("k", v)


def t_sym(name):
    return ("sym", name)


def t_in(name, axes_items):
    """leaf: array `name` addressed by the labels on its axes"""
    return ("in", name, tuple(sorted((universe(ax[0]), ("v", vkey(ax))) for ax in axes_items)))


def is_const(t, v=None):
    return t[0] == "k" and (v is None or t[1] == v)


def t_add(*ts):
    flat = []
    for t in ts:
        if t[0] == "add":
            flat.extend(t[1])
        elif is_const(t, 0):
            continue
        else:
            flat.append(t)
    consts = [t for t in flat if t[0] == "k" and isinstance(t[1], (int, Fraction))]
    rest = [t for t in flat if t not in consts]
    if consts:
        c = sum(Fraction(t[1]) for t in consts)
        if c != 0:
            rest.append(("k", int(c) if c.denominator == 1 else c))
    if not rest:
        return ("k", 0)
    if len(rest) == 1:
        return rest[0]
    return ("add", tuple(sorted(rest, key=repr)))


def t_neg(t):
    if t[0] == "neg":
        return t[1]
    if t[0] == "k" and isinstance(t[1], (int, Fraction)):
        return ("k", -t[1])
    if t[0] == "add":
        return t_add(*[t_neg(x) for x in t[1]])
    return ("neg", t)


def t_mul(*ts):
    flat, sign = [], 1
    for t in ts:
        if t[0] == "mul":
            flat.extend(t[1])
        else:
            flat.append(t)
    out = []
    c = Fraction(1)
    for t in flat:
        if t[0] == "neg":
            sign = -sign
            t = t[1]
        if t[0] == "k" and isinstance(t[1], (int, Fraction)):
            c *= Fraction(t[1])
        elif t[0] == "k" and isinstance(t[1], float) and t[1] == int(t[1]):
            c *= Fraction(int(t[1]))
        else:
            out.append(t)
    if c == 0:
        return ("k", 0)
    if c < 0:
        sign, c = -sign, -c
    if c != 1:
        out.append(("k", int(c) if c.denominator == 1 else c))
    if not out:
        r = ("k", 1)
    elif len(out) == 1:
        r = out[0]
    else:
        r = ("mul", tuple(sorted(out, key=repr)))
    return t_neg(r) if sign < 0 else r


def t_recip(t):
    if t[0] == "recip":
        return t[1]
    if t[0] == "k" and isinstance(t[1], (int, Fraction)) and not isinstance(t[1], bool) and t[1] != 0:
        f = 1 / Fraction(t[1])
        return ("k", int(f) if f.denominator == 1 else f)
    if t[0] == "k" and isinstance(t[1], float) and t[1] in (1.0, -1.0):
        return ("k", int(t[1]))
    if t[0] == "neg":
        return t_neg(t_recip(t[1]))
    return ("recip", t)


def t_fn(name, *ts):
    if name in ("minimum", "maximum"):
        ts = tuple(sorted(ts, key=repr))
    return ("fn", name, tuple(ts))


def free_vars(t) -> set:
    h = t[0]
    if h == "in":
        return {sel[1] for _, sel in t[2] if sel[0] == "v"}
    if h in ("k", "sym"):
        return set()
    if h in ("add", "mul"):
        s = set()
        for x in t[1]:
            s |= free_vars(x)
        return s
    if h in ("neg", "recip"):
        return free_vars(t[1])
    if h == "fn":
        s = set()
        for x in t[2]:
            s |= free_vars(x)
        return s
    if h == "sum":
        return free_vars(t[2]) - set(t[1])
    if h == "cumsum":
        return free_vars(t[2]) | {vkey(t[1])}
    if h == "upd":
        s = free_vars(t[1]) | free_vars(t[3])
        for _, sel in t[2]:
            if sel[0] == "v":
                s.add(sel[1])
        return s
    raise ModelAbort(f"free_vars of {h}")


def t_sum(vars_, t):
    vars_ = set(vars_) & free_vars(t) | (set(vars_) - free_vars(t))
    if not vars_:
        return t
    if t[0] == "add":          # summation is linear: sum(a + b) = sum(a) + sum(b)
        return t_add(*[t_sum(vars_, x) for x in t[1]])
    if t[0] == "sum":
        return ("sum", tuple(sorted(set(t[1]) | vars_, key=repr)), t[2])
    if is_const(t, 0):
        return t
    if t[0] == "neg":
        return t_neg(t_sum(vars_, t[1]))
    return ("sum", tuple(sorted(vars_, key=repr)), t)


def subst(t, m: dict):
    """substitute label variables: m maps key -> ('v', key') | ('c', item)"""
    h = t[0]
    if h == "in":
        return ("in", t[1], tuple(sorted((u, m.get(sel[1], sel) if sel[0] == "v" else sel) for u, sel in t[2])))
    if h in ("k", "sym"):
        return t
    if h == "add":
        return t_add(*[subst(x, m) for x in t[1]])
    if h == "mul":
        return t_mul(*[subst(x, m) for x in t[1]])
    if h == "neg":
        return t_neg(subst(t[1], m))
    if h == "recip":
        return t_recip(subst(t[1], m))
    if h == "fn":
        return t_fn(t[1], *[subst(x, m) for x in t[2]])
    if h == "sum":
        m2 = {k: v for k, v in m.items() if k not in t[1]}
        return ("sum", t[1], subst(t[2], m2))
    if h == "cumsum":
        k = vkey(t[1])
        if k in m:
            raise ModelAbort("substitution into a cumulated axis")
        return ("cumsum", t[1], subst(t[2], m))
    if h == "upd":
        sel = []
        for u, s in t[2]:
            if s[0] == "v" and s[1] in m:
                raise ModelAbort("substitution into an updated region")
            sel.append((u, s))
        return ("upd", subst(t[1], m), tuple(sel), subst(t[3], m))
    raise ModelAbort(f"subst in {h}")


def show(t, depth=0) -> str:
    h = t[0]
    if h == "stack":
        return "stack(" + "; ".join(show(x, depth + 1) for x in t[2][:3]) + ")"
    if h == "in":
        ix = ",".join((u if s[0] == "v" and len(s[1]) > 0 and False else (f"{u}∈{{{','.join(map(str, s[1]))}}}" if s[0] == "v" else str(s[1]))) for u, s in t[2])
        return f"{t[1]}[{ix}]"
    if h == "k":
        return str(t[1])
    if h == "sym":
        return str(t[1])
    if h == "add":
        return "(" + " + ".join(show(x) for x in t[1]) + ")"
    if h == "mul":
        return "(" + " * ".join(show(x) for x in t[1]) + ")"
    if h == "neg":
        return "-" + show(t[1])
    if h == "recip":
        return "1/" + show(t[1])
    if h == "fn":
        return f"{t[1]}(" + ", ".join(show(x) for x in t[2]) + ")"
    if h == "sum":
        return "Σ_{" + ";".join(universe(k[0]) + "∈{" + ",".join(map(str, k)) + "}" for k in t[1]) + "} " + show(t[2])
    if h == "cumsum":
        return "cumsum_{" + ",".join(map(str, t[1])) + "} " + show(t[2])
    if h == "upd":
        return f"update({show(t[1])} ; region {t[2]} := {show(t[3])})"
    return repr(t)


# --------------------------------------------------------------------------- arrays
class Buf:
    _ids = itertools.count(1)

    def __init__(self, origin=""):
        self.bid, self.writes, self.origin = next(Buf._ids), 0, origin
        self.view_writer = None     # the view through which the memory was last written (every other holder's term is stale then)

    def __repr__(self):
        return f"buf#{self.bid}({self.origin})"


def axis_len(ax) -> int:
    if ax == ONE:
        return 1
    if isinstance(ax, tuple) and ax and ax[0] == "#":
        return ax[1]
    return len(ax)


def is_labelled(ax) -> bool:
    return ax != ONE and not (isinstance(ax, tuple) and ax and ax[0] == "#")


class AArr:
    __slots__ = ("axes", "term", "buf", "view", "stamp", "dtype", "origin")

    def __init__(self, axes, term, buf=None, view=False, dtype="float", origin=None):
        self.axes = tuple(axes)
        keys = [vkey(a) for a in self.axes if is_labelled(a)]
        if len(keys) != len(set(keys)) and term is not None and free_vars(term):
            raise ModelAbort(f"array with two axes over the same items {self.axes}: outside the modelled class")
        self.term = term
        self.buf = buf if buf is not None else Buf("fresh")
        self.view = view
        self.stamp = self.buf.writes
        self.dtype = dtype
        self.origin = origin        # for a view: (the array it was taken from, label substitution or None) - a view sees later writes

    # ---- numpy attributes
    @property
    def shape(self):
        return tuple(TInt(len(a), src=a) if is_labelled(a) else (1 if a == ONE else TInt(a[1])) for a in self.axes)

    @property
    def ndim(self):
        return len(self.axes)

    def check_fresh(self):
        if self.view and self.buf.writes != self.stamp:
            o = self.origin
            if o is not None and o[0].buf is self.buf and self.buf.view_writer is None:
                base, m = o
                base.check_fresh()
                self.term = subst(base.term, m) if m else base.term       # the view shows what its base holds now
                self.stamp = self.buf.writes
                return
            raise ModelAbort("a view is read after its base array was written: outside the modelled subset")
        if self.buf.view_writer is not None and self.buf.view_writer is not self:
            raise ModelAbort("an array is read after its memory was written through a view of it: outside the modelled subset")

    def __repr__(self):
        return f"AArr(axes={['ONE' if a == ONE else a for a in self.axes]}, {show(self.term)}, {self.buf}{' view' if self.view else ''})"

    def desc(self):
        return {"axes": [list(a) if isinstance(a, tuple) else a for a in self.axes], "entry": show(self.term)}


class SymScalar:
    """A real number known only symbolically (a user-supplied Number, a total, a 0-d result)."""
    __slots__ = ("term",)

    def __init__(self, term):
        self.term = term

    def __repr__(self):
        return f"Scalar({show(self.term)})"


def leaf(name, axes_items, origin=None) -> AArr:
    axes = [tuple(a) for a in axes_items]
    return AArr(axes, t_in(name, axes), Buf(origin or name))


def as_term(v):
    if isinstance(v, AArr):
        v.check_fresh()
        return v.term
    if isinstance(v, SymScalar):
        return v.term
    if isinstance(v, bool):
        return ("k", int(v))
    if isinstance(v, (int, float, Fraction)):
        if isinstance(v, float) and v == int(v):
            return ("k", int(v))
        return ("k", v)
    raise ModelAbort(f"value {type(v).__name__} used as a number")


def axes_of(v):
    return v.axes if isinstance(v, AArr) else ()


def _unify(a, b, what):
    """two axes that NumPy lines up -> resulting axis"""
    if a == b:
        return a
    if a == ONE:
        return b
    if b == ONE:
        return a
    la, lb = axis_len(a), axis_len(b)
    if la != lb and 1 in (la, lb) and is_labelled(a) and is_labelled(b):
        one, many = (a, b) if la == 1 else (b, a)
        raise ModelViolation(
            f"{what} stretches an axis over the single item {list(one)} along an axis over items {list(many)}: NumPy broadcasts a "
            f"length-1 axis silently, so the value of that one item is used for every item")
    if la != lb and 1 in (la, lb):
        return a if lb == 1 else b      # NumPy broadcasting of a length-1 axis
    if la != lb:
        raise NumpyRaise("ValueError", f"{what}: operands could not be broadcast together (lengths {la} and {lb})")
    raise ModelViolation(
        f"{what} lines up an axis over items {list(a)} with an axis over items {list(b)}: same length, different "
        f"labels - values are combined by position, not by label (silent for equal lengths, a shape error otherwise)")


def broadcast(axes_list, what="elementwise operation"):
    n = max((len(a) for a in axes_list), default=0)
    out = []
    for k in range(1, n + 1):
        cur = ONE
        for ax in axes_list:
            if len(ax) >= k:
                cur = _unify(cur, ax[-k], what)
        out.append(cur)
    return tuple(reversed(out))


def _result(axes, term, dtype="float"):
    return AArr(axes, term, Buf("result"), dtype=dtype)


def common_dtype(ops) -> str:
    """"int" only when every operand is an integer array or a Python int (NumPy's result type is then an integer type)"""
    arrs = [o for o in ops if isinstance(o, AArr)]
    if arrs and all(o.dtype == "int" for o in arrs) and all(isinstance(o, AArr) or (isinstance(o, int) and not isinstance(o, bool)) for o in ops):
        return "int"
    return "float"


def elementwise(fname, *args):
    """fname in add sub mul div pow neg abs sign minimum maximum + opaque unary names"""
    axes = broadcast([axes_of(a) for a in args], f"elementwise {fname}")
    ts = [as_term(a) for a in args]
    if fname == "add":
        t = t_add(*ts)
    elif fname == "sub":
        t = t_add(ts[0], t_neg(ts[1]))
    elif fname == "mul":
        t = t_mul(*ts)
    elif fname == "div":
        t = t_mul(ts[0], t_recip(ts[1]))
    elif fname == "neg":
        t = t_neg(ts[0])
    elif fname in ("abs", "sign") and ts[0][0] == "k" and isinstance(ts[0][1], (int, float, Fraction)):
        t = ("k", abs(ts[0][1]) if fname == "abs" else (ts[0][1] > 0) - (ts[0][1] < 0))
    else:
        t = t_fn(fname, *ts)
    if not any(isinstance(a, AArr) for a in args):
        return SymScalar(t)
    return _result(axes, t, common_dtype(args) if fname in ("add", "sub", "mul", "neg", "abs", "sign", "minimum", "maximum") else "float")


def with_out(result, out):
    """ufunc(..., out=arr): the result is written into `arr` (which is returned)"""
    if out is None:
        return result
    if not isinstance(out, AArr):
        raise ModelAbort("out= is not an array")
    setitem(out, Ellipsis, result)
    return out


def zeros(shape, value=0, what="np.zeros"):
    axes = []
    if isinstance(shape, (int,)):
        shape = (shape,)
    for s in shape:
        src = getattr(s, "src", None)
        if src is not None:
            axes.append(tuple(src))
        elif int(s) == 1 and not isinstance(s, TInt):
            axes.append(ONE)
        else:
            axes.append(("#", int(s)))
    return AArr(axes, as_term(value) if not isinstance(value, AArr) else None, Buf(what))


def resize(a, shape):
    """np.resize(a, shape): the FLATTENED data of a repeated cyclically until the new shape is filled.  This keeps every entry under its
    labels exactly when the array's own axes are the trailing axes of the new shape (the repetition then runs over the leading, new
    axes); in every other arrangement entries end up under other labels"""
    tgt = zeros(shape, 0, "np.resize")
    if not isinstance(a, AArr):
        tgt.term = as_term(a)
        return tgt
    a.check_fresh()
    own = [x for x in a.axes]
    k = len(tgt.axes) - len(own)
    if k >= 0 and [repr(x) for x in tgt.axes[k:]] == [repr(x) for x in own] and all(is_labelled(x) or x == ONE for x in tgt.axes):
        return AArr(tgt.axes, a.term, Buf("np.resize"), dtype=a.dtype)
    if axis_lens(tgt.axes) == axis_lens(own):
        raise ModelAbort("np.resize to the same shape with other axes")
    raise ModelViolation(f"np.resize repeats the flattened data: an array over {show_axes(own)} resized to {show_axes(tgt.axes)} puts entries under other labels "
                         f"(it is a broadcast only when the array's axes are the trailing axes of the new shape)")


def axis_lens(axes):
    return [axis_len(x) for x in axes]


def show_axes(axes):
    return "(" + ", ".join((str(x[0])[:1] + "…" if is_labelled(x) else "1" if x == ONE else f"#{x[1]}") for x in axes) + ")"


def full(shape, fill, what="np.full"):
    a = zeros(shape, 0, what)
    if isinstance(fill, AArr):
        ax = broadcast([a.axes, fill.axes], what)
        if ax != a.axes:
            raise NumpyRaise("ValueError", f"{what}: could not broadcast fill value to shape")
        a.term = as_term(fill)
        a.dtype = fill.dtype
    else:
        a.term = as_term(fill)
        if isinstance(fill, int) and not isinstance(fill, bool):
            a.dtype = "int"         # np.full(shape, 1) is an INTEGER array (the dtype follows the fill value)
    return a


def like(a: AArr, fill, what):
    a.check_fresh()
    r = AArr(a.axes, ("k", 0), Buf(what))
    if isinstance(fill, AArr):
        ax = broadcast([a.axes, fill.axes], what)
        if ax != a.axes:
            raise NumpyRaise("ValueError", f"{what}: could not broadcast fill value")
    r.term = as_term(fill)
    return r


def copy_arr(a: AArr, what="copy") -> AArr:
    a.check_fresh()
    return AArr(a.axes, a.term, Buf(what), dtype=a.dtype)


def parse_subs(s: str):
    out, i = [], 0
    while i < len(s):
        if s.startswith("...", i):
            out.append("...")
            i += 3
        elif s[i] == " ":
            i += 1
        else:
            out.append(s[i])
            i += 1
    return out


def einsum(spec: str, *ops):
    if not isinstance(spec, str):
        raise ModelAbort("einsum with a non-string specification")
    if "->" in spec:
        ins, out = spec.split("->")
        out = parse_subs(out)
    else:
        ins, out = spec, None
    ins = [parse_subs(x) for x in ins.split(",")]
    if len(ins) != len(ops):
        raise NumpyRaise("ValueError", "einsum: number of operands does not match the subscripts")
    bind: dict[str, tuple] = {}
    ell_axes = None
    terms = []
    for sub, op in zip(ins, ops):
        if not isinstance(op, AArr):
            if isinstance(op, (SymScalar, int, float)) and not sub:
                terms.append(as_term(op))
                continue
            raise ModelAbort(f"einsum operand of type {type(op).__name__}")
        op.check_fresh()
        axes = list(op.axes)
        if "..." in sub:
            k = sub.index("...")
            n_named = len(sub) - 1
            if len(axes) < n_named:
                raise NumpyRaise("ValueError", "einsum: operand has too few dimensions for its subscripts")
            ell = axes[k: len(axes) - (n_named - k)]
            named = list(zip(sub[:k], axes[:k])) + list(zip(sub[k + 1:], axes[len(axes) - (n_named - k):]))
            if ell_axes is None:
                ell_axes = tuple(ell)
            else:
                ell_axes = broadcast([ell_axes, tuple(ell)], "einsum ellipsis")
        else:
            if len(sub) != len(axes):
                raise NumpyRaise("ValueError", f"einsum: operand with {len(axes)} axes given {len(sub)} subscripts '{''.join(sub)}'")
            named = list(zip(sub, axes))
        seen = set()
        for letter, ax in named:
            if letter in seen:
                raise ModelAbort("einsum with a repeated subscript on one operand (diagonal)")
            seen.add(letter)
            if letter in bind:
                bind[letter] = _unify(bind[letter], ax, f"einsum subscript '{letter}'")
            else:
                bind[letter] = ax
        terms.append(op.term)
    if out is None:
        counts = {}
        for sub in ins:
            for l in sub:
                counts[l] = counts.get(l, 0) + 1
        out = (["..."] if any("..." in s for s in ins) else []) + sorted(l for l, c in counts.items() if c == 1 and l != "...")
    out_axes = []
    for l in out:
        if l == "...":
            out_axes.extend(ell_axes or ())
        elif l not in bind:
            raise NumpyRaise("ValueError", f"einsum: output subscript '{l}' does not appear in the inputs")
        else:
            out_axes.append(bind[l])
    if len(set(x for x in out if x != "...")) != len([x for x in out if x != "..."]):
        raise NumpyRaise("ValueError", "einsum: output subscript repeated")
    summed = [bind[l] for l in bind if l not in out]
    t = t_mul(*terms) if len(terms) > 1 else terms[0]
    anon = [a for a in summed if not is_labelled(a) and a != ONE]
    if anon:
        raise ModelAbort("einsum sums over an unlabelled axis")
    t = t_sum({vkey(a) for a in summed if is_labelled(a)}, t)
    n_arr = sum(isinstance(o, AArr) for o in ops)
    if n_arr == 1 and not summed:
        base = next(o for o in ops if isinstance(o, AArr))
        return AArr(out_axes, t, base.buf, view=True, dtype=base.dtype, origin=(base, None))      # a one-operand einsum without reduction is a view
    return AArr(out_axes, t, Buf("einsum"), dtype=common_dtype(ops))


# ---- indexing --------------------------------------------------------------------------------------
class Mesh:
    """k-th of m open-mesh index arrays made by np.ix_ (or by reshaping a 1-d position array to shape (1,..,n,..,1))"""
    def __init__(self, k, m, positions):
        self.k, self.m, self.positions = k, m, list(positions)

    def __repr__(self):
        return f"Mesh({self.k}/{self.m},{self.positions})"

    @property
    def shape(self):
        return tuple(len(self.positions) if i == self.k else 1 for i in range(self.m))

    @property
    def ndim(self):
        return self.m


class IdxArr:
    """a 1-d integer array of item positions (np.asarray(list of positions))"""
    def __init__(self, positions):
        self.positions = list(positions)

    @property
    def shape(self):
        return (len(self.positions),)

    @property
    def ndim(self):
        return 1

    def reshape(self, *shape):
        shape = shape[0] if len(shape) == 1 and isinstance(shape[0], (tuple, list)) else shape
        shape = [int(x) for x in shape]
        n = len(self.positions)
        if -1 in shape:
            shape[shape.index(-1)] = n
        big = [i for i, x in enumerate(shape) if x != 1]
        prod = 1
        for x in shape:
            prod *= x
        if prod != n:
            raise NumpyRaise("ValueError", f"cannot reshape array of size {n} into shape {tuple(shape)}")
        if len(big) > 1:
            raise ModelAbort("index array reshaped to more than one long axis")
        return Mesh(big[0] if big else None, len(shape), self.positions)       # all-ones shape: the long axis is anyone's guess

    @property
    def size(self):
        return len(self.positions)

    def __len__(self):
        return len(self.positions)

    def __iter__(self):
        return iter([x if isinstance(x, bool) else NpInt(x, getattr(x, "src", None)) for x in self.positions])

    def __getitem__(self, k):
        if isinstance(k, slice):
            return IdxArr(self.positions[k])
        if isinstance(k, IdxArr):
            if all(isinstance(x, bool) for x in k.positions):
                if len(k.positions) != len(self.positions):
                    raise NumpyRaise("IndexError", "boolean index did not match indexed array")
                return IdxArr([p for p, b in zip(self.positions, k.positions) if b])
            return IdxArr([self.positions[int(i)] for i in k.positions])
        if isinstance(k, (list, tuple)) and all(isinstance(i, int) and not isinstance(i, bool) for i in k) and isinstance(k, list):
            return IdxArr([self.positions[int(i)] for i in k])
        if isinstance(k, int) and not isinstance(k, bool):
            n = len(self.positions)
            if not -n <= int(k) < n:
                raise NumpyRaise("IndexError", f"index {int(k)} is out of bounds for axis 0 with size {n}")
            x = self.positions[int(k)]
            return x if isinstance(x, bool) else NpInt(x, getattr(x, "src", None))
        raise ModelAbort(f"index array subscripted with {type(k).__name__}")

    def __repr__(self):
        return f"IdxArr({self.positions})"


NEWAXIS = None


def _norm_index(a: AArr, idx):
    if not isinstance(idx, tuple):
        idx = (idx,)
    idx = list(idx)
    n_real = sum(1 for x in idx if x is not None and x is not Ellipsis)
    if sum(1 for x in idx if x is Ellipsis) > 1:
        raise NumpyRaise("IndexError", "an index can only have a single ellipsis")
    if Ellipsis in idx:
        k = idx.index(Ellipsis)
        idx[k:k + 1] = [slice(None)] * (a.ndim - n_real)
    else:
        idx += [slice(None)] * (a.ndim - n_real)
    if sum(1 for x in idx if x is not None) > a.ndim:
        raise NumpyRaise("IndexError", f"too many indices for array with {a.ndim} dimensions")
    return idx


def _positions(ax, sel, what):
    """items selected on axis `ax` by a list of positions"""
    n = axis_len(ax)
    out = []
    for p in sel:
        p = int(p)
        if p < -n or p >= n:
            raise NumpyRaise("IndexError", f"{what}: index {p} out of bounds for axis of length {n}")
        out.append(ax[p] if is_labelled(ax) else p)
    return out


def index_plan(a: AArr, idx):
    """-> (result_axes, substitution, is_basic).  Implements NumPy's indexing rule on kinds."""
    idx = _norm_index(a, idx)
    src_axes = list(a.axes)
    per = []          # (kind, source axis index | None, payload)
    k = 0
    for x in idx:
        if x is None:
            per.append(("new", None, None))
            continue
        ax = src_axes[k]
        if isinstance(x, slice):
            if x == slice(None) or (x.start in (None, 0) and x.stop is None and x.step in (None, 1)):
                per.append(("slice", k, None))
            else:
                n_ax = axis_len(ax)
                try:
                    rng = range(*slice(*[None if v is None else int(v) for v in (x.start, x.stop, x.step)]).indices(n_ax))
                except (TypeError, ValueError) as e:
                    raise NumpyRaise("TypeError", f"slice indices: {e}")
                pos = list(rng)
                if pos == list(range(n_ax)):
                    per.append(("slice", k, None))
                elif not is_labelled(ax):
                    per.append(("pslice", k, ("#", len(pos))))
                else:
                    per.append(("pslice", k, tuple(ax[p] for p in pos)))
        elif isinstance(x, bool):
            raise ModelAbort("boolean index")
        elif isinstance(x, int):
            per.append(("int", k, _positions(ax, [x], "index")[0]))
        elif isinstance(x, Mesh):
            per.append(("mesh", k, x))
        elif isinstance(x, IdxArr):
            per.append(("list", k, _positions(ax, x.positions, "index array")))
        elif isinstance(x, (list, tuple)):
            if any(isinstance(p, (list, tuple)) for p in x):
                raise ModelAbort("nested index list")
            per.append(("list", k, _positions(ax, x, "index list")))
        elif isinstance(x, AArr):
            raise ModelAbort("array-valued index")
        else:
            raise ModelAbort(f"index element of type {type(x).__name__}")
        k += 1
    arrays = [i for i, p in enumerate(per) if p[0] in ("list", "mesh")]
    adv = [i for i, p in enumerate(per) if p[0] in ("list", "mesh", "int")]
    m = {}
    for kind, sa, pay in per:
        if kind == "int":
            ax = src_axes[sa]
            if is_labelled(ax):
                m[vkey(ax)] = ("c", pay)
    for kind, sa, pay in per:
        if kind == "pslice" and is_labelled(src_axes[sa]):
            if not pay:
                raise ModelAbort("empty slice of a labelled axis")
            m[vkey(src_axes[sa])] = ("v", vkey(pay))
    if not arrays:
        out = []
        for kind, sa, pay in per:
            if kind == "new":
                out.append(ONE)
            elif kind == "slice":
                out.append(src_axes[sa])
            elif kind == "pslice":
                out.append(pay)
        return tuple(out), m, True
    lists = [i for i in arrays if per[i][0] == "list"]
    meshes = [i for i in arrays if per[i][0] == "mesh"]
    if lists and meshes:
        raise ModelAbort("index mixes plain lists and open-mesh arrays")
    bdims = []
    if lists:
        if len(lists) > 1:
            lens = {len(per[i][2]) for i in lists}
            if len(lens) > 1:
                raise NumpyRaise("IndexError", "shape mismatch: indexing lists could not be broadcast together")
            raise ModelViolation(
                f"index lists on axes {[per[i][1] for i in lists]} are combined element by element by NumPy (zipped), "
                f"not as an outer product: the addressed entries are not the labelled region")
        i = lists[0]
        bdims = [(per[i][1], per[i][2])]
    else:
        mm = per[meshes[0]][2].m
        # a one-element mesh array has shape (1,...,1): it fits any free slot of the open mesh (the result is the same)
        taken = {per[i][2].k for i in meshes if per[i][2].k is not None}
        free = [k for k in range(mm) if k not in taken]
        for i in meshes:
            if per[i][2].k is None:
                per[i] = (per[i][0], per[i][1], Mesh(free.pop(0) if free else 0, per[i][2].m, per[i][2].positions))
        ks = sorted(per[i][2].k for i in meshes)
        if any(per[i][2].m != mm for i in meshes) or ks != list(range(mm)):
            raise ModelAbort("inconsistent open mesh in index")
        bd = [None] * mm
        for i in meshes:
            ms = per[i][2]
            bd[ms.k] = (per[i][1], _positions(src_axes[per[i][1]], ms.positions, "mesh index"))
        bdims = bd
    baxes = []
    for sa, items in bdims:
        ax = src_axes[sa]
        if is_labelled(ax):
            new = tuple(items)
            if len(set(new)) != len(new):
                raise ModelAbort("index list selects an item twice")
            if vkey(new) != vkey(ax):       # selecting every item (in any order) does not restrict the label variable
                m[vkey(ax)] = ("v", vkey(new))
            baxes.append(new)
        else:
            baxes.append(("#", len(items)))
    adjacent = all(per[i][0] in ("list", "mesh", "int") for i in range(adv[0], adv[-1] + 1))
    basic_out = []   # (position in per, axis)
    for i, (kind, sa, pay) in enumerate(per):
        if kind == "new":
            basic_out.append((i, ONE))
        elif kind == "slice":
            basic_out.append((i, src_axes[sa]))
        elif kind == "pslice":
            basic_out.append((i, pay))
    if adjacent:
        before = [ax for i, ax in basic_out if i < adv[0]]
        after = [ax for i, ax in basic_out if i > adv[0]]
        out = before + baxes + after
    else:
        out = baxes + [ax for _, ax in basic_out]
    return tuple(out), m, False


def getitem(a: AArr, idx):
    a.check_fresh()
    axes, m, basic = index_plan(a, idx)
    t = subst(a.term, m) if m else a.term
    if basic:
        return AArr(axes, t, a.buf, view=True, dtype=a.dtype, origin=(a, m or None))
    return AArr(axes, t, Buf("advanced index"), dtype=a.dtype)


def _alias_chain(a: AArr):
    """the arrays this view shows WHOLE, entry by entry (a view taken without any selection - the same memory under the same
    labels, possibly with the axes in another order): a store through the view is a store into each of them"""
    out, cur = [], a
    while cur.view and cur.origin is not None and cur.origin[1] is None and cur.origin[0].buf is cur.buf \
            and sorted(map(repr, (x for x in cur.axes if x != ONE))) == sorted(map(repr, (x for x in cur.origin[0].axes if x != ONE))):
        cur = cur.origin[0]
        out.append(cur)
    return out if not cur.view else None        # None: the chain does not end in the owner of the memory


def _store_through_alias(a: AArr):
    """after a store through view `a`: when `a` shows its base whole, the base holds the same entries now (no stale holder)"""
    chain = _alias_chain(a)
    if not chain:
        return False
    for b in chain:
        b.term = a.term
        b.stamp = a.buf.writes
    return True


def setitem(a: AArr, idx, value):
    """a[idx] = value : NumPy assigns value broadcast to the shape of a[idx]"""
    a.check_fresh()
    if isinstance(idx, AArr):
        # boolean mask of the array's own shape: a[mask] = scalar
        if tuple(idx.axes) != tuple(a.axes) or isinstance(value, AArr):
            raise ModelAbort("array-valued index other than a same-shape boolean mask with a scalar value")
        a.term = t_fn("where", idx.term, as_term(value), a.term)
        a.buf.writes += 1
        a.stamp = a.buf.writes
        if a.view and not _store_through_alias(a):
            a.buf.view_writer = a
        return
    if a.view:
        # the write reaches the base array's memory; only this view's entries are tracked from here on (any other holder of
        # the memory aborts when read), which is enough to see THAT the memory was written
        axes0 = index_plan(a, idx)[0]
        if idx is not Ellipsis and not (isinstance(idx, tuple) and all(x is Ellipsis or x == slice(None) for x in idx)):
            raise ModelAbort("partial store through a view: outside the modelled subset")
        a.buf.view_writer = a
    axes, m, basic = index_plan(a, idx)
    vax = axes_of(value)
    res = broadcast([axes, vax], "assignment into an indexed region")
    if tuple(res) != tuple(axes):
        if len(res) != len(axes) or any(axis_len(x) != axis_len(y) for x, y in zip(res, axes)):
            raise NumpyRaise("ValueError", "could not broadcast input array into the indexed region")
    vt = as_term(value)
    if a.dtype == "int" and not (isinstance(value, int) or (isinstance(value, AArr) and value.dtype in ("int", "bool"))):
        vt = t_fn("trunc", vt)      # NumPy casts on assignment: a float stored into an integer array loses its fraction
    whole = not m and all(is_labelled(x) or x == ONE for x in axes) and [x for x in axes if x != ONE] == [x for x in a.axes if x != ONE]
    if whole and not m:
        a.term = vt
    else:
        sel = []
        for ax in a.axes:
            if not is_labelled(ax):
                continue
            k = vkey(ax)
            if k in m:
                sel.append((universe(ax[0]), m[k]))
        a.term = ("upd", a.term, tuple(sorted(sel)), vt)
    a.buf.writes += 1
    a.stamp = a.buf.writes
    if a.view and a.buf.view_writer is a and _store_through_alias(a):
        a.buf.view_writer = None


def tile(a: AArr, reps):
    a.check_fresh()
    if isinstance(reps, int):
        reps = (reps,)
    reps = list(reps)
    axes = list(a.axes)
    if len(reps) < len(axes):
        reps = [1] * (len(axes) - len(reps)) + reps
    if len(axes) < len(reps):
        axes = [ONE] * (len(reps) - len(axes)) + axes
    out = []
    for ax, r in zip(axes, reps):
        src = getattr(r, "src", None)
        if int(r) == 1 and src is None:
            out.append(ax)
        elif ax == ONE and src is not None:
            out.append(tuple(src))
        elif ax == ONE:
            out.append(("#", int(r)))
        elif int(r) == 1:
            out.append(ax)          # a dimension with a single item used as multiple
        else:
            out.append(("#", axis_len(ax) * int(r)))   # a labelled axis repeated: labels are lost
    return AArr(out, a.term, Buf("np.tile"), dtype=a.dtype)


def reduce_all(a, fname="sum"):
    if isinstance(a, SymScalar):
        return a
    a.check_fresh()
    if any(not is_labelled(x) and x != ONE for x in a.axes):
        raise ModelAbort("reduction over an unlabelled axis")
    if fname == "sum":
        return SymScalar(t_sum({vkey(x) for x in a.axes if is_labelled(x)}, a.term))
    if a.term[0] == "k" and fname in ("max", "min", "amax", "amin", "nanmax", "nanmin"):
        return SymScalar(a.term)        # extremum of a constant array
    return SymScalar(("fn", fname + "_over", (t_sum(set(), a.term), ("k", repr(sorted(vkey(x) for x in a.axes if is_labelled(x)))))))


def norm_axis(a: AArr, axis):
    n = a.ndim
    ax = int(axis)
    if ax < -n or ax >= n:
        raise NumpyRaise("AxisError", f"axis {ax} is out of bounds for array of dimension {n}")
    return ax % n if n else 0


def reduce_axis(a: AArr, axis, fname="sum"):
    a.check_fresh()
    k = norm_axis(a, axis)
    ax = a.axes[k]
    rest = a.axes[:k] + a.axes[k + 1:]
    if ax == ONE:
        return AArr(rest, a.term, Buf("reduce"), dtype=a.dtype)
    if not is_labelled(ax):
        raise ModelAbort("reduction over an unlabelled axis")
    if fname != "sum":
        raise ModelAbort(f"reduction {fname} along an axis")
    return AArr(rest, t_sum({vkey(ax)}, a.term), Buf("reduce"), dtype=a.dtype)


def cumsum(a: AArr, axis):
    a.check_fresh()
    if axis is None:
        raise ModelAbort("cumsum of the flattened array")
    k = norm_axis(a, axis)
    ax = a.axes[k]
    if not is_labelled(ax):
        raise ModelAbort("cumsum over an unlabelled axis")
    return AArr(a.axes, ("cumsum", tuple(ax), a.term), Buf("cumsum"), dtype=a.dtype)


def transpose(a: AArr, perm=None):
    a.check_fresh()
    if perm is None:
        perm = list(reversed(range(a.ndim)))
    perm = [int(p) % a.ndim for p in perm]
    if sorted(perm) != list(range(a.ndim)):
        raise NumpyRaise("ValueError", "axes don't match array")
    return AArr([a.axes[p] for p in perm], a.term, a.buf, view=True, dtype=a.dtype, origin=(a, None))


def moveaxis(a: AArr, src, dst):
    order = [i for i in range(a.ndim) if i != norm_axis(a, src)]
    order.insert(norm_axis(a, dst), norm_axis(a, src))
    return transpose(a, order)


def expand_dims(a, axis):
    if isinstance(a, IdxArr):
        # a 1-d position array given extra length-one axes: an open-mesh index array, as np.ix_ makes them
        req = list(axis) if isinstance(axis, (tuple, list)) else [axis]
        n_out = 1 + len(req)
        axs = sorted({int(x) % n_out for x in req})
        if len(axs) != len(req):
            raise NumpyRaise("ValueError", "repeated axis")
        long_axis = next(i for i in range(n_out) if i not in axs)
        return Mesh(long_axis, n_out, a.positions)
    if isinstance(a, Mesh):
        raise ModelAbort("np.expand_dims of an open-mesh index array")
    a.check_fresh()
    axes = list(a.axes)
    req = list(axis) if isinstance(axis, (tuple, list)) else [axis]
    n_out = a.ndim + len(req)
    axs = sorted(int(x) % n_out for x in req)
    for k in axs:
        axes.insert(k, ONE)
    return AArr(axes, a.term, a.buf, view=True, dtype=a.dtype, origin=(a, None))


def reshape(a: AArr, shape):
    """only reshapes that insert / remove length-1 axes keep every entry under its labels; a reshape that regroups a labelled
    array's entries does so by position"""
    a.check_fresh()
    shape = [int(s) for s in shape]
    if shape.count(-1) > 1:
        raise NumpyRaise("ValueError", "can only specify one unknown dimension")
    total = 1
    for ax in a.axes:
        total *= axis_len(ax)
    if -1 in shape:
        known = 1
        for s in shape:
            if s != -1:
                known *= s
        if known == 0 or total % known:
            raise NumpyRaise("ValueError", f"cannot reshape array of size {total} into shape {tuple(shape)}")
        shape[shape.index(-1)] = total // known
    n = 1
    for s in shape:
        n *= s
    if n != total:
        raise NumpyRaise("ValueError", f"cannot reshape array of size {total} into shape {tuple(shape)}")
    src = [ax for ax in a.axes if axis_len(ax) != 1]
    tgt = [s for s in shape if s != 1]
    if [axis_len(ax) for ax in src] != tgt:
        if sum(1 for ax in src if is_labelled(ax)) >= 2 and len(tgt) >= 2:
            raise ModelViolation(f"reshape of an array over {len(src)} labelled axes (lengths {[axis_len(x) for x in src]}) to shape {tuple(shape)} regroups "
                                 f"its entries by position: they no longer sit under their labels")
        raise ModelAbort("reshape that merges or splits axes")
    it = iter(src)
    axes = [ONE if s == 1 else next(it) for s in shape]
    return AArr(axes, a.term, a.buf, view=True, dtype=a.dtype, origin=(a, None))


def stack(arrs, axis=0):
    """np.stack of arrays over the same axes along a NEW (unlabelled) axis: entry [.., j, ..] is operand j's entry"""
    arrs = list(arrs)
    if not arrs or not all(isinstance(a, AArr) for a in arrs):
        raise ModelAbort("np.stack of other than arrays")
    for a in arrs:
        a.check_fresh()
    nd = arrs[0].ndim
    if any(a.ndim != nd for a in arrs):
        raise NumpyRaise("ValueError", "all input arrays must have the same shape")
    axes = list(arrs[0].axes)
    for a in arrs[1:]:
        for k in range(nd):
            if axis_len(a.axes[k]) != axis_len(axes[k]):
                raise NumpyRaise("ValueError", "all input arrays must have the same shape")
            axes[k] = _unify(axes[k], a.axes[k], "np.stack")          # same length, other labels: combined by position
    pos = int(axis) % (nd + 1)
    out_axes = axes[:pos] + [("#", len(arrs))] + axes[pos:]
    return AArr(out_axes, ("stack", pos, tuple(a.term for a in arrs)), Buf("np.stack"))


def adopt_labels(a: AArr, axes_items):
    """an array whose unlabelled axes are stored under dimensions of the same lengths: positions become the dimensions' items in order
    (what FlodymArray(dims=..., values=ndarray) means).  A stacked axis turns into one update per item."""
    if not isinstance(a, AArr) or len(a.axes) != len(axes_items):
        return
    if not any(isinstance(ax, tuple) and ax and ax[0] == "#" for ax in a.axes):
        return
    t = a.term
    if not (isinstance(t, tuple) and t[0] == "stack"):
        return
    pos = t[1]
    items = tuple(axes_items[pos])
    if a.axes[pos] != ("#", len(items)) or len(t[2]) != len(items):
        return
    if any(isinstance(ax, tuple) and ax and ax[0] == "#" for i, ax in enumerate(a.axes) if i != pos):
        return
    term = ("k", 0)
    for item, sub in zip(items, t[2]):
        term = ("upd", term, ((universe(item), ("c", item)),), sub)
    a.axes = tuple(a.axes[:pos]) + (items,) + tuple(a.axes[pos + 1:])
    a.term = term


def same_entries(a: AArr, b: AArr) -> bool:
    return tuple(a.axes) == tuple(b.axes) and a.term == b.term
