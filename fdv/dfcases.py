"""Abstract evaluation of DataFrame export / import (C11, C12) with the pandas model on small concrete tables.

Arrays have a few items per dimension; every value is a distinct symbol (some entries are the exact zero, for the
sparse layout).  to_df / from_df / set_values_from_df and the converter are the repository's code (AST), evaluated
by SymInterp; pandas is fdv.pdmodel.
"""
from __future__ import annotations

import itertools

from .core import AnalysisError
from .interp import Obj, PyRaise, run_guarded, AnalysisAbort, ItemList
from .syminterp import SymInterp
from . import symnum as S
from .symnum import SArr, Rat, rat
from . import pdmodel as PD

DIMS = {
    # letter: (name, items, dtype name or None)
    "t": ("Time", [2000, 2002, 2001, 2003], "int"),       # not in ascending order, first and last differ by n-1
    "a": ("Aa", ["a0", "a1"], "str"),
    "b": ("Bb", ["b1", "b0", "b2"], None),
    "s": ("Single", ["only"], "str"),
    "n": ("Number", [7, 9], None),
    "m": ("Cohort", ["pre", 1990, 1995], None),          # text and numbers in one (untyped) dimension
    "z": ("Age", [0, 1, 2], "int"),           # items that look like the default row labels 0, 1, 2, ...
    "p": ("From", ["CN", "EU", "US"], None), "q": ("Into", ["EU", "US"], None),       # different item sets that OVERLAP, shared items at other positions
    "o": ("Origin", ["r0", "r1"], None), "d": ("Destination", ["r0", "r1"], None),       # two dimensions over the SAME items
}


class DW:
    def __init__(self, prog):
        self.prog = prog
        self.it = SymInterp(prog)
        self.files = {}
        PD.install(self.it)
        self.it.hooks["pandas.read_csv"] = self.read_csv
        self._dims = {}

    def read_csv(self, path, **kw):
        if path not in self.files:
            raise PyRaise("FileNotFoundError", None, str(path))
        bad = sorted(k for k in kw if k not in ("skipinitialspace",))
        if bad:
            raise AnalysisAbort(f"pandas.read_csv keyword(s) {bad} are not modelled")
        header, rows = self.files[path]
        if kw.get("skipinitialspace"):      # blanks after the delimiter are dropped: " a1" is read as "a1"
            header = [h.lstrip() if isinstance(h, str) else h for h in header]
            rows = [[c.lstrip() if isinstance(c, str) else c for c in r] for r in rows]
        return PD.read_csv_text(header, rows)

    def dim(self, l):
        if l not in self._dims:
            name, items, dt = DIMS[l]
            kw = dict(name=name, letter=l, items=list(items))
            if dt:
                kw["dtype"] = self.it.builtin(dt)
            self._dims[l] = self.it.construct(self.prog.cls("Dimension"), [], kw)
        return self._dims[l]

    def dimset(self, letters):
        return self.it.construct(self.prog.cls("DimensionSet"), [], dict(dim_list=[self.dim(l) for l in letters]))

    def values(self, letters, name="v", zeros=True):
        shape = tuple(len(DIMS[l][1]) for l in letters)
        data = []
        for k, idx in enumerate(itertools.product(*[range(s) for s in shape])):
            if zeros and len(data) and k % 4 == 1:
                data.append(rat(0))
            elif zeros and k == 2:
                data.append(Rat.sym("eps", "pos"))       # a tiny entry (smaller than every tolerance) - but not a zero
            else:
                data.append(Rat.sym(f"{name}_" + "_".join(map(str, idx)) if idx else name))
        return SArr(shape, data)

    def array(self, letters, name="v", zeros=True, cls="FlodymArray"):
        return self.it.construct(self.prog.cls(cls), [], dict(dims=self.dimset(letters), values=self.values(letters, name, zeros), name=name))

    def entries(self, arr):
        """{label tuple: value} of an array on the heap"""
        ds = arr.f["dims"].f["dim_list"]
        v = arr.f["values"]
        out = {}
        for idx in itertools.product(*[range(len(d.f["items"])) for d in ds]):
            out[tuple(d.f["items"][i] for d, i in zip(ds, idx))] = v.get(idx)
        return out


def norm_label(x):
    """labels that went through a numeric array come back as exact constants"""
    if isinstance(x, Rat) and x.is_const():
        c = x.const()
        return int(c) if c.denominator == 1 else float(c)
    return x


def same_array(dw, got, src_entries, letters):
    if not (isinstance(got, Obj) and isinstance(got.f.get("values"), SArr)):
        return f"result is {got!r}"
    gl = tuple(d.f["letter"] for d in got.f["dims"].f["dim_list"])
    if gl != tuple(letters):
        return f"dims {gl} instead of {tuple(letters)}"
    ge = dw.entries(got)
    if set(ge) != set(src_entries):
        return "label combinations differ"
    for k, v in src_entries.items():
        g = ge[k]
        if not (isinstance(g, Rat) and g == v):
            return f"entry under labels {k} is {g!r}, the source has {v!r}"
    return None


# ---------------------------------------------------------------------------- layouts
def frame_variants(dw: DW, arr, letters):
    """(description, frame) for every layout x header style x permutation produced from the array by to_df"""
    it = dw.it
    names = [DIMS[l][0] for l in letters]
    out = []
    for index in (True, False):
        for d2c in [None] + [(l, by) for l in letters for by in ("name", "letter")]:
            kw = dict(index=index)
            if d2c is not None:
                kw["dim_to_columns"] = DIMS[d2c[0]][0] if d2c[1] == "name" else d2c[0]
            kind, df = run_guarded(lambda: it.call_method(arr, "to_df", **kw))
            desc = {"index": index, "dim_to_columns": (None if d2c is None else kw["dim_to_columns"])}
            out.append((desc, kind, df))
    return out


def transforms(dw, df: PD.Frame, letters, wide_dim=None):
    """header styles / permutations applied to an exported frame before re-import"""
    yield "as exported", df
    # rows reversed / rotated, columns reversed
    f2 = df.copy()
    order = list(reversed(range(len(f2.rows))))
    f2 = PD.Frame(f2.columns.labels, [f2.rows[i] for i in order], PD.Index([f2.index.tuples[i] for i in order], f2.index.names, f2.index.default and False, f2.index.multi))
    if f2.index.default is False and df.index.default:
        f2.index = PD.Index.range(len(f2.rows))
    yield "rows reversed", f2
    if len(df.rows) > 2:
        k = len(df.rows) // 2
        order = list(range(k, len(df.rows))) + list(range(k))
        f3 = PD.Frame(df.columns.labels, [df.rows[i] for i in order],
                      PD.Index.range(len(df.rows)) if df.index.default else PD.Index([df.index.tuples[i] for i in order], df.index.names, False, df.index.multi))
        yield "rows rotated", f3
    if len(df.columns.labels) > 1:
        cols = list(reversed(df.columns.labels))
        yield "columns reversed", df[cols]


def case_same_item_sets(prog):
    """two dimensions with the same items (origin / destination): columns that are identified ONLY by their items cannot be told
    apart, so from_df must not return - whatever it returned would be a guess that depends on the order the array stores its
    dimensions in.  With named columns the round trip is exact.  -> list of (inp, ok, msg, qual)"""
    out = []
    FA = prog.cls("FlodymArray")
    for letters in (("o", "d"), ("d", "o"), ("o", "a", "d")):
        dw = DW(prog)
        it = dw.it
        arr = dw.array(letters, zeros=False)
        src = dw.entries(arr)
        k, df = run_guarded(lambda: it.call_method(arr, "to_df", index=False))
        if k != "ok":
            out.append(({"dims": list(letters)}, False, f"to_df ended with {k}: {df}", "FlodymArray.to_df"))
            continue
        names = [DIMS[l][0] for l in letters]
        # named columns: exact
        k2, back = run_guarded(lambda: it.call(it.get_attr(FA, "from_df"), [], dict(dims=dw.dimset(letters), df=df)))
        bad = same_array(dw, back, src, letters) if k2 == "ok" else f"from_df ended with {k2}: {getattr(back, 'msg', back)!s:.120}"
        out.append(({"dims": list(letters), "columns": "named"}, bad is None, f"two dimensions over the same items, columns named: {bad}", "DataFrameToFlodymDataConverter.get_target_values"))
        # the same data, dimension columns without telling names, read into either storage order
        anon = df.rename(columns={n_: f"col{i}" for i, n_ in enumerate(names)})
        for target in (letters, tuple(reversed(letters))):
            k3, back = run_guarded(lambda: it.call(it.get_attr(FA, "from_df"), [], dict(dims=dw.dimset(target), df=anon)))
            inp = {"dims_of_the_data": list(letters), "target_dims": list(target), "columns": "identified by their items only"}
            out.append((inp, k3 == "raise", "columns that can only be told apart by their items were assigned to two dimensions with the SAME items: "
                        "the result depends on the order in which the target stores its dimensions", "DataFrameToFlodymDataConverter._check_missing_dim_columns"))
    return out


def flat_frame(df: PD.Frame):
    """all index levels as columns (what reset_index would give), None if the index is the default one"""
    if df.index.default:
        return df.copy()
    return df.reset_index()


def case_roundtrips(prog, letters, tier):
    """to_df -> (permute / re-header / CSV) -> from_df must return the identical array.  -> list of (inp, ok, msg, qual)"""
    out = []
    dw = DW(prog)
    it = dw.it
    arr = dw.array(letters, zeros=False)
    src = dw.entries(arr)
    FA = prog.cls("FlodymArray")
    names = {l: DIMS[l][0] for l in letters}
    for desc, kind, df in frame_variants(dw, arr, letters):
        base = {"dims": list(letters), **desc}
        if kind != "ok" or not isinstance(df, PD.Frame):
            out.append((base, False, f"to_df ended with {kind}: {getattr(df, 'msg', df)!s:.160}", "FlodymArray.to_df"))
            continue
        todo = list(transforms(dw, df, letters))
        flat = flat_frame(df)
        wide = desc["dim_to_columns"] is not None
        dim_cols = [c for c in flat.columns.labels if c in names.values()]
        # header styles on the flat form: by letter, mixed, and (when values cannot be mistaken for items) by items only
        by_letter = flat.rename(columns={names[l]: l for l in letters})
        todo.append(("dimension columns headed by letter", by_letter))
        if len(dim_cols) > 1:
            todo.append(("first dimension by letter, others by name", flat.rename(columns={names[letters[0]]: letters[0]})))
        if not wide:
            anon = flat.rename(columns={c: f"col{i}" for i, c in enumerate(dim_cols)})
            todo.append(("dimension columns identified by their items only", anon))
            todo.append(("value column renamed", flat.rename(columns={"value": "amount"})))
        # single-item dimensions left out
        singles = [l for l in letters if len(DIMS[l][1]) == 1]
        if singles and not (wide and any(names[l] == desc["dim_to_columns"] or l == desc["dim_to_columns"] for l in singles)):
            keep = [c for c in flat.columns.labels if c not in [names[l] for l in singles]]
            if keep != flat.columns.labels:
                todo.append(("single-item dimension column left out", flat[keep]))
        # CSV text
        wide_untyped_int = wide and any((names[l] == desc["dim_to_columns"] or l == desc["dim_to_columns"]) and DIMS[l][2] is None
                                        and any(isinstance(x, int) for x in DIMS[l][1]) for l in letters)
        if wide_untyped_int:
            pass    # a CSV header is text: integer items of a dimension WITHOUT a declared dtype cannot be told from strings there
        elif df.index.default:      # a frame without a meaningful index is written with index=False
            dw.files["y.csv"] = (list(df.columns.labels), [list(r) for r in df.rows])
            todo.append(("after a CSV round trip", dw.read_csv("y.csv")))
        else:
            hdr, rows = df.to_csv_text(index=True)
            dw.files["x.csv"] = (hdr, rows)
            todo.append(("after a CSV round trip", dw.read_csv("x.csv")))
        for tname, frame in todo:
            inp = dict(base, transformed=tname)
            kind2, back = run_guarded(lambda: it.call(it.get_attr(FA, "from_df"), [], dict(dims=dw.dimset(letters), df=frame)))
            if kind2 != "ok":
                out.append((inp, False, f"from_df refuses the frame exported by to_df ({tname}): {getattr(back, 'exc_name', kind2)}: {getattr(back, 'msg', back)!s:.200}", "DataFrameToFlodymDataConverter.get_target_values"))
                continue
            bad = same_array(dw, back, src, letters)
            out.append((inp, bad is None, f"from_df(to_df(x)) differs from x ({tname}): {bad}", "DataFrameToFlodymDataConverter._check_data_complete"))
    return out


def case_to_df(prog, letters):
    """to_df lists every entry once under its true labels; sparse: exactly the non-zero entries; also on non-contiguous views"""
    out = []
    for storage in ("plain", "transposed-view"):
        dw = DW(prog)
        it = dw.it
        arr = dw.array(letters, zeros=True)
        if storage == "transposed-view" and len(letters) >= 2:
            # the same labelled array whose values are a (non-contiguous) transposed view, as after sum_to with a pure reorder
            rl = tuple(reversed(letters))
            base = dw.array(rl, zeros=True)
            kind, arr2 = run_guarded(lambda: it.call_method(base, "sum_to", tuple(letters)))
            if kind != "ok":
                continue
            arr = arr2
        elif storage == "transposed-view":
            continue
        src = dw.entries(arr)
        for sparse in (False, True):
            for index in (True, False):
                inp = {"dims": list(letters), "sparse": sparse, "index": index, "values": storage}
                kind, df = run_guarded(lambda: it.call_method(arr, "to_df", index=index, sparse=sparse))
                if kind != "ok" or not isinstance(df, PD.Frame):
                    out.append((inp, False, f"to_df ended with {kind}: {getattr(df, 'msg', df)!s:.160}", "FlodymArray.to_df"))
                    continue
                flat = flat_frame(df) if index else df
                names = [DIMS[l][0] for l in letters]
                bad = None
                try:
                    ci = [flat._ci(n) for n in names]
                    vi = flat._ci("value")
                except PyRaise as e:
                    bad = f"column {e.msg} missing"
                    ci = None
                if ci is not None:
                    seen = {}
                    for r in flat.rows:
                        key = tuple(norm_label(r[i]) for i in ci)
                        if key in seen:
                            bad = f"labels {key} are listed twice"
                            break
                        seen[key] = r[vi]
                    if bad is None:
                        want = {k: v for k, v in src.items() if not (sparse and v.is_zero())}
                        if set(seen) != set(want):
                            bad = f"rows for {sorted(set(seen) ^ set(want), key=repr)[:3]} missing/surplus ({'exactly the non-zero entries' if sparse else 'every entry once'})"
                        else:
                            for k, v in want.items():
                                if not (isinstance(seen[k], Rat) and seen[k] == v):
                                    bad = f"the row labelled {k} carries {seen[k]!r}; the entry under these labels is {v!r}"
                                    break
                out.append((inp, bad is None, f"to_df: {bad}", "FlodymArray.to_df"))
    return out


def case_df_history(prog, letters):
    """one process, several exports / imports in a row: a later call on an array whose dimensions have the SAME names (and item
    sets) as an earlier one's, but list their items in another order, must be as faithful as the first call"""
    out = []
    dw = DW(prog)
    it = dw.it
    FA = prog.cls("FlodymArray")
    first = dw.array(letters, name="u", zeros=False)
    k1, df1 = run_guarded(lambda: it.call_method(first, "to_df", index=False))
    if k1 == "ok":
        run_guarded(lambda: it.call(it.get_attr(FA, "from_df"), [], dict(dims=dw.dimset(letters), df=df1)))
        run_guarded(lambda: it.call_method(first, "to_df", index=True, sparse=True))
    # a second model in the same process: same dimension names and items, items listed in reverse order
    dims2 = []
    for l in letters:
        name, items, dt = DIMS[l]
        kw = dict(name=name, letter=l, items=list(reversed(items)))
        if dt:
            kw["dtype"] = it.builtin(dt)
        dims2.append(it.construct(prog.cls("Dimension"), [], kw))

    def ds2():
        return it.construct(prog.cls("DimensionSet"), [], dict(dim_list=list(dims2)))
    second = it.construct(FA, [], dict(dims=ds2(), values=dw.values(letters, "w", zeros=False), name="w"))
    src = dw.entries(second)
    base = {"dims": list(letters), "history": "to_df / from_df of a first array; then a second array whose dimensions carry the same names and items in reverse order"}
    for index in (False, True):
        inp = dict(base, step=f"to_df(index={index}) of the second array, then from_df")
        kind, df = run_guarded(lambda: it.call_method(second, "to_df", index=index))
        if kind != "ok" or not isinstance(df, PD.Frame):
            out.append((inp, False, f"to_df ended with {kind}: {getattr(df, 'msg', df)!s:.160}", "FlodymArray.to_df"))
            continue
        flat = flat_frame(df)
        names = [DIMS[l][0] for l in letters]
        seen = {}
        ci, vi = [flat._ci(n) for n in names], flat._ci("value")
        for r in flat.rows:
            seen[tuple(norm_label(r[i]) for i in ci)] = r[vi]
        bad = None
        if set(seen) != set(src) or any(not (isinstance(seen[k], Rat) and seen[k] == v) for k, v in src.items()):
            bad = "rows do not carry the entries under their labels"
        out.append((dict(inp, checked="export"), bad is None, f"to_df after an earlier export/import of a same-named dimension: {bad}", "FlodymArray.to_df"))
        kind2, back = run_guarded(lambda: it.call(it.get_attr(FA, "from_df"), [], dict(dims=ds2(), df=df)))
        if kind2 != "ok":
            out.append((inp, False, f"from_df refuses the frame exported by to_df: {getattr(back, 'exc_name', kind2)}: {getattr(back, 'msg', back)!s:.200}", "DataFrameToFlodymDataConverter.get_target_values"))
            continue
        bad = same_array(dw, back, src, letters)
        out.append((inp, bad is None, f"from_df(to_df(x)) differs from x when an array with same-named dimensions (items in another order) was imported before: {bad}",
                    "DataFrameToFlodymDataConverter._check_data_complete"))
    return out


# ---------------------------------------------------------------------------- faults (C12)
FAULTS = ["none", "drop-first", "drop-middle", "drop-last", "duplicate", "unknown-item", "nan-value", "missing-column", "missing-single-item-column",
          "two-odd-value-columns", "unknown+drop", "duplicate+drop", "nan+unknown", "duplicate-after-type-conversion",
          "unknown-item-first-dimension", "unknown-item-early", "unknown-item-in-single-item-column",
          "repeated-row-labels", "nan+repeated-row-labels", "label-as-text-in-untyped-dimension",
          "infinite-value", "infinite+drop", "infinite+nan", "duplicate-with-other-value", "row-relabelled-onto-existing-combination",
          "unknown-item-early+rows-shuffled-keeping-their-index", "rows-shuffled-keeping-their-index", "nan+rows-shuffled-keeping-their-index",
          "blank-label-in-numeric-dimension"]


def long_frame(dw, arr, letters):
    df = dw.it.call_method(arr, "to_df", index=False)
    return df


def apply_fault(dw, df: PD.Frame, letters, fault):
    names = [DIMS[l][0] for l in letters]
    rows = [list(r) for r in df.rows]
    cols = list(df.columns.labels)
    removed, nan_keys, note = [], [], {}
    ci = [cols.index(n) for n in names]
    vi = cols.index("value")

    def plain(x):
        # a label that went through a NumPy array is a number of the symbolic domain: the same label as the Python number
        if isinstance(x, Rat) and x.is_const():
            c = x.const()
            return int(c) if c.denominator == 1 else float(c)
        return x

    def key(r):
        return tuple(plain(r[i]) for i in ci)
    orig = list(rows)
    for f in fault.split("+"):
        if f in ("drop-first", "drop-middle", "drop-last", "drop"):
            if f == "drop":
                # in a combined fault: a genuine row that no other fault of the combination touches (not the duplicated first row,
                # not an added one)
                cands = [i for i, r in enumerate(rows) if any(r is o for o in orig[1:])]
                if not cands:
                    return None
                k = cands[0]
            else:
                k = {"drop-first": 0, "drop-middle": len(rows) // 2, "drop-last": len(rows) - 1}[f]
            removed.append(key(rows[k]))
            del rows[k]
        elif f == "duplicate":
            rows.insert(len(rows) // 2, list(rows[0]))
            note["dup"] = True
        elif f == "duplicate-with-other-value":
            # the same label combination twice with DIFFERENT numbers: still a duplicated combination
            r = list(rows[0])
            r[vi] = Rat.sym("other_value")
            rows.insert(len(rows) // 2 + 1, r)
            note["dup"] = True
        elif f == "row-relabelled-onto-existing-combination":
            # the row count is right, but one combination is absent and another one appears twice (with different numbers)
            if len(rows) < 2:
                return None
            k = len(rows) - 1
            removed.append(key(rows[k]))
            r = list(rows[k])
            for i in ci:
                r[i] = rows[0][i]
            rows[k] = r
            note["dup"] = True
        elif f == "duplicate-after-type-conversion":
            # the same label once as int and once as str: equal after the declared type conversion
            tcol = [i for i, l in zip(ci, letters) if DIMS[l][2] == "int"]
            if not tcol:
                return None
            r = list(rows[0])
            r[tcol[0]] = str(r[tcol[0]])
            rows.append(r)
            note["dup"] = True
        elif f == "unknown-item" or f == "unknown":
            r = list(rows[-1])
            j = ci[-1]
            r[j] = "zz" if isinstance(r[j], str) else 99999
            rows.append(r)
            note["extra"] = True
        elif f in ("unknown-item-first-dimension", "unknown-item-early"):
            r = list(rows[0])
            j = ci[0] if f == "unknown-item-first-dimension" else ci[-1]
            r[j] = "zz" if isinstance(r[j], str) else 99999
            if f == "unknown-item-early":
                rows.insert(0, r)        # the stray row comes before the genuine row of the cell a position of -1 / 0 would hit
            else:
                rows.append(r)
            note["extra"] = True
        elif f == "unknown-item-in-single-item-column":
            single = [i for i, l in zip(ci, letters) if len(DIMS[l][1]) == 1]
            if not single:
                return None
            r = list(rows[0])
            r[single[0]] = "zz"
            rows.append(r)
            note["extra"] = True
        elif f == "nan-value" or f == "nan":
            nan_keys.append(key(rows[1 if len(rows) > 1 else 0]))
            rows[1 if len(rows) > 1 else 0][vi] = PD.NaN
        elif f in ("infinite-value", "infinite"):
            # a PRESENT entry that happens to be infinite (pandas reads "inf" from CSV text): not missing, not empty -> placed as it is
            k = len(rows) - 1
            if k < 2 and "+" in fault:
                return None
            rows[k] = list(rows[k])
            rows[k][vi] = Rat.sym("inf") if len(rows) % 2 else -Rat.sym("inf")
            note.setdefault("changed", {})[key(rows[k])] = rows[k][vi]
        elif f == "missing-column":
            multi = [n for n, l in zip(names, letters) if len(DIMS[l][1]) > 1]
            if not multi:
                return None
            j = cols.index(multi[-1])
            cols.pop(j)
            rows = [r[:j] + r[j + 1:] for r in rows]
            note["missing_column"] = True
            ci = None
        elif f == "missing-single-item-column":
            single = [n for n, l in zip(names, letters) if len(DIMS[l][1]) == 1]
            if not single:
                return None
            j = cols.index(single[0])
            cols.pop(j)
            rows = [r[:j] + r[j + 1:] for r in rows]
            ci = [cols.index(n) for n in names if n in cols]
            vi = cols.index("value")
        elif f == "label-as-text-in-untyped-dimension":
            # a dimension WITHOUT declared dtype holding integer items: the text "7" is not its item 7
            cand = [i for i, l in zip(ci, letters) if DIMS[l][2] is None and all(isinstance(x, int) for x in DIMS[l][1])]
            if not cand:
                return None
            k = len(rows) - 1
            removed.append(key(rows[k]))
            rows[k] = list(rows[k])
            rows[k][cand[0]] = str(rows[k][cand[0]])
            note["extra"] = True
        elif f == "blank-label-in-numeric-dimension":
            # a numeric dimension: one row has NO label there (an empty cell), and the genuine row of that dimension's first item (e.g. item
            # 0) for the same other labels is absent - an empty label is not an item (in particular not the item 0)
            num = [i for i, l in zip(ci, letters) if all(isinstance(x, int) for x in DIMS[l][1])]
            if not num or len(rows) < 2:
                return None
            j = num[0]
            first_item = DIMS[letters[ci.index(j)]][1][0]
            k = next((i for i, r in enumerate(rows) if r[j] != first_item), None)
            if k is None:
                return None
            twin = [i for i, r in enumerate(rows) if i != k and r[j] == first_item and all(r[c] == rows[k][c] for c in ci if c != j)]
            removed.append(key(rows[k]))
            rows[k] = list(rows[k])
            rows[k][j] = PD.NaN
            for i in sorted(twin, reverse=True):
                removed.append(key(rows[i]))
                del rows[i]
            note["extra"] = True
        elif f == "rows-shuffled-keeping-their-index":
            # as after df.sample(frac=1) / sort_values: the rows are in another order and each keeps its integer label
            order = list(range(len(rows)))
            order = order[1::2] + order[0::2][::-1]
            rows = [rows[i] for i in order]
            note["row_labels"] = [(i,) for i in order]
        elif f == "repeated-row-labels":
            note["row_labels"] = [(i % 2,) for i in range(len(rows))]     # as after pd.concat without ignore_index: labels 0,1,0,1,...
        elif f == "two-odd-value-columns":
            cols.append("other")
            rows = [r + [rat(1)] for r in rows]
            note["odd_columns"] = True
    if note.get("row_labels") and len(note["row_labels"]) == len(rows):
        return PD.Frame(cols, rows, PD.Index(note["row_labels"], [None], False, False)), removed, nan_keys, note
    return PD.Frame(cols, rows), removed, nan_keys, note


def expected_outcome(fault, note, removed, nan_keys, allow_missing, allow_extra):
    """-> 'raise' | 'ok' per the property statement"""
    if note.get("dup") or note.get("missing_column") or note.get("odd_columns"):
        return "raise"
    if note.get("extra") and not allow_extra:
        return "raise"
    if (removed or nan_keys) and not allow_missing:
        return "raise"
    return "ok"


def case_reader_faults(prog, letters):
    """the CSV parameter reader on a file of its own: a clean file is read back exactly; a label that differs from an item only by a
    blank after the comma (", a1") is NOT that item - refused by default, ignored (and the entry zero) with both flags"""
    out = []
    names = [DIMS[l][0] for l in letters]
    for fault in ("none", "label-with-leading-blank"):
        for am, ae in ((False, False), (True, True)):
            dw = DW(prog)
            it = dw.it
            arr = dw.array(letters, zeros=False)
            src = dw.entries(arr)
            df = long_frame(dw, arr, letters)
            rows = [list(r) for r in df.rows]
            cols = list(df.columns.labels)
            removed = []
            if fault != "none":
                j = next((cols.index(n) for n, l in zip(names, letters) if isinstance(DIMS[l][1][0], str)), None)
                if j is None:
                    continue
                k = len(rows) - 1
                removed.append(tuple(rows[k][cols.index(n)] for n in names))
                rows[k][j] = " " + rows[k][j]
            dw.files["p.csv"] = (cols, rows)
            inp = {"dims": list(letters), "reader": "CSVParameterReader", "fault": fault, "allow_missing_values": am, "allow_extra_values": ae}

            def go():
                rd = it.construct(prog.cls("CSVParameterReader"), [], dict(parameter_files={"p": "p.csv"}, allow_missing_values=am, allow_extra_values=ae))
                return it.call_method(rd, "read_parameter_values", "p", dw.dimset(letters))
            kind, res = run_guarded(go)
            qual = "CSVParameterReader.read_parameter_values"
            if fault != "none" and not (am and ae):
                out.append((inp, kind == "raise", "a label with a blank in front of it (not an item of the dimension) was accepted by the CSV reader", qual))
                continue
            want = dict(src)
            for k_ in removed:
                want[k_] = rat(0)
            if kind != "ok":
                out.append((inp, False, f"a file that must be accepted was refused: {getattr(res, 'exc_name', kind)} {getattr(res, 'msg', res)!s:.160}", qual))
            else:
                bad = same_array(dw, res, want, letters)
                out.append((inp, bad is None, f"CSV reader, {fault}: {bad}", qual))
    return out


def case_faults(prog, letters, target="from_df"):
    out = []
    for fault, header in itertools.product(FAULTS, ("name", "letter", "index")):
        for am, ae in itertools.product((False, True), repeat=2):
            dw = DW(prog)
            it = dw.it
            arr = dw.array(letters, zeros=False)
            src = dw.entries(arr)
            df = long_frame(dw, arr, letters)
            r = apply_fault(dw, df, letters, fault)
            if r is None:
                continue
            frame, removed, nan_keys, note = r
            if header == "letter":
                frame = frame.rename(columns={DIMS[l][0]: l for l in letters})
            if header == "index":
                # the layout written by to_df(): the dimension columns form the (Multi)Index, one value column remains
                names_ = [DIMS[l][0] for l in letters]
                if note.get("missing_column") or note.get("row_labels") or any(n_ not in frame.columns.labels for n_ in names_) or len(letters) < 2:
                    continue
                frame = frame.set_index(names_)
            exp = expected_outcome(fault, note, removed, nan_keys, am, ae)
            inp = {"dims": list(letters), "fault": fault, "allow_missing_values": am, "allow_extra_values": ae, "via": target, "dimension_columns_headed_by": header}
            kw = {}
            if am:
                kw["allow_missing_values"] = True
            if ae:
                kw["allow_extra_values"] = True
            if target == "from_df":
                kind, res = run_guarded(lambda: it.call(it.get_attr(prog.cls("FlodymArray"), "from_df"), [], dict(dims=dw.dimset(letters), df=frame, **kw)))
                tgt_before = None
            else:
                tgt = dw.array(letters, name="old", zeros=False)
                tgt_before = (tgt.f["values"], list(tgt.f["values"].data))
                kind, res = run_guarded(lambda: it.call_method(tgt, "set_values_from_df", frame, **kw))
                if kind == "ok":
                    res = tgt
            qual = "DataFrameToFlodymDataConverter._check_data_complete"
            if exp == "raise":
                ok = kind == "raise"
                msg = f"faulty data ({fault}) with allow_missing_values={am}, allow_extra_values={ae} were accepted instead of refused"
                if ok and tgt_before is not None:
                    v0, d0 = tgt_before
                    if tgt.f["values"] is not v0 or any(not (x == y) for x, y in zip(v0.data, d0)):
                        ok, msg = False, f"the import was refused ({fault}) but the target array is left partially filled / changed"
                        qual = "FlodymArray.set_values_from_df"
                out.append((inp, ok, msg, qual))
            else:
                want = dict(src)
                want.update(note.get("changed", {}))
                for k in removed + nan_keys:
                    want[k] = rat(0)
                if kind != "ok" and fault == "blank-label-in-numeric-dimension":
                    continue        # refusing a row without a label outright is fine under every flag combination (the property names
                    #                 unknown ITEMS as ignorable, not empty label cells); what must not happen is that the row is placed
                if kind != "ok":
                    out.append((inp, False, f"data that must be accepted under these flags ({fault}) were refused: {getattr(res, 'exc_name', kind)} {getattr(res, 'msg', res)!s:.160}", qual))
                else:
                    bad = same_array(dw, res, want, letters)
                    out.append((inp, bad is None, f"with {fault}, allow_missing_values={am}, allow_extra_values={ae}: {bad} (missing/empty entries become zero, every present "
                                                  f"entry stays under its labels, rows with unknown items are ignored)", qual))
    return out
