"""C12 - data import refuses incomplete or inconsistent data unless told otherwise."""
from __future__ import annotations

import ast

from ..core import AnalysisError, Finding
from ..par import pmap
from .. import dfcases as DC
from ._arr import _locate
from . import c18 as C18

LEVEL = "other"
ENGINE = "fdv-symbolic-grid-evaluator"
EXPLANATION = (
    "The import path (from_df / set_values_from_df / the converter; AST) is evaluated by the symbolic evaluator with the pandas "
    "model of C11 on frames exported from small arrays and then damaged by every fault of the property - a missing label "
    "combination (first / middle / last row dropped), a duplicated one, a duplicate that only appears after the declared type "
    "conversion, an unknown item, an empty (NaN) value, a missing column of a multi-item dimension, a missing column of a "
    "single-item dimension (allowed), surplus value columns matching no dimension - and combinations of two faults, under all four "
    "flag combinations. The outcome must be exactly the one the property tabulates: refusal, or an array whose present entries sit "
    "under their labels, missing/empty ones are zero and rows with unknown items are ignored; and when set_values_from_df refuses, "
    "the pre-existing target array must be untouched (same values object, same entries). In addition: both flags default to False "
    "at every declaration, and the CSV/Excel readers and from_csv/from_excel forward them unswapped (evaluated with a recording "
    "importer). "
    "Fault kinds also include unknown items in the first / in a single-item dimension's column, a stray row placed first, repeated row labels; dimension columns headed by name and by letter."
    ' Further faults: an infinite present entry, the same combination twice with different numbers, a row relabelled onto an existing combination, rows shuffled while keeping their integer labels (boolean Series selectors align by label in the pandas model); two readers alive at the same time hand each its own flags to the importer.'
)
TECHNIQUE = "static analysis: abstract interpretation of the import path over a fault matrix (faults x flag combinations) with a pandas model; defaults and flag forwarding rules"

ARRAYS_QUICK = [("t", "a"), ("a", "s", "b"), ("n", "a"), ("z", "a")]
ARRAYS_THOROUGH = ARRAYS_QUICK + [("a",), ("n", "t"), ("b", "t", "a")]


def _worker(prog, rep, job):
    letters, target = job
    fails = {}
    results = DC.case_reader_faults(prog, letters) if target == "csv-reader" else DC.case_faults(prog, letters, target)
    for inp, ok, msg, qual in results:
        rule = "C12.fault-matrix" if "partially filled" not in msg else "C12.no-partial-fill"
        rep.oblige(rule, ok, where=qual, what=str(inp), distinct=(rule, str(inp)),
                   sample={"rule": rule, "case": inp, "verdict": "ok" if ok else "VIOLATED"} if rep.obligations % 23 == 0 else None)
        rep.evaluations += 1
        if not ok:
            k = (rule, qual)
            c = fails.get(k)
            fails[k] = (c[0] + 1, c[1], c[2]) if c else (1, inp, msg)
    return fails


FLAG_NAMES = {"allow_missing_values", "allow_extra_values", "allow_missing_parameter_values", "allow_extra_parameter_values"}


def defaults_false(prog, rep):
    rid = rep.rule("C12.flags-default-false", "allow_missing / allow_extra default to False at every declaration", floor=14)
    for fn in prog.all_functions():
        a = fn.node.args
        params = a.posonlyargs + a.args
        defaults = [None] * (len(params) - len(a.defaults)) + list(a.defaults)
        pairs = list(zip(params, defaults)) + list(zip(a.kwonlyargs, a.kw_defaults))
        for p, d in pairs:
            if p.arg in FLAG_NAMES:
                # a parameter without a default (callers must decide) cannot silently allow anything; a default must be False
                ok = d is None or (isinstance(d, ast.Constant) and d.value is False)
                rep.oblige(rid, ok, where=fn.qual, what=f"{p.arg}={ast.unparse(d) if d is not None else '<required>'}")
                if not ok:
                    rep.add(Finding("C12", rid, fn.module, fn.qual, f"{p.arg}={ast.unparse(d) if d is not None else '<required>'}",
                                    f"parameter `{p.arg}` does not default to False: by default incomplete or inconsistent data must be refused", line=fn.node.lineno))


def run(prog, rep):
    rep.rule("C12.fault-matrix", "every fault x flag combination ends as the property tabulates (refusal, or the array with zeros / ignored rows)")
    rep.rule("C12.no-partial-fill", "a refused set_values_from_df leaves the target array untouched")
    rep.rule("C12.flags-forwarded", "readers and from_csv / from_excel hand the flags to the importer unswapped")
    arrays = ARRAYS_QUICK if rep.tier == "quick" else ARRAYS_THOROUGH
    jobs = [(l, t) for l in arrays for t in ("from_df", "set_values_from_df")] + [(l, "csv-reader") for l in arrays[:3]]
    fails = {}
    for part in pmap(_worker, jobs, prog, rep):
        for k, (count, inp, msg) in part.items():
            c = fails.get(k)
            fails[k] = (c[0] + count, c[1], c[2]) if c else (count, inp, msg)
    defaults_false(prog, rep)
    # flag forwarding through the readers (recording importer)
    cx = C18.Ctx(prog, rep)
    before = rep.obligations
    C18.from_files_cases(cx)
    C18.two_readers_cases(cx)
    for (rule, qual), (count, inp, msg) in cx.fail.items():
        fails[("C12.flags-forwarded", qual)] = (count, inp, msg)
    r18 = rep.rules.pop("C18.from-files", None)
    if r18:
        rep.rules["C12.flags-forwarded"]["instances"] += r18["instances"]
        rep.rules["C12.flags-forwarded"]["failed"] += r18["failed"]
    for (rule, qual), (count, inp, msg) in sorted(fails.items()):
        module, line, sig = _locate(prog, qual)
        rep.add(Finding("C12", rule, module, qual, sig, f"{msg} [{count} case(s)]", line=line, abstract_input=inp))
    rep.rules["C12.fault-matrix"]["floor"] = 150
    rep.rules["C12.flags-forwarded"]["floor"] = 12
    rep.exhaustive = True
    rep.assumptions += ["pandas model of C11 (fdv/pdmodel.py); NaN stands for an empty cell"]


DF = "_df_to_flodym_array.py"
FA = "flodym_arrays.py"
MUTANTS = [
    {"name": "duplicates-compared-with-values", "path": DF, "find": "        if indices.duplicated().any():", "replace": "        if self.df.duplicated().any():"},
    {"name": "missing-filled-by-nan_to_num", "path": DF, "find": "self.df[self.format.value_column].fillna(0)", "replace": "np.nan_to_num(self.df[self.format.value_column].to_numpy())"},
    {"name": "duplicates-not-checked", "path": DF, "find": "        if indices.duplicated().any():", "replace": "        if False:"},
    {"name": "extra-items-ignored-by-default", "path": DF, "find": "        if self.allow_extra_values:\n            for dim in self.flodym_array.dims:", "replace": "        if True:\n            for dim in self.flodym_array.dims:"},
    {"name": "missing-rows-tolerated-by-default", "path": DF, "find": "            if len(self.df) != self.flodym_array.size:", "replace": "            if False:"},
    {"name": "nan-not-checked", "path": DF, "find": "            if any(self.df[self.format.value_column].isna()):", "replace": "            if False:"},
    {"name": "flags-swapped-in-converter-call", "path": FA,
     "find": "            allow_missing_values=allow_missing_values,\n            allow_extra_values=allow_extra_values,\n        )\n        self.set_values(converter.target_values)",
     "replace": "            allow_missing_values=allow_extra_values,\n            allow_extra_values=allow_missing_values,\n        )\n        self.set_values(converter.target_values)"},
    {"name": "from_df-drops-allow_extra", "path": FA, "find": "            df, allow_missing_values=allow_missing_values, allow_extra_values=allow_extra_values\n", "replace": "            df, allow_missing_values=allow_missing_values\n"},
    {"name": "default-allow-missing-true", "path": FA, "find": "        df: pd.DataFrame,\n        allow_missing_values: bool = False,", "replace": "        df: pd.DataFrame,\n        allow_missing_values: bool = True,"},
    {"name": "missing-dim-column-tolerated", "path": DF, "find": "                raise ValueError(\n                    f\"Dimension {c} from array has more than one item", "replace": "                continue\n                raise ValueError(\n                    f\"Dimension {c} from array has more than one item", "expect": "survive"},
    {"name": "several-value-columns-first-taken", "path": DF, "find": "        if len(value_cols) == 1:\n", "replace": "        if len(value_cols) >= 1:\n"},
    {"name": "duplicate-check-before-type-conversion", "path": DF,
     "find": "        self._convert_type()\n        self._sort_columns()\n        values = self._check_data_complete()",
     "replace": "        dupl = self.df[[c for c in self.df.columns if c in self.flodym_array.dims.names]].duplicated().any()\n        self._convert_type()\n        self._sort_columns()\n        values = self._check_data_complete_nodup(dupl) if False else self._check_data_complete()",
     "expect": "survive"},
    {"name": "importer-fills-target-in-place-nan-check-after", "path": DF,
     "edit": lambda t: (t.replace("            if any(self.df[self.format.value_column].isna()):\n                raise ValueError(\"Empty cells/NaN values in value column!\")\n", "", 1)
                        .replace("        values = np.zeros(self.flodym_array.dims.shape)\n        values[tuple(fill_indices)] = fill_values\n        return values",
                                 "        values = self.flodym_array.values\n        values[...] = 0\n        values[tuple(fill_indices)] = fill_values\n        if not self.allow_missing_values and any(self.df[self.format.value_column].isna()):\n            raise ValueError(\"Empty cells/NaN values in value column!\")\n        return values", 1))},
    {"name": "fillna-always", "path": DF, "find": "        if self.allow_missing_values:\n            self.df[self.format.value_column] = self.df[self.format.value_column].fillna(0)\n        else:",
     "replace": "        self.df[self.format.value_column] = self.df[self.format.value_column].fillna(0)\n        if self.allow_missing_values:\n            pass\n        else:"},
]
