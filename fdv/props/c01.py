"""C01 - arithmetic between arrays matches dimensions by label, never by axis position."""
from __future__ import annotations

from .. import arrays as AR
from ..world import lists_over
from ._arr import run_array_property, ASSUMPTIONS

LEVEL = "other"
EXPLANATION = (
    "Abstract interpretation of FlodymArray's operators on the labelled-tensor domain: for EVERY pair of ordered dimension "
    "lists over the alphabet (every subset pair and every storage order of each operand), every operator (+ - * / ** minimum "
    "maximum, reflected scalar forms with 0, 2, 2.5 and a symbolic number, unary - abs sign) the repository's code (AST) is "
    "evaluated with arrays as labelled tensors; result dims, axes and the symbolic entry must equal the property's operator "
    "table (common dims in x's order with both operands summed by label; union dims x first; ** keeps x's dims and refuses "
    "foreign ones). Symbolic in all values and lengths; exhaustive over the alphabet bound. Decides the label/pairing structure, "
    "not floating-point rounding."
    " A NumPy number on the left (np.float64(2) - x) is decided structurally: the array classes offer NumPy no array conversion (__array__, __array_interface__, __array_struct__, __len__ + __getitem__) without opting out of NumPy's operator dispatch (rule C01.numpy-number-on-the-left, dispatch table probed against the installed NumPy)."
)
TECHNIQUE = "static analysis: abstract interpretation of the operators' AST on a labelled-tensor domain, exhaustive over dimension-list pairs"


def family(prog, name, tier, taint_mode):
    alpha = "abc" if tier == "quick" else "abcd"
    if name == "arith":
        return AR.arith_cases(prog, alpha, None, taint_mode)
    raise KeyError(name)


# ---- a NumPy number on the LEFT (np.float64(2) - x; what x.sum_values() and every NumPy reduction return) must reach x.__rsub__
CONVERTIBLE = ("__array__", "__array_interface__", "__array_struct__")


def numpy_takes_over(has: dict) -> str | None:
    """NumPy's binary-operator dispatch for `number op obj` (probed against the installed NumPy 2.x, see DESIGN.md): the number's
    operator converts obj itself - and returns a bare ndarray - when obj's TYPE offers an array conversion (__array__,
    __array_interface__, __array_struct__, or the sequence protocol __len__ + __getitem__), unless the type opts out with
    `__array_ufunc__ = None` or declares an `__array_priority__`. `has` maps attribute name -> 'method' | 'const:<expr>'."""
    if str(has.get("__array_ufunc__", "")).replace(" ", "") == "const:None" or "__array_priority__" in has:
        return None
    if "__array_ufunc__" in has:
        return "unmodelled"
    by = [a for a in CONVERTIBLE if a in has]
    if "__len__" in has and "__getitem__" in has:
        by.append("__len__ + __getitem__ (sequence protocol)")
    return ", ".join(by) if by else None


def scalar_left_rule(prog, rep):
    import ast
    from ..core import AnalysisError, Finding
    rid = rep.rule("C01.numpy-number-on-the-left", "np.float64(k) op x reaches x's reflected operator: the array classes offer NumPy no array "
                                                   "conversion (or opt out of NumPy's dispatch)", floor=1)
    base = prog.cls("FlodymArray")
    names = CONVERTIBLE + ("__len__", "__getitem__", "__array_ufunc__", "__array_priority__")
    for cls in prog.subclasses(base):
        has = {}
        for a in names:
            r = prog.find_attr(cls, a)
            if r:
                has[a] = "method" if r[0] in ("method", "property") else "const:" + ast.unparse(r[1])
        verdict = numpy_takes_over(has)
        if verdict == "unmodelled":
            raise AnalysisError(f"{cls.name} implements __array_ufunc__: NumPy hands every operation with a NumPy operand to it; not modelled")
        rep.oblige(rid, verdict is None, where=cls.name, what=f"array-conversion / dispatch attributes: {sorted(has)}")
        if verdict:
            r = prog.find_attr(cls, verdict.split(",")[0].split(" ")[0])
            fn = r[1] if r and r[0] in ("method", "property") else None
            rep.add(Finding("C01", rid, fn.module if fn else cls.module, fn.qual if fn else cls.name, fn.node if fn else cls.node,
                            f"{cls.name} offers NumPy an array conversion ({verdict}) without `__array_ufunc__ = None`: for a NumPy number on the left "
                            f"(np.float64(2) - x, x.sum_values() / x) NumPy converts x itself and returns a bare ndarray without dimensions; the "
                            f"reflected operator (__rsub__, __rtruediv__, ...) is never called and later operations pair axes by position",
                            line=(fn.node if fn else cls.node).lineno, abstract_input={"expression": "np.float64(2) - x", "class": cls.name}))
    # positive and negative controls of the decision table
    if numpy_takes_over({"__array__": "method"}) is None or numpy_takes_over({"__len__": "method", "__getitem__": "method"}) is None \
            or numpy_takes_over({"__array__": "method", "__array_ufunc__": "const:None"}) is not None or numpy_takes_over({"__getitem__": "method"}) is not None:
        raise AnalysisError("C01 numpy-number-on-the-left rule no longer recognises its controls")


def run(prog, rep):
    scalar_left_rule(prog, rep)
    rep.rule("C01.operator-table", "result dims/axes/entry of x op y, x op k, k op x, unary ops equal the documented operator table")
    rep.rule("C01.pow-refuses-foreign-dims", "x**y with a dimension of y that x lacks raises")
    aspects = {("arith", "result"): "C01.operator-table", ("arith-scalar", "result"): "C01.operator-table",
               ("arith-unary", "result"): "C01.operator-table", ("arith", "raises"): "C01.pow-refuses-foreign-dims"}
    for a in ("sum_values_to", "__add__", "__mul__", "__pow__", "__rtruediv__"):
        prog.method("FlodymArray", a)
    n = run_array_property(prog, rep, "C01", ["arith", "arith@uniform", "arith@uniform+samenames"], aspects)
    L = len(lists_over("abc" if rep.tier == "quick" else "abcd"))
    rep.rules["C01.operator-table"]["floor"] = L * L * 6
    if rep.exhaustive is None:
        rep.exhaustive = True
    rep.extra["alphabet"] = "abc" if rep.tier == "quick" else "abcd"
    rep.assumptions += ASSUMPTIONS


FA = "flodym_arrays.py"
MUTANTS = [
    {"name": "mul-operand-subscripts-swapped", "path": FA,
     "find": 'f"{self.dims.string},{other.dims.string}->{dims_out.string}", self.values, other.values',
     "replace": 'f"{other.dims.string},{self.dims.string}->{dims_out.string}", self.values, other.values'},
    {"name": "add-result-over-self-dims", "path": FA,
     "find": "        return FlodymArray(\n            dims=dims_out,\n            values=self.sum_values_to(dims_out.letters) + other.sum_values_to(dims_out.letters),",
     "replace": "        return FlodymArray(\n            dims=self.dims,\n            values=self.sum_values_to(dims_out.letters) + other.sum_values_to(dims_out.letters),"},
    {"name": "add-intersection-in-others-order", "path": FA,
     "find": "    def __add__(self, other):\n        other = self._prepare_other(other)\n        dims_out = self.dims.intersect_with(other.dims)",
     "replace": "    def __add__(self, other):\n        other = self._prepare_other(other)\n        dims_out = other.dims.intersect_with(self.dims)"},
    {"name": "maximum-calls-minimum", "path": FA, "find": "        values_out = np.maximum(", "replace": "        values_out = np.minimum("},
    {"name": "sub-operands-swapped", "path": FA,
     "find": "values=self.sum_values_to(dims_out.letters) - other.sum_values_to(dims_out.letters)",
     "replace": "values=other.sum_values_to(dims_out.letters) - self.sum_values_to(dims_out.letters)"},
    {"name": "rsub-is-self-minus-other", "path": FA, "find": "        return -self + other", "replace": "        return self - other"},
    {"name": "prepare-other-over-other-shape", "path": FA, "find": "values=other * np.ones(self.shape))", "replace": "values=other * np.ones(()))"},
    {"name": "div-by-self-reciprocal", "path": FA, "find": "            1.0 / other.values,\n", "replace": "            other.values,\n"},
    {"name": "pow-without-cast", "path": FA, "find": "        power = power.cast_to(self.dims)\n", "replace": ""},
    {"name": "pow-no-foreign-check", "path": FA,
     "find": "        if any(l not in self.dims.letters for l in power.dims.letters):\n            raise ValueError(\"Power must only contain dimensions also present in the base array.\")\n",
     "replace": "", "expect": "survive"},
    {"name": "pow-returns-power-dims-after-cast (equivalent)", "path": FA,
     "find": "        values_out = self.values**power.values\n        return FlodymArray(dims=self.dims, values=values_out)",
     "replace": "        values_out = self.values**power.values\n        return FlodymArray(dims=power.dims, values=values_out)", "expect": "survive"},
    {"name": "radd-returns-self-for-zero", "path": FA, "find": "    def __radd__(self, other):\n        return self + other",
     "replace": "    def __radd__(self, other):\n        if isinstance(other, Number) and other == 0:\n            return self\n        return self + other",
     "expect": "survive"},
    {"name": "sum_values_to-by-transpose-inverse", "path": FA,
     "find": '        return np.einsum(f"{self.dims.string}->{\'\'.join(result_dims)}", self.values)\n\n    def sum_to',
     "replace": '        keep = [self.dims.letters.index(l) for l in result_dims]\n        drop = tuple(i for i in range(self.dims.ndim) if i not in keep)\n        red = np.sum(self.values, axis=drop) if drop else self.values\n        rest = [i for i in range(self.dims.ndim) if i in keep]\n        return np.transpose(red, [keep.index(i) for i in rest])\n\n    def sum_to'},
    {"name": "neg-is-abs", "path": FA, "find": "return FlodymArray(dims=self.dims, values=-self.values)", "replace": "return FlodymArray(dims=self.dims, values=abs(self.values))"},
]
