"""C19 - exports reproduce every flow and stock under its labels."""
from __future__ import annotations

import ast

from ..core import AnalysisError, Finding
from ..interp import Interp, Obj, PyRaise, run_guarded, PyModel, ItemList
from .. import npmodel as NP
from ..npmodel import AArr
from ..world import World
from ._arr import _locate, ASSUMPTIONS
from . import c02 as SYS

LEVEL = "other"
EXPLANATION = (
    "The export functions (convert_to_dict in numpy and pandas form, export_mfa_to_pickle, export_mfa_flows_to_csv, "
    "export_mfa_stocks_to_csv with and without inflow/outflow, MFADefinition.to_dfs) are evaluated by the enumerative evaluator on "
    "enumerated systems - several graphs; flows over different dimension subsets and orders; flow and stock names with spaces, "
    "arrows and punctuation; dictionary keys that differ from the objects' own name attribute; stocks with and without a process - "
    "with the file system, pickle and DataFrame.to_csv replaced by recording models. Every flow and stock (and, when requested, "
    "each stock's inflow and outflow) must appear exactly once under its key with exactly its values (the same labelled tensor / "
    "the frame made from that very array), together with dimension letters, names, items, the process list, each flow's source "
    "and target and each stock's process; one CSV file per flow and per exported stock quantity with the sanitised name; the "
    "pickle holds exactly the dictionary; nothing in the system is written; to_dfs yields one table per non-empty kind with one "
    "row per definition. That frames re-import to identical arrays is the round-trip statement of C11."
    " Stocks whose names differ by a trailing word that export code also uses as a file-name suffix ('in use', 'in use stock') and a dimensionless flow are part of the systems."
)
TECHNIQUE = "static analysis: abstract interpretation of the export code over enumerated systems with recording models of files / pickle / to_csv; coverage and provenance of every emitted entry"

MOD = "export/data_writer.py"


class DF(PyModel):
    """the frame made by FlodymArray.to_df() from one particular array (identity remembered)"""
    def __init__(self, arr, kwargs, store):
        self.arr, self.kwargs, self.store = arr, kwargs, store

    def to_csv(self, path, *a, **k):
        self.store.append((path, self))


class FileHandle(PyModel):
    def __init__(self, path, mode):
        self.path, self.mode = path, mode

    def close(self):
        pass


def install_io(it: Interp, rec):
    it.method_hooks["FlodymArray.to_df"] = lambda interp, args, kwargs: DF(args[0], dict(kwargs, _pos=args[1:]), rec["csv"])
    it.hooks["os.path.exists"] = lambda p: p in rec["dirs"]
    it.hooks["os.makedirs"] = lambda p, **k: rec["dirs"].add(p)
    it.hooks["os.path.join"] = lambda *parts: "/".join(str(x) for x in parts)
    it.hooks["open"] = lambda path, mode="r", **k: FileHandle(path, mode)
    it.hooks["pickle.dump"] = lambda obj, fh, *a, **k: rec["pickle"].append((obj, fh))

    def pd_to_pickle(obj, path, compression="infer", **k):
        # pandas.to_pickle: a plain pickle stream - unless the path ends in .gz / .bz2 / .zip / .xz / .zst / .tar (compression="infer"), in
        # which case the file is a compressed archive that pickle.load cannot read
        fh = FileHandle(str(path), "wb")
        if compression == "infer" and str(path).lower().endswith((".gz", ".bz2", ".zip", ".xz", ".zst", ".tar", ".tar.gz", ".tar.xz", ".tar.bz2")):
            fh.mode = "wb+compressed"
        elif compression not in ("infer", None):
            fh.mode = "wb+compressed"
        rec["pickle"].append((obj, fh))
    it.hooks["pandas.to_pickle"] = pd_to_pickle


GRAPHS = [
    (["sysenv", "use", "waste"], [("sysenv", "use", "ta"), ("use", "waste", "at"), ("use", "waste", "t"), ("waste", "sysenv", "b")], [("waste", "ta"), (None, "t")]),
    (["sysenv", "use"], [("sysenv", "use", "tab"), ("use", "sysenv", "")], []),
    (["sysenv", "a b", "c => d"], [("sysenv", "a b", "t"), ("a b", "c => d", "ta"), ("c => d", "sysenv", "a")], [("a b", "tb")]),
]


def build(w, graph, keys_differ=False):
    mfa, leafs = SYS.build_system(w, graph)
    if keys_differ == "shared":     # flows and stocks are separate collections: a stock may go by the name of a flow
        if mfa.f["stocks"]:
            first_flow = next(iter(mfa.f["flows"]))
            st = dict(mfa.f["stocks"])
            k0 = next(iter(st))
            mfa.f["stocks"] = {(first_flow if k == k0 else k): v for k, v in st.items()}
        return mfa
    if keys_differ == "suffix":     # two stocks whose names differ by a trailing word that export code also uses as a file-name suffix
        st = list(mfa.f["stocks"].values())
        names = ["in use", "in use stock", "in use inflow", "in use_stock"][:len(st)]
        for n_, s_ in zip(names, st):
            s_.f["name"] = n_
        mfa.f["stocks"] = dict(zip(names, st))
        return mfa
    if keys_differ:     # a hand-assembled system: dictionary keys are not the objects' own names
        flows = mfa.f["flows"]
        mfa.f["flows"] = {f"key {i}: {k}": v for i, (k, v) in enumerate(flows.items())}
        for v in mfa.f["flows"].values():
            v.f["name"] = "unnamed"
        mfa.f["stocks"] = {f"skey {k}": v for k, v in mfa.f["stocks"].items()}
    return mfa


def note(fails, rule, qual, inp, msg):
    k = (rule, qual)
    c = fails.get(k)
    fails[k] = (c[0] + 1, c[1], c[2]) if c else (1, inp, msg)


def same_values(v, arr):
    return isinstance(v, AArr) and isinstance(arr.f.get("values"), AArr) and tuple(v.axes) == tuple(arr.f["values"].axes) and v.term == arr.f["values"].term


def snapshot(w, mfa):
    objs = list(mfa.f["flows"].values())
    for s in mfa.f["stocks"].values():
        objs += [s.f["stock"], s.f["inflow"], s.f["outflow"]]
    return w.snap(*objs, mfa.f["dims"]), (list(mfa.f["flows"]), list(mfa.f["stocks"]), list(mfa.f["processes"]))


def dict_cases(prog, rep, fails):
    rid = "C19.dictionary"
    fn = prog.func(MOD, "convert_to_dict")
    for gi, graph in enumerate(GRAPHS):
        for keys_differ in ((False, True, "shared", "suffix") if graph[2] else (False, True)):
            for typ in ("numpy", "pandas", "default"):
                w = World(prog)
                it = w.it
                rec = {"csv": [], "dirs": set(), "pickle": []}
                install_io(it, rec)
                mfa = build(w, graph, keys_differ)
                snaps, keys = snapshot(w, mfa)
                inp = {"graph": gi, "processes": graph[0], "keys_differ_from_names": keys_differ, "type": typ}
                kind, d = run_guarded(lambda: it.call_fn(fn, [mfa] + ([typ] if typ != "default" else []), {}))
                rep.evaluations += 1
                problems = []
                if kind != "ok" or not isinstance(d, dict):
                    problems.append(f"ended with {kind}: {getattr(d, 'msg', d)!s:.150}")
                else:
                    want_keys = {"dimension_names", "dimension_items", "processes", "flows", "flow_dimensions", "flow_processes", "stocks",
                                 "stock_dimensions", "stock_processes"}
                    if set(d) != want_keys:
                        problems.append(f"keys {sorted(set(d) ^ want_keys)} missing/surplus")
                    else:
                        dims = mfa.f["dims"].f["dim_list"]
                        if d["dimension_names"] != {x.f["letter"]: x.f["name"] for x in dims}:
                            problems.append("dimension_names wrong")
                        if {k: list(v) for k, v in d["dimension_items"].items()} != {x.f["name"]: list(x.f["items"]) for x in dims}:
                            problems.append("dimension_items wrong")
                        if list(d["processes"]) != [p.f["name"] for p in mfa.f["processes"].values()]:
                            problems.append("process list wrong")
                        for section, coll, pick in (("flows", mfa.f["flows"], lambda o: o), ("stocks", mfa.f["stocks"], lambda o: o.f["stock"])):
                            if list(d[section]) != list(coll):
                                problems.append(f"{section}: entries {list(d[section])[:4]} but the system has {list(coll)[:4]}")
                                continue
                            for k, o in coll.items():
                                v = d[section][k]
                                arr = pick(o)
                                if typ == "pandas":
                                    if not (isinstance(v, DF) and v.arr is arr):
                                        problems.append(f"{section}['{k}'] is not the frame of that array")
                                elif not same_values(v, arr):
                                    problems.append(f"{section}['{k}'] does not hold the values of that {section[:-1]}")
                        if {k: tuple(v) for k, v in d["flow_dimensions"].items()} != {k: w.letters(f.f["dims"]) for k, f in mfa.f["flows"].items()}:
                            problems.append("flow_dimensions wrong")
                        if {k: tuple(v) for k, v in d["flow_processes"].items()} != {k: (f.f["from_process"].f["name"], f.f["to_process"].f["name"]) for k, f in mfa.f["flows"].items()}:
                            problems.append("flow_processes (source, target) wrong")
                        if {k: tuple(v) for k, v in d["stock_dimensions"].items()} != {k: w.letters(s.f["stock"].f["dims"]) for k, s in mfa.f["stocks"].items()}:
                            problems.append("stock_dimensions wrong")
                        if d["stock_processes"] != {k: s.f["process"].f["name"] for k, s in mfa.f["stocks"].items() if s.f.get("process") is not None}:
                            problems.append("stock_processes wrong")
                ch = w.changed(snaps)
                if ch or (list(mfa.f["flows"]), list(mfa.f["stocks"]), list(mfa.f["processes"])) != keys:
                    problems.append("exporting altered the system: " + "; ".join(ch))
                ok = not problems
                rep.oblige(rid, ok, where="_convert_to_dict_by_func", what=str(inp), distinct=(rid, gi, keys_differ, typ))
                if not ok:
                    note(fails, rid, "_convert_to_dict_by_func", inp, "; ".join(problems[:3]))
    w = World(prog)
    install_io(w.it, {"csv": [], "dirs": set(), "pickle": []})
    mfa = build(w, GRAPHS[0])
    kind, d = run_guarded(lambda: w.it.call_fn(fn, [mfa, "polars"], {}))
    ok = kind == "raise"
    rep.oblige(rid, ok, where="_get_convert_func", what="unknown type")
    if not ok:
        note(fails, rid, "_get_convert_func", {"type": "polars"}, "an unknown export type was accepted")


def valid_name(it, prog, s):
    return it.call_fn(prog.func("export/helper.py", "to_valid_file_name"), [s], {})


def file_cases(prog, rep, fails):
    for gi, graph in enumerate(GRAPHS):
        for keys_differ in ((False, True, "shared", "suffix") if graph[2] else (False, True)):
            # pickle (the file is a plain pickle stream whatever the chosen file name looks like)
            for out_path in (("out.pickle", "results/run 1.pkl.gz") if keys_differ is False else ("out.pickle",)):
                w = World(prog)
                it = w.it
                rec = {"csv": [], "dirs": set(), "pickle": []}
                install_io(it, rec)
                mfa = build(w, graph, keys_differ)
                snaps, keys = snapshot(w, mfa)
                inp = {"graph": gi, "keys_differ_from_names": keys_differ, "path": out_path}
                kind, r = run_guarded(lambda: it.call_fn(prog.func(MOD, "export_mfa_to_pickle"), [mfa, out_path], {}))
                ref = it.call_fn(prog.func(MOD, "convert_to_dict"), [mfa], {})
                rep.evaluations += 1
                ok = kind == "ok" and len(rec["pickle"]) == 1 and isinstance(rec["pickle"][0][1], FileHandle) and rec["pickle"][0][1].path == out_path \
                    and "w" in rec["pickle"][0][1].mode and "b" in rec["pickle"][0][1].mode and "compressed" not in rec["pickle"][0][1].mode \
                    and dict_equal(rec["pickle"][0][0], ref) and not w.changed(snaps)
                rep.oblige("C19.pickle", ok, where="export_mfa_to_pickle", what=str(inp))
                if not ok:
                    note(fails, "C19.pickle", "export_mfa_to_pickle", inp, f"the pickle does not hold exactly convert_to_dict(mfa) as a plain pickle stream written to the given path ({kind})")
            # flows csv
            w = World(prog)
            it = w.it
            rec = {"csv": [], "dirs": set(), "pickle": []}
            install_io(it, rec)
            mfa = build(w, graph, keys_differ)
            snaps, keys = snapshot(w, mfa)
            kind, r = run_guarded(lambda: it.call_fn(prog.func(MOD, "export_mfa_flows_to_csv"), [mfa, "outdir"], {}))
            rep.evaluations += 1
            problems = []
            if kind != "ok":
                problems.append(f"ended with {kind}: {getattr(r, 'msg', r)!s:.150}")
            else:
                want = {f"outdir/{valid_name(it, prog, k)}.csv": f for k, f in mfa.f["flows"].items()}
                got = {}
                for path, df in rec["csv"]:
                    if path in got:
                        problems.append(f"file {path} written twice")
                    got[path] = df
                if set(got) != set(want):
                    problems.append(f"files {sorted(set(got) ^ set(want))[:4]} missing/surplus (one file per flow, named by the sanitised flow key)")
                else:
                    for path, f in want.items():
                        if got[path].arr is not f:
                            problems.append(f"{path} does not hold that flow")
                if "outdir" not in rec["dirs"]:
                    problems.append("export directory not created")
            if w.changed(snaps):
                problems.append("exporting altered the system")
            rep.oblige("C19.flow-files", not problems, where="export_mfa_flows_to_csv", what=str(inp))
            if problems:
                note(fails, "C19.flow-files", "export_mfa_flows_to_csv", inp, "; ".join(problems[:3]))
            # stocks csv
            for wio in (False, True):
                w = World(prog)
                it = w.it
                rec = {"csv": [], "dirs": set(), "pickle": []}
                install_io(it, rec)
                mfa = build(w, graph, keys_differ)
                snaps, keys = snapshot(w, mfa)
                kw = {"with_in_and_out": True} if wio else {}
                kind, r = run_guarded(lambda: it.call_fn(prog.func(MOD, "export_mfa_stocks_to_csv"), [mfa, "outdir"], kw))
                rep.evaluations += 1
                inp2 = dict(inp, with_in_and_out=wio)
                problems = []
                if kind != "ok":
                    problems.append(f"ended with {kind}: {getattr(r, 'msg', r)!s:.150}")
                else:
                    want = {}
                    for k, s in mfa.f["stocks"].items():
                        want[f"outdir/{valid_name(it, prog, k)}_stock.csv"] = s.f["stock"]
                        if wio:
                            want[f"outdir/{valid_name(it, prog, k)}_inflow.csv"] = s.f["inflow"]
                            want[f"outdir/{valid_name(it, prog, k)}_outflow.csv"] = s.f["outflow"]
                    got = {}
                    for path, df in rec["csv"]:
                        if path in got:
                            problems.append(f"file {path} written twice")
                        got[path] = df
                    if set(got) != set(want):
                        problems.append(f"files {sorted(set(got) ^ set(want))[:4]} missing/surplus (one file per exported stock quantity)")
                    else:
                        for path, a in want.items():
                            if got[path].arr is not a:
                                problems.append(f"{path} holds another array than the one its name says")
                if w.changed(snaps):
                    problems.append("exporting altered the system")
                rep.oblige("C19.stock-files", not problems, where="export_mfa_stocks_to_csv", what=str(inp2))
                if problems:
                    note(fails, "C19.stock-files", "export_mfa_stocks_to_csv", inp2, "; ".join(problems[:3]))


def stock_export_history(prog, rep, fails):
    """one process: export_mfa_stocks_to_csv(with_in_and_out=True), then the default call - the second writes the stock files only"""
    for gi, graph in enumerate(GRAPHS):
        if not graph[2]:
            continue
        w = World(prog)
        it = w.it
        rec = {"csv": [], "dirs": set(), "pickle": []}
        install_io(it, rec)
        mfa = build(w, graph)
        k1, _ = run_guarded(lambda: it.call_fn(prog.func(MOD, "export_mfa_stocks_to_csv"), [mfa, "outdir"], {"with_in_and_out": True}))
        k0, _ = run_guarded(lambda: it.call_fn(prog.func(MOD, "export_mfa_flows_to_csv"), [mfa, "outdir"], {}))
        rec["csv"].clear()
        kind, r = run_guarded(lambda: it.call_fn(prog.func(MOD, "export_mfa_stocks_to_csv"), [mfa, "outdir2"], {}))
        rep.evaluations += 1
        inp = {"graph": gi, "history": "export_mfa_stocks_to_csv(with_in_and_out=True); export_mfa_flows_to_csv(); export_mfa_stocks_to_csv()"}
        want = {f"outdir2/{valid_name(it, prog, k)}_stock.csv" for k in mfa.f["stocks"]}
        got = [p for p, _ in rec["csv"]]
        ok = kind == "ok" and set(got) == want and len(got) == len(want)
        rep.oblige("C19.stock-files", ok, where="export_mfa_stocks_to_csv", what=str(inp))
        if not ok:
            note(fails, "C19.stock-files", "export_mfa_stocks_to_csv", inp,
                 f"the default call after one with in/outflow writes {sorted(got)[:6]}; exactly {sorted(want)} are requested")


def dict_equal(a, b):
    if isinstance(a, dict) and isinstance(b, dict):
        return list(a) == list(b) and all(dict_equal(a[k], b[k]) for k in a)
    if isinstance(a, (list, tuple)) and isinstance(b, (list, tuple)):
        return len(a) == len(b) and all(dict_equal(x, y) for x, y in zip(a, b))
    if isinstance(a, AArr) and isinstance(b, AArr):
        return tuple(a.axes) == tuple(b.axes) and a.term == b.term
    if isinstance(a, DF) and isinstance(b, DF):
        return a.arr is b.arr
    return a == b


class Row(PyModel):
    def __init__(self, d):
        self.d = d


class RowType(PyModel):
    """pandas.DataFrame (the class) as used by to_dfs: one row from a dict of one-element lists"""
    def __call__(self, d=None, **k):
        if isinstance(d, list) and all(isinstance(x, dict) for x in d):
            return self.from_records(d)
        return Row(d)

    def from_dict(self, d, **k):
        return Row(d)

    def from_records(self, records, **k):
        """one frame from a list of dicts.  pandas >= 3 infers the dtype per COLUMN: a column holding Python strings and None becomes
        a `str` column whose missing entries are NaN (a frame made from ONE record keeps None in an object column)."""
        from ..pdmodel import NaN
        records = [dict(r) for r in records]
        cols = []
        for r in records:
            for c in r:
                if c not in cols:
                    cols.append(c)
        for c in cols:
            vals = [r.get(c) for r in records]
            if any(isinstance(v, str) for v in vals) and any(v is None for v in vals) and all(v is None or isinstance(v, str) for v in vals):
                for r in records:
                    if r.get(c) is None:
                        r[c] = NaN
        return Table([Row({c: [r.get(c, NaN)] for c in cols}) for r in records])


class Table(PyModel):
    def __init__(self, rows):
        self.rows = rows


def to_dfs_cases(prog, rep, fails):
    from .c18 import defs
    rid = "C19.definition-tables"
    for variant in ("full", "no-stocks", "empty"):
        w = World(prog)
        it = w.it
        it.hooks["pandas.DataFrame"] = RowType()
        it.hooks["pandas.concat"] = lambda rows, **k: Table(list(rows))
        strT = it.builtin("str")
        dd = [defs(w, "DimensionDefinition", name="Time", letter="t", dtype=strT), defs(w, "DimensionDefinition", name="Aa", letter="a", dtype=strT)]
        fl = [defs(w, "FlowDefinition", from_process_name="sysenv", to_process_name="use", dim_letters=("t", "a")),
              defs(w, "FlowDefinition", from_process_name="use", to_process_name="sysenv", dim_letters=("a",), name_override="back")]
        st = [] if variant != "full" else [defs(w, "StockDefinition", name="s", dim_letters=("t",), subclass=prog.cls("SimpleFlowDrivenStock"))]
        pr = [defs(w, "ParameterDefinition", name="p", dim_letters=("a",))]
        if variant == "empty":
            dd, fl, pr, procs = [], [], [], []
        else:
            procs = ["sysenv", "use"]
        d = defs(w, "MFADefinition", dimensions=dd, processes=procs, flows=fl, stocks=st, parameters=pr)
        kind, r = run_guarded(lambda: it.call_method(d, "to_dfs"))
        rep.evaluations += 1
        problems = []
        if kind != "ok" or not isinstance(r, dict):
            problems.append(f"ended with {kind}: {getattr(r, 'msg', r)!s:.150}")
        else:
            lists = {"dimensions": dd, "processes": procs, "flows": fl, "stocks": st, "parameters": pr}
            want = [k for k, v in lists.items() if v]
            if sorted(r) != sorted(want):
                problems.append(f"tables {sorted(r)} for the non-empty kinds {sorted(want)}")
            else:
                for k in want:
                    t = r[k]
                    if not isinstance(t, Table) or len(t.rows) != len(lists[k]):
                        problems.append(f"table '{k}' does not have one row per definition")
                        continue
                    for row, dfn in zip(t.rows, lists[k]):
                        if isinstance(dfn, str):
                            if row.d != {"name": [dfn]}:
                                problems.append("process row wrong")
                        else:
                            vals = {kk: vv[0] if isinstance(vv, list) and len(vv) == 1 else vv for kk, vv in row.d.items()}
                            fields = {kk: vv for kk, vv in dfn.f.items() if not kk.startswith("_")}
                            if set(vals) != set(fields) or any(not it.py_eq(vals[x], fields[x]) and vals[x] is not fields[x] for x in fields):
                                problems.append(f"row of table '{k}' does not hold the definition's field values")
        rep.oblige(rid, not problems, where="MFADefinition.to_dfs", what=variant)
        if problems:
            note(fails, rid, "MFADefinition.to_dfs", {"definition": variant}, "; ".join(problems[:3]))


def run(prog, rep):
    for rid, txt in [("C19.dictionary", "convert_to_dict holds every flow / stock under its key with its values, plus dims, processes, endpoints"),
                     ("C19.pickle", "the pickle is exactly that dictionary, written to the given path"),
                     ("C19.flow-files", "one CSV per flow, sanitised name, holding that flow"),
                     ("C19.stock-files", "one CSV per exported stock quantity, inflow/outflow only when requested"),
                     ("C19.definition-tables", "to_dfs: one table per non-empty kind, one row per definition with its field values")]:
        rep.rule(rid, txt)
    for f in ("convert_to_dict", "export_mfa_to_pickle", "export_mfa_flows_to_csv", "export_mfa_stocks_to_csv"):
        prog.func(MOD, f)
    fails = {}
    dict_cases(prog, rep, fails)
    stock_export_history(prog, rep, fails)
    file_cases(prog, rep, fails)
    to_dfs_cases(prog, rep, fails)
    for (rule, qual), (count, inp, msg) in sorted(fails.items()):
        module, line, sig = _locate(prog, qual)
        rep.add(Finding("C19", rule, module, qual, sig, f"{msg} [{count} case(s)]", line=line, abstract_input=inp))
    rep.rules["C19.dictionary"]["floor"] = 15
    rep.rules["C19.stock-files"]["floor"] = 10
    rep.exhaustive = True
    rep.assumptions += ASSUMPTIONS[:1] + ["FlodymArray.to_df, DataFrame.to_csv, open, pickle.dump, os.makedirs are recording models (to_df itself is decided under C11); "
                                          "re / unicodedata (file-name sanitising) are evaluated as the standard library defines them"]


MUTANTS = [
    {"name": "flows-keyed-by-own-name", "path": MOD, "find": 'dict_out["flows"] = {n: convert_func(f) for n, f in mfa.flows.items()}',
     "replace": 'dict_out["flows"] = {f.name: convert_func(f) for f in mfa.flows.values()}'},
    {"name": "inflow-outflow-swapped", "path": MOD, "find": '            output_items["inflow"] = stock.inflow\n            output_items["outflow"] = stock.outflow',
     "replace": '            output_items["inflow"] = stock.outflow\n            output_items["outflow"] = stock.inflow'},
    {"name": "filter-on-flow-loop", "path": MOD, "find": "    for flow_name, flow in mfa.flows.items():\n        path_out",
     "replace": "    for flow_name, flow in mfa.flows.items():\n        if flow.dims.ndim == 0:\n            continue\n        path_out"},
    {"name": "stocks-exported-without-request-flag", "path": MOD, "find": "        if with_in_and_out:\n", "replace": "        if True:\n"},
    {"name": "stock-values-are-inflow", "path": MOD, "find": 'dict_out["stocks"] = {s_name: convert_func(s.stock) for s_name, s in mfa.stocks.items()}',
     "replace": 'dict_out["stocks"] = {s_name: convert_func(s.inflow) for s_name, s in mfa.stocks.items()}'},
    {"name": "flow-processes-swapped", "path": MOD, "find": "n: (f.from_process.name, f.to_process.name) for n, f in mfa.flows.items()", "replace": "n: (f.to_process.name, f.from_process.name) for n, f in mfa.flows.items()"},
    {"name": "pickle-of-pandas-dict", "path": MOD, "find": "    dict_out = convert_to_dict(mfa)\n    pickle.dump", "replace": '    dict_out = convert_to_dict(mfa, "pandas")\n    pickle.dump'},
    {"name": "stock-file-name-without-quantity", "path": MOD, "find": 'f"{to_valid_file_name(stock_name)}_{attribute_name}.csv"', "replace": 'f"{to_valid_file_name(stock_name)}.csv"'},
    {"name": "export-zeroes-flows", "path": MOD, "find": "        flow.to_df().to_csv(path_out)", "replace": "        flow.to_df().to_csv(path_out)\n        flow.values[...] = 0"},
    {"name": "to_dfs-skips-processes", "path": "mfa_definition.py", "find": "            if not def_list:\n                continue", "replace": "            if not def_list or field_name == \"processes\":\n                continue"},
    {"name": "dimension-items-by-letter (layout change)", "path": MOD, "find": 'dict_out["dimension_items"] = {d.name: d.items for d in mfa.dims}', "replace": 'dict_out["dimension_items"] = {d.letter: d.items for d in mfa.dims}'},
]
