"""C03 - computed stocks conserve mass: stock change = net inflow x interval length."""
from __future__ import annotations

from .. import stockcases as SC
from ._stk import run_stock_property, ASSUMPTIONS

LEVEL = "other"
ENGINE = "fdv-symbolic-grid-evaluator"
EXPLANATION = (
    "The repository's compute() paths (AST of stocks.py / lifetime_models.py) are evaluated on small time grids with ALL numbers "
    "symbolic - time items x0<x1<... (so unit, constant non-unit and uneven spacing are all instances), every driver entry, every "
    "lifetime parameter, survival functions as uninterpreted symbols - for the flow-driven stock, the inflow-driven DSM and the "
    "stock-driven DSM with both solvers, all five lifetime models and parameter shapes, 0-2 label dimensions. On the resulting exact "
    "rational functions the property is checked literally: interval lengths equal the documented ones (bounds at midpoints, first/"
    "last interval mirroring the neighbour) for all real items; stock(t)-stock(t-1) = dt(t)*(inflow(t)-outflow(t)) with stock(-1)=0 "
    "as a polynomial identity at every index; get_stock_balance() of the computed stock is identically zero (so check_stock_balance "
    "accepts it). Exact for all real values on the enumerated grid shapes; floating-point rounding and the thresholds 1 / 0.001 of "
    "check_stock_balance are not decided.")
TECHNIQUE = "static analysis: abstract interpretation of the stock kernels over exact symbolic rational forms on bounded grids; the balance identity checked as a polynomial identity"


def jobs_for(tier):
    jobs = [("simple", c) for c in SC.simple_configs(tier)]
    jobs += [("inflow", c) for c in SC.dsm_configs(tier)]
    jobs += [("stockdriven", dict(c, both_generic=True)) for c in SC.dsm_configs(tier) if c["n_pts"] == 1 and c["n_t"] <= 4]
    jobs += [("stockdriven", c) for c in SC.int_driver_configs(tier) + SC.layout_configs(tier)]
    jobs += [("stockdriven", dict(n_t=3, labels=(), dist="NormalLifetime", over="number", n_pts=n, inflow_at="end", both_generic=True)) for n in (1, 2)]
    for cls in ("SimpleFlowDrivenStock", "InflowDrivenDSM"):
        for labels in ((), ("a",)):
            for p in ["none"] + list(SC.PERTURBATIONS):
                jobs.append(("balcheck", dict(n_t=3, labels=labels, cls=cls, perturbation=p)))
    # a recomputed stock must balance as well (driver replaced, driver set to zero, parameters replaced)
    cfg = dict(n_t=3, labels=("a",), dist="NormalLifetime", over="all", n_pts=1, inflow_at="middle")
    for cls in ("InflowDrivenDSM", "StockDrivenDSM", "SimpleFlowDrivenStock"):
        for h in ("CZC", "CDC", "CPC", "ZC"):
            jobs.append(("history", cfg, cls, h))
    return jobs


def run(prog, rep):
    rep.rule("C03.interval-lengths", "interval lengths = documented formula for all real time items")
    rep.rule("C03.balance-identity", "stock(t) - stock(t-1) = dt(t) * (inflow(t) - outflow(t)) exactly, at every index, for every stock class / solver")
    rep.rule("C03.self-check-accepts", "get_stock_balance() of a freshly computed stock is identically zero")
    for c, m in (("Stock", "get_stock_balance"), ("SimpleFlowDrivenStock", "compute"), ("InflowDrivenDSM", "compute"),
                 ("StockDrivenDSM", "compute")):
        prog.method(c, m)
    run_stock_property(prog, rep, "C03", jobs_for(rep.tier),
                       {"dt-formula": "C03.interval-lengths", "balance": "C03.balance-identity", "self-check": "C03.self-check-accepts"})
    rep.rules["C03.balance-identity"]["floor"] = 20
    rep.exhaustive = True
    rep.assumptions += ASSUMPTIONS


ST = "stocks.py"
LM = "lifetime_models.py"
MUTANTS = [
    {"name": "D13-balance-without-interval-length", "path": ST, "find": "return self._to_whole_period(self.inflow.values - self.outflow.values) - dsdt",
     "replace": "return self.inflow.values - self.outflow.values - dsdt"},
    {"name": "D11-outflow-without-interval-conversion", "path": ST,
     "find": "        self._outflow_by_cohort = self._to_annual(outflow_by_cohort_per_period)\n", "replace": "        self._outflow_by_cohort = outflow_by_cohort_per_period\n"},
    {"name": "compute_stock-drops-whole-period", "path": ST, "find": "        inflow_per_period = self._to_whole_period(self.inflow.values)\n        self._stock_by_cohort = np.einsum(",
     "replace": "        inflow_per_period = self.inflow.values\n        self._stock_by_cohort = np.einsum("},
    {"name": "to_annual-multiplies", "path": ST, 'find': 'return np.einsum("t...,t->t...", whole_period_flow, 1.0 / self._t.interval_lengths)',
     "replace": 'return np.einsum("t...,t->t...", whole_period_flow, self._t.interval_lengths)'},
    {"name": "simple-cumsum-of-rate", "path": ST, "find": "        self.stock.values[...] = np.cumsum(net_inflow_whole_period, axis=0)", "replace": "        self.stock.values[...] = np.cumsum(annual_net_inflow, axis=0)"},
    {"name": "bounds-mirror-around-first-item", "path": LM, "find": "                [middle[0] - (middle[1] - middle[0])],", "replace": "                [2 * self.dim.items[0] - middle[0]],"},
    {"name": "last-bound-not-mirrored", "path": LM, "find": "                [middle[-1] + (middle[-1] - middle[-2])],", "replace": "                [middle[-1] + (middle[1] - middle[0])],"},
    {"name": "manual-solver-stores-whole-period-inflow", "path": ST,
     "find": "            inflow_whole_period[i, ...] = (stock_i - (sf_ij * inflow_j).sum(axis=0)) / sf_ii\n        self.inflow.values[...] = self._to_annual(inflow_whole_period)",
     "replace": "            inflow_whole_period[i, ...] = (stock_i - (sf_ij * inflow_j).sum(axis=0)) / sf_ii\n        self.inflow.values[...] = inflow_whole_period"},
    {"name": "einsum-notation-rewrite (equivalent)", "path": ST, 'find': 'return np.einsum("t...,t->t...", annual_flow, self._t.interval_lengths)',
     "replace": 'return np.einsum("i...,i->i...", annual_flow, self._t.interval_lengths)', "expect": "survive"},
]
