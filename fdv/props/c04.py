"""C04 - results do not depend on the storage order of dimensions."""
from __future__ import annotations

from .. import arrays as AR
from ._arr import run_array_property, ASSUMPTIONS

LEVEL = "other"
EXPLANATION = (
    "Metamorphic judgement on the labelled-tensor domain, independent of any oracle: every public array operation (arithmetic, "
    "sums / casts / shares / cumsum, slice reads and assignments with every key form and right-hand-side kind, stacking and "
    "splitting, lifetime-model parameters via constructor and set_prms) is evaluated abstractly for EVERY storage order of every "
    "participating array over the alphabet (3 letters quick, 4 thorough), under pairwise different AND under all-equal dimension "
    "lengths; all evaluations that differ only in storage orders are grouped and must yield the same labelled tensor (same items "
    "per dimension letter, same symbolic entry) - or all raise. In addition any positional line-up of axes over different items "
    "inside the code is a violation whatever the lengths. DataFrame export/import is covered by the label-provenance rules of C11.")
TECHNIQUE = "static analysis: abstract interpretation on a labelled-tensor domain; results grouped over all storage-order permutations must coincide"


def family(prog, name, tier, taint_mode):
    alpha = "abc" if tier == "quick" else "abcd"
    if name == "arith":
        return AR.arith_cases(prog, alpha, None, taint_mode)
    if name == "reduce":
        return AR.reduce_cases(prog, alpha, None, taint_mode)
    if name == "permuted":
        return AR.permuted_storage_index_cases(prog, taint_mode)
    if name == "index":
        return AR.index_cases(prog, 3, taint_mode)
    if name == "misc":
        return AR.misc_index_cases(prog, taint_mode)
    if name == "lifetime":
        return AR.lifetime_param_cases(prog, "tab" if tier == "quick" else "tabc", taint_mode)
    raise KeyError(name)


def run(prog, rep):
    rep.rule("C04.order-independence", "evaluations differing only in storage orders give the same labelled result")
    rep.rule("C04.no-positional-mixup", "no operation lines up axes over different items / every result carries its dims' items")
    aspects = {("*", "order-independence"): "C04.order-independence", ("*", "result"): "C04.no-positional-mixup"}
    prog.method("FlodymArray", "cast_values_to")
    prog.method("LifetimeModel", "cast_any_to_np_array")
    fams = ["arith", "reduce", "permuted", "index", "misc", "lifetime"]
    run_array_property(prog, rep, "C04", fams + [f + "@uniform" for f in fams], aspects)
    rep.rules["C04.order-independence"]["floor"] = 400
    if rep.exhaustive is None:
        rep.exhaustive = True
    rep.assumptions += ASSUMPTIONS


FA = "flodym_arrays.py"
LM = "lifetime_models.py"
MUTANTS = [
    {"name": "cast-without-reorder", "path": FA,
     "find": "        values = np.einsum(\n            f\"{self.dims.string}->{''.join([d for d in target_dims.letters if d in self.dims.letters])}\",\n            self.values,\n        )\n",
     "replace": "        values = self.values\n"},
    {"name": "lifetime-param-broadcast-instead-of-cast", "path": LM,
     "find": "            prm_out = prm_in.cast_to(target_dims=self.dims).values", "replace": "            prm_out = np.ndarray(self.shape)\n            prm_out[...] = prm_in.values"},
    {"name": "mul-operand-subscripts-swapped", "path": FA,
     "find": 'f"{self.dims.string},{other.dims.string}->{dims_out.string}", self.values, other.values',
     "replace": 'f"{other.dims.string},{self.dims.string}->{dims_out.string}", self.values, other.values'},
    {"name": "D5-mesh-guard-counts-lists-only", "path": FA,
     "find": "        requires_conversion = n_lists > 0 and n_lists + n_ints > 1\n", "replace": "        requires_conversion = n_lists > 1\n"},
    {"name": "setitem-skip-sum-when-shapes-equal", "path": FA, "find": "            self.values[slice_obj.ids] = item.sum_values_to(slice_obj.dim_letters)",
     "replace": "            if item.shape == slice_obj.dims_out.shape:\n                self.values[slice_obj.ids] = item.values\n            else:\n                self.values[slice_obj.ids] = item.sum_values_to(slice_obj.dim_letters)"},
    {"name": "pow-skip-cast-when-same-dim-set", "path": FA, "find": "        power = power.cast_to(self.dims)\n",
     "replace": "        if self.dims ^ power.dims:\n            power = power.cast_to(self.dims)\n"},
    {"name": "cumsum-literal-axis", "path": FA, "find": "        i_axis = self.dims.letters.index(dim_letter)", "replace": "        i_axis = 0"},
    {"name": "cast-transpose-correct (equivalent)", "path": FA,
     "find": "        values = np.einsum(\n            f\"{self.dims.string}->{''.join([d for d in target_dims.letters if d in self.dims.letters])}\",\n            self.values,\n        )\n",
     "replace": "        order = [d for d in target_dims.letters if d in self.dims.letters]\n        values = np.transpose(self.values, [self.dims.letters.index(d) for d in order])\n",
     "expect": "survive"},
]
