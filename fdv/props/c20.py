"""C20 - Sankey and line plots show the system's numbers under the right labels."""
from __future__ import annotations

import itertools

from ..core import AnalysisError, Finding
from ..interp import Interp, Obj, PyRaise, run_guarded, PyModel, ItemList, AnalysisAbort
from .. import npmodel as NP
from ..npmodel import AArr, SymScalar, t_sum, t_in, vkey
from ..world import World
from ._arr import _locate, ASSUMPTIONS
from . import c02 as SYS

LEVEL = "other"
EXPLANATION = (
    "The plotters are evaluated by the enumerative evaluator with plotly / matplotlib replaced by recording models (Figure, "
    "Sankey, Scatter, make_subplots, Axes.plot/scatter/fill_between). Sankey: over enumerated systems (graphs with parallel and "
    "opposing flows, flows of different dimensionality), every listed combination of slice dictionary (none / one letter / a letter "
    "only some flows have), excluded processes (default sysenv / none / an inner process that leaves another process unconnected), "
    "excluded flows and colour settings (plain / split by a dimension) the recorded links must be exactly one per shown flow (or "
    "per item when split) whose value is, as a symbolic entry, that flow's total after the slice, whose source/target indices "
    "point - in the recorded node list - at the source/target process, and no excluded process or flow may appear. Array "
    "plotters (plotly and pyplot; line / scatter / area): for 1-3 dimensional arrays and every assignment of the dimensions to "
    "subplot, line and x roles, by name and by letter, with and without an x array, every recorded line must have as y exactly "
    "the array's entries for that subplot item and line item along the chosen dimension and as x that dimension's items or the "
    "matching entries of the x array, in a distinct grid cell per subplot item. What plotly / matplotlib render is not decided. "
    "Also: exclusions added to an existing Sankey plotter after it has plotted; hand-built systems whose process ids are not in listing order."
    ' display_names showing two processes under one label, a caller-supplied plotly figure laid out as one row / one column, and time items that are text reading like numbers are part of the cases.'
)
TECHNIQUE = "static analysis: abstract interpretation of the plotting code with recording models of plotly/matplotlib; provenance of every plotted number on the labelled-tensor domain"


# ------------------------------------------------------------------ recording models of the plotting libraries
class Rec(PyModel):
    """generic record of a plotting-library object: keeps constructor arguments and method calls"""
    def __init__(self, kind, args=(), kwargs=None, log=None):
        object.__setattr__(self, "_kind", kind)
        object.__setattr__(self, "_args", args)
        object.__setattr__(self, "_kwargs", dict(kwargs or {}))
        object.__setattr__(self, "_calls", [])
        object.__setattr__(self, "_log", log if log is not None else [])

    def __getattr__(self, name):
        if name.startswith("_"):
            raise AttributeError(name)
        if name in self._kwargs and name not in ("update_xaxes",):
            return self._kwargs[name]

        def call(*a, **k):
            self._calls.append((name, a, k))
            self._log.append((self, name, a, k))
            if name == "get_legend_handles_labels":
                return ([], [])
            return None
        return call


class Fig(Rec):
    def __init__(self, log, axes=None, grid=None):
        super().__init__("figure", log=log)
        object.__setattr__(self, "axes", axes or [])
        object.__setattr__(self, "grid", grid)

    def _validate_get_grid_ref(self):
        r, c = self.grid
        return [[None] * c for _ in range(r)]

    def subplots(self, nrows=1, ncols=1, **k):
        """Figure.subplots: NEW axes are added to the figure (behind the ones it already has in fig.axes)"""
        new = [Rec("axes", log=self._log) for _ in range(int(nrows) * int(ncols))]
        self.axes.extend(new)
        object.__setattr__(self, "grid", (int(nrows), int(ncols)))
        self._log.append((self, "fig.subplots", (nrows, ncols), k))
        return new if len(new) > 1 else new[0]

    def get_axes(self):
        return list(self.axes)


def install_plot_models(it: Interp, log):
    def make_subplots(rows=1, cols=1, **k):
        f = Fig(log, grid=(int(rows), int(cols)))
        log.append((f, "make_subplots", (rows, cols), k))
        return f

    def plt_subplots(nrows=1, ncols=1, **k):
        axes = [Rec("axes", log=log) for _ in range(int(nrows) * int(ncols))]
        f = Fig(log, axes=axes, grid=(int(nrows), int(ncols)))
        log.append((f, "plt.subplots", (nrows, ncols), k))
        return f, axes
    figures = {}

    def plt_figure(num=None, **k):
        """pyplot keeps its figures: plt.figure(num) with a number / label that is still open hands out THAT figure again"""
        if num is not None and num in figures:
            return figures[num]
        f = Fig(log, axes=[], grid=None)
        log.append((f, "plt.figure", (num,), k))
        if num is not None:
            figures[num] = f
        return f
    it.hooks["plotly.subplots.make_subplots"] = make_subplots
    it.hooks["matplotlib.pyplot.subplots"] = plt_subplots
    it.hooks["matplotlib.pyplot.figure"] = plt_figure
    it.hooks["plotly.graph_objects.Scatter"] = lambda **k: Rec("scatter", kwargs=k, log=log)
    it.hooks["plotly.graph_objects.Sankey"] = lambda **k: Rec("sankey", kwargs=k, log=log)
    it.hooks["plotly.graph_objects.Figure"] = lambda *a, **k: Rec("go.Figure", args=a, kwargs=k, log=log)
    it.hooks["plotly.colors.qualitative.Dark24"] = [f"c{i}" for i in range(24)]


def note(fails, rule, qual, inp, msg):
    k = (rule, qual)
    c = fails.get(k)
    fails[k] = (c[0] + 1, c[1], c[2]) if c else (1, inp, msg)


# ------------------------------------------------------------------ Sankey
SANKEY_GRAPHS = [
    (["sysenv", "use", "reuse", "waste"], [("sysenv", "use", "ta"), ("use", "reuse", "at"), ("use", "waste", "t"), ("reuse", "use", "a"), ("waste", "sysenv", "tab")], []),
    (["sysenv", "use", "waste"], [("sysenv", "use", "ta"), ("use", "waste", "ta"), ("use", "waste", "b")], []),
]


def sankey_cases(prog, rep, fails):
    rid = "C20.sankey-links"
    P = prog.cls("PlotlySankeyPlotter")
    settings = []
    for slice_kind in ("none", "a", "b"):
        for excl_p in (None, [], ["sysenv", "reuse"]):
            for excl_f in ([], ["first"], ["isolate"]):
                for split in (None, "a", "aa"):
                    settings.append((slice_kind, excl_p, excl_f, split, False))
                    if split is None and excl_f == [] and slice_kind == "none":
                        settings.append((slice_kind, excl_p, excl_f, split, "ids"))     # hand-built system: ids not in listing order, with gaps
                        settings.append((slice_kind, excl_p, excl_f, split, "display"))  # display_names: every process renamed, two of them to the SAME label
                    if split is None and (excl_p or excl_f) and excl_p != []:
                        # history: the plotter exists (and has plotted) with default exclusions; the exclusions are then assigned
                        settings.append((slice_kind, excl_p, excl_f, split, True))
    for gi, graph in enumerate(SANKEY_GRAPHS):
        for slice_kind, excl_p, excl_f, split, late in settings:
            if excl_p and any(p not in graph[0] for p in excl_p):
                continue
            if not take():
                continue
            w = World(prog, "concrete")
            it = w.it
            log = []
            install_plot_models(it, log)
            proc_ids = None
            if late == "ids":
                others = [p for p in graph[0] if p != "sysenv"]
                proc_ids = {"sysenv": 0, **{p: 3 * (len(others) - i) + 1 for i, p in enumerate(others)}}
            mfa, leafs = SYS.build_system(w, graph, proc_ids=proc_ids)
            fnames = list(mfa.f["flows"])
            kw = dict(mfa=mfa)
            slice_dict = {}
            if slice_kind != "none":
                slice_dict = {slice_kind: w.items(slice_kind)[1]}
                kw["slice_dict"] = dict(slice_dict)
            if excl_p is not None:
                kw["exclude_processes"] = list(excl_p)
            ef = [fnames[1]] if excl_f == ["first"] else []
            if excl_f == ["isolate"]:      # every flow touching the first shown process: it stays a node without links
                first_shown = next(p for p in graph[0] if p not in (["sysenv"] if excl_p is None else excl_p))
                ef = [n for n in fnames if first_shown in (leafs[n][2], leafs[n][3])]
                if len(ef) == len(fnames):
                    continue
            if ef:
                kw["exclude_flows"] = list(ef)
            split_flow = None
            if split:
                split_flow = next((n for n in fnames if "a" in leafs[n][1]), None)
                kw["flow_color_dict"] = {"default": "grey", split_flow: (split, [f"col{i}" for i in range(9)])}
            if split and "a" in slice_dict:
                continue        # split by a dimension that the slice removes: not a meaningful setting
            inp = {"graph": gi, "slice": slice_dict, "exclude_processes": excl_p if excl_p is not None else "default", "exclude_flows": ef,
                   "split_flow_by": split, "split_flow": split_flow}
            if late == "ids":
                inp["process_ids"] = proc_ids
                late = False
            shown_as = None
            if late == "display":
                late = False
                shown0 = [p for p in graph[0] if p not in (["sysenv"] if excl_p is None else excl_p)]
                if len(shown0) < 2:
                    continue
                shown_as = {p: f"P{i}" for i, p in enumerate(shown0)}
                shown_as[shown0[-1]] = shown_as[shown0[0]]          # e.g. two plants shown under one short label
                kw["display_names"] = dict(shown_as)
                inp["display_names"] = dict(shown_as)
            if late:
                inp["history"] = "plotter built and plotted without these exclusions; exclude_processes / exclude_flows assigned afterwards; plot() again"
                late_kw = {k: kw.pop(k) for k in ("exclude_processes", "exclude_flows") if k in kw}
            kind, pl = run_guarded(lambda: it.construct(P, [], kw))
            rep.evaluations += 1
            if kind != "ok":
                rep.oblige(rid, False, where="PlotlySankeyPlotter", what=str(inp))
                note(fails, rid, "PlotlySankeyPlotter", inp, f"valid plotter settings were refused: {getattr(pl, 'msg', pl)!s:.150}")
                continue
            kind, fig = run_guarded(lambda: it.call_method(pl, "plot"))
            if late and kind == "ok":
                # exclusions are only ever ADDED here (the default excludes sysenv); a plotter that refuses the assignment is not judged
                ka, _ = run_guarded(lambda: [it.set_attr(pl, k, v, None) for k, v in late_kw.items()])
                if ka != "ok":
                    continue
                kind, fig = run_guarded(lambda: it.call_method(pl, "plot"))
            problems = []
            sank = None
            if kind == "ok" and isinstance(fig, Rec) and fig._args and isinstance(fig._args[0], Rec) and fig._args[0]._kind == "sankey":
                sank = fig._args[0]
            if sank is None:
                problems.append(f"plot() ended with {kind}: {getattr(fig, 'msg', fig)!s:.150}")
            else:
                links, nodes = sank._kwargs.get("link"), sank._kwargs.get("node")
                excluded = set(["sysenv"] if excl_p is None else excl_p)
                shown_p = [p for p in graph[0] if p not in excluded]
                exp = []
                for n in fnames:
                    leaf, dims, fr, to = leafs[n]
                    if n in ef or fr in excluded or to in excluded:
                        continue
                    X = t_in(leaf, [tuple(w.items(l)) for l in dims])
                    m = {vkey(w.items(l)): ("c", v) for l, v in slice_dict.items() if l in dims}
                    Xs = NP.subst(X, m) if m else X
                    rest = [l for l in dims if l not in slice_dict]
                    if n == split_flow and "a" in rest:
                        for item in w.items("a"):
                            t = NP.subst(Xs, {vkey(w.items("a")): ("c", item)})
                            exp.append((fr, to, t_sum({vkey(w.items(l)) for l in rest if l != "a"}, t), item))
                    elif n == split_flow:
                        exp = None      # split by a dimension that was sliced away: the plotter may refuse; not judged
                        break
                    else:
                        exp.append((fr, to, t_sum({vkey(w.items(l)) for l in rest}, Xs), n))
                if exp is not None:
                    labels = list(nodes.get("label", [])) if isinstance(nodes, dict) else None
                    shown = (lambda p: shown_as.get(p, p)) if shown_as else (lambda p: p)
                    node_of = {}
                    if labels is not None and shown_as and len(labels) != len(shown_p):
                        problems.append(f"{len(labels)} nodes for {len(shown_p)} shown processes")
                    if labels is None or not isinstance(links, dict):
                        problems.append("links / nodes not passed to the Sankey trace")
                    else:
                        if any(p in labels for p in excluded):
                            problems.append(f"an excluded process is among the nodes {labels}")
                        n_links = len(links.get("value", []))
                        if not (len(links.get("source", [])) == len(links.get("target", [])) == n_links == len(links.get("label", []))):
                            problems.append("link lists have different lengths")
                        elif n_links != len(exp):
                            problems.append(f"{n_links} links for {len(exp)} shown flows/items")
                        else:
                            for (fr, to, term, lab), s, t, v in zip(exp, links["source"], links["target"], links["value"]):
                                vs = v.term if isinstance(v, (AArr, SymScalar)) else None
                                if vs != term:
                                    problems.append(f"link '{lab}': value is {NP.show(vs) if vs else v!r}, the flow's total after the slice is {NP.show(term)}"[:300])
                                if not (isinstance(s, int) and isinstance(t, int) and 0 <= s < len(labels) and 0 <= t < len(labels)):
                                    problems.append(f"link '{lab}': source/target {s}/{t} outside the node list of length {len(labels)}")
                                elif labels[s] != shown(fr) or labels[t] != shown(to):
                                    problems.append(f"link '{lab}' runs from node '{labels[s]}' to '{labels[t]}', the flow from '{fr}' to '{to}'")
                                else:
                                    # a node belongs to ONE process (also when two processes are displayed under the same label)
                                    for node, p in ((s, fr), (t, to)):
                                        if node_of.setdefault(node, p) != p:
                                            problems.append(f"link '{lab}': node {node} ('{labels[node]}') stands for process '{node_of[node]}' and for '{p}'")
            ok = not problems
            rep.oblige(rid, ok, where="PlotlySankeyPlotter._get_links_dict", what=str(inp), distinct=(rid, gi, str(inp)))
            if not ok:
                note(fails, rid, "PlotlySankeyPlotter._append_flow", inp, "; ".join(problems[:3]))


# ------------------------------------------------------------------ array plotters
def plot_cases(prog, rep, fails):
    rid = "C20.plotted-lines"
    configs = []
    for dims in (("t",), ("t", "a"), ("a", "t"), ("t", "a", "b"), ("b", "t", "a")):
        for roles in itertools.permutations(dims):
            # roles: (intra_line, [linecolor], [subplot]) over the array's dims
            if len(dims) == 1:
                configs.append((dims, dict(intra_line_dim=roles[0])))
            elif len(dims) == 2:
                configs.append((dims, dict(intra_line_dim=roles[0], linecolor_dim=roles[1])))
                configs.append((dims, dict(intra_line_dim=roles[0], subplot_dim=roles[1])))
            else:
                configs.append((dims, dict(intra_line_dim=roles[0], linecolor_dim=roles[1], subplot_dim=roles[2])))
    for cls_name in ("PlotlyArrayPlotter", "PyplotArrayPlotter"):
        for dims, roles in configs:
            for by in ("letter", "name"):
                for xarr in (None, "same-dims", "subset"):
                    for chart in ("line", "area", "scatter"):
                        if chart != "line" and (by == "name" or xarr == "subset" or len(dims) == 3 and dims[0] != "t"):
                            continue
                        if xarr == "subset" and len(dims) < 2:
                            continue
                        one_plot_case(prog, rep, fails, rid, cls_name, dims, roles, by, xarr, chart)
                        if chart == "line" and xarr is None and by == "letter" and roles.get("intra_line_dim") == "t" and len(dims) <= 2:
                            one_plot_case(prog, rep, fails, rid, cls_name, dims, roles, by, xarr, chart, numeric_text=True)
                        if cls_name == "PlotlyArrayPlotter" and "subplot_dim" in roles and chart == "line" and xarr is None and by == "letter":
                            # a figure laid out by the caller (one row / one column of cells) handed in through fig=
                            for given in ("row", "column"):
                                one_plot_case(prog, rep, fails, rid, cls_name, dims, roles, by, xarr, chart, given_fig=given)


def one_plot_case(prog, rep, fails, rid, cls_name, dims, roles, by, xarr, chart, given_fig=None, numeric_text=False):
    if not take():
        return
    w = World(prog, "concrete")
    if numeric_text:
        w.numeric_text_letters = {"t"}      # the time items are TEXT that reads like numbers ("2020", ...): the x-data are these labels
    it = w.it
    log = []
    install_plot_models(it, log)
    arr = w.array("y", dims)
    kw = dict(array=arr, chart_type=chart)
    if given_fig:
        n_sub = len(w.items(roles["subplot_dim"]))
        kw["fig"] = it.hooks["plotly.subplots.make_subplots"](rows=1 if given_fig == "row" else n_sub, cols=n_sub if given_fig == "row" else 1)
    for k, l in roles.items():
        kw[k] = l if by == "letter" else l * 2
    xa = None
    if xarr == "same-dims":
        xa = w.array("x", tuple(reversed(dims)))
    elif xarr == "subset":
        xa = w.array("x", (roles["intra_line_dim"],))
    if xa is not None:
        kw["x_array"] = xa
    inp = {"plotter": cls_name, "array_dims": list(dims), **{k: v for k, v in kw.items() if isinstance(v, str)}, "x_array": xarr}
    if given_fig:
        inp["fig"] = f"make_subplots with one {given_fig} of {n_sub} cells, passed as fig="
    if numeric_text:
        inp["time_items"] = "text that reads like numbers ('2020', '2021', ...)"
    kind, pl = run_guarded(lambda: it.construct(prog.cls(cls_name), [], kw))
    rep.evaluations += 1
    if kind != "ok":
        rep.oblige(rid, False, where=cls_name, what=str(inp))
        note(fails, rid, "ArrayPlotter.check_dims", inp, f"valid plotter settings were refused: {getattr(pl, 'msg', pl)!s:.150}")
        return
    kind, fig = run_guarded(lambda: it.call_method(pl, "plot"))
    problems = []
    if kind != "ok":
        problems.append(f"plot() ended with {kind}: {getattr(fig, 'msg', fig)!s:.200}")
    else:
        il = roles["intra_line_dim"]
        sub_items = w.items(roles["subplot_dim"]) if "subplot_dim" in roles else [None]
        line_items = w.items(roles["linecolor_dim"]) if "linecolor_dim" in roles else [None]
        Y = t_in("y", [tuple(w.items(l)) for l in dims])
        exp = []
        for si, s in enumerate(sub_items):
            for li in line_items:
                m = {}
                if s is not None:
                    m[vkey(w.items(roles["subplot_dim"]))] = ("c", s)
                if li is not None:
                    m[vkey(w.items(roles["linecolor_dim"]))] = ("c", li)
                yt = NP.subst(Y, m) if m else Y
                if xa is None:
                    xt = ("in", "items", ((NP.universe(w.items(il)[0]), ("v", vkey(w.items(il)))),))
                else:
                    xd = w.letters(xa.f["dims"])
                    Xt = t_in("x", [tuple(w.items(l)) for l in xd])
                    mm = {k: v for k, v in m.items() if any(k == vkey(w.items(l)) for l in xd)}
                    xt = NP.subst(Xt, mm) if mm else Xt
                exp.append((si, xt, yt))
        # recorded lines
        got = []
        if cls_name == "PlotlyArrayPlotter":
            for obj, name, a, k in log:
                if name == "add_trace":
                    tr = k.get("trace", a[0] if a else None)
                    got.append(((k.get("row"), k.get("col")), tr._kwargs.get("x"), tr._kwargs.get("y")))
        else:
            for obj, name, a, k in log:
                if name in ("plot", "scatter", "fill_between") and isinstance(obj, Rec) and obj._kind == "axes":
                    axes = fig.axes if isinstance(fig, Fig) else []
                    got.append((axes.index(obj) if obj in axes else None, a[0] if a else None, a[1] if len(a) > 1 else None))
        if len(got) != len(exp):
            problems.append(f"{len(got)} lines drawn for {len(exp)} (subplot item, line item) pairs")
        else:
            cells = {}
            for (si, xt, yt), (cell, gx, gy) in zip(exp, got):
                gyt = gy.term if isinstance(gy, AArr) else None
                gxt = gx.term if isinstance(gx, AArr) else None
                want_axes = (tuple(w.items(il)),)
                if gyt != yt or tuple(getattr(gy, "axes", ())) != want_axes:
                    problems.append(f"y data of subplot {si} is {NP.show(gyt) if gyt else gy!r}; the array's entries for these labels are {NP.show(yt)}"[:400])
                if gxt != xt or tuple(getattr(gx, "axes", ())) != want_axes:
                    problems.append(f"x data of subplot {si} is {NP.show(gxt) if gxt else gx!r}; expected {NP.show(xt)}"[:400])
                cells.setdefault(cell, set()).add(si)
            if any(len(v) > 1 for v in cells.values()):
                problems.append("two different subplot items are drawn into the same grid cell")
            if None in cells or any(isinstance(c, tuple) and None in c for c in cells):
                problems.append("a line is drawn outside the created grid")
            if isinstance(fig, Fig) and fig.grid:
                r, c = fig.grid
                for cell, sis in cells.items():
                    if isinstance(cell, tuple) and all(isinstance(z, int) for z in cell):
                        if not (1 <= cell[0] <= r and 1 <= cell[1] <= c):
                            problems.append(f"grid cell {cell} outside the created {r}x{c} grid")
                        elif "subplot_dim" in roles and any((si // c + 1, si % c + 1) != cell for si in sis):
                            # make_subplots lays out subplot_titles row by row: title i sits at (i // cols + 1, i % cols + 1)
                            problems.append(f"subplot item {sorted(sis)} is drawn in cell {cell} of the {r}x{c} grid, its title sits in "
                                            f"cell {(min(sis) // c + 1, min(sis) % c + 1)}")
    ok = not problems
    rep.oblige(rid, ok, where=f"{cls_name}.add_line", what=str(inp), distinct=(rid, str(inp)))
    if not ok:
        note(fails, rid, "ArrayPlotter._plot_subplot", inp, "; ".join(problems[:3]))


def pyplot_history_case(prog, rep, fails):
    """two pyplot figures made one after the other in the same process with the SAME title: every line of the second array is
    drawn into axes that hold no line of the first"""
    rid = "C20.plotted-lines"
    for title in ("same title", None):
        w = World(prog, "concrete")
        it = w.it
        log = []
        install_plot_models(it, log)
        first_axes = set()
        ok, msg = True, ""
        for n, name in enumerate(("y1", "y2")):
            arr = w.array(name, ("t", "a"))
            kw = dict(array=arr, intra_line_dim="t", linecolor_dim="a")
            if title is not None:
                kw["title"] = title
            kind, pl = run_guarded(lambda: it.construct(prog.cls("PyplotArrayPlotter"), [], kw))
            if kind != "ok":
                ok, msg = False, f"valid plotter settings were refused: {getattr(pl, 'msg', pl)!s:.120}"
                break
            start = len(log)
            kind, fig = run_guarded(lambda: it.call_method(pl, "plot"))
            if kind != "ok":
                ok, msg = False, f"plot() ended with {kind}: {getattr(fig, 'msg', fig)!s:.150}"
                break
            drawn = [(obj, a) for obj, nm, a, k in log[start:] if nm in ("plot", "scatter", "fill_between") and isinstance(obj, Rec) and obj._kind == "axes"]
            if n == 0:
                first_axes = {id(o) for o, _ in drawn}
            else:
                reused = [a for o, a in drawn if id(o) in first_axes]
                foreign = [a for o, a in drawn if len(a) > 1 and isinstance(a[1], AArr) and "y1" in NP.show(a[1].term)]
                if reused:
                    ok, msg = False, f"{len(reused)} line(s) of the second array are drawn into axes that already hold the first array's lines (the figure of the first plot is reused)"
                elif foreign or len(drawn) != len(w.items("a")):
                    ok, msg = False, f"the second figure shows {len(drawn)} line(s), {len(foreign)} of them with the first array's data"
        rep.evaluations += 1
        inp = {"plotter": "PyplotArrayPlotter", "history": "plot of y1, then plot of y2", "title": title}
        rep.oblige(rid, ok, where="PyplotArrayPlotter.plot", what=str(inp), distinct=(rid, "history", str(title)))
        if not ok:
            note(fails, rid, "PyplotArrayPlotter.get_fig", inp, msg)


def refusal_cases(prog, rep, fails):
    rid = "C20.refusals"
    w = World(prog, "concrete")
    install_plot_models(w.it, [])
    arr = w.array("y", ("t", "a"))
    for kw, what in ((dict(intra_line_dim="z"), "unknown dimension"), (dict(intra_line_dim="t"), "a dimension of the array left without a role")):
        kind, r = run_guarded(lambda: w.it.construct(prog.cls("PlotlyArrayPlotter"), [], dict(array=arr, **kw)))
        rep.oblige(rid, kind == "raise", where="ArrayPlotter.check_dims", what=what)
        if kind != "raise":
            note(fails, rid, "ArrayPlotter.check_dims", kw, f"{what} was accepted")


def _part(prog, rep, job):
    from ..world import in_length_mode
    fails = {}
    which, idx, n = job

    class Shard:
        """run every n-th case only"""
        def __init__(self):
            self.k = -1

        def take(self):
            self.k += 1
            return self.k % n == idx
    global SHARD
    SHARD = Shard()
    if which == "sankey":
        in_length_mode("uniform", lambda: sankey_cases(prog, rep, fails))
    else:
        in_length_mode("uniform", lambda: plot_cases(prog, rep, fails))
    return fails


SHARD = None


def take():
    return SHARD is None or SHARD.take()


def run(prog, rep):
    rep.rule("C20.sankey-links", "one link per shown flow (or item) with the flow's total after the slice, from the source node to the target node; nothing excluded shown")
    rep.rule("C20.plotted-lines", "every line's y = the array's entries for its labels, x = the dimension's items or the x array's matching entries; one grid cell per subplot item")
    rep.rule("C20.refusals", "invalid dimension settings are refused")
    for c in ("PlotlySankeyPlotter", "ArrayPlotter", "PlotlyArrayPlotter", "PyplotArrayPlotter"):
        prog.cls(c)
    fails = {}
    from ..par import pmap
    jobs = [("sankey", i, 8) for i in range(8)] + [("plots", i, 24) for i in range(24)]
    for part in pmap(_part, jobs, prog, rep):
        for k, (count, inp, msg) in part.items():
            c = fails.get(k)
            fails[k] = (c[0] + count, c[1], c[2]) if c else (count, inp, msg)
    refusal_cases(prog, rep, fails)
    pyplot_history_case(prog, rep, fails)
    for (rule, qual), (count, inp, msg) in sorted(fails.items()):
        module, line, sig = _locate(prog, qual)
        rep.add(Finding("C20", rule, module, qual, sig, f"{msg} [{count} case(s)]", line=line, abstract_input=inp))
    rep.rules["C20.sankey-links"]["floor"] = 50
    rep.rules["C20.plotted-lines"]["floor"] = 100
    rep.exhaustive = True
    rep.assumptions += ASSUMPTIONS[:1] + ["plotly.graph_objects.Figure/Sankey/Scatter, plotly.subplots.make_subplots, matplotlib pyplot.subplots and Axes methods are "
                                          "recording models; what they render from the recorded arguments is not decided"]


SK = "export/sankey.py"
AP = "export/array_plotter.py"
MUTANTS = [
    {"name": "sankey-source-target-swapped", "path": SK, "find": "        source = self.ids_in_sankey[f.from_process.id]\n        target = self.ids_in_sankey[f.to_process.id]",
     "replace": "        source = self.ids_in_sankey[f.to_process.id]\n        target = self.ids_in_sankey[f.from_process.id]"},
    {"name": "sankey-exclusion-and-instead-of-or", "path": SK, "find": "            or (f.from_process_id in self.excluded_process_ids)\n            or (f.to_process_id in self.excluded_process_ids)",
     "replace": "            or ((f.from_process_id in self.excluded_process_ids)\n            and (f.to_process_id in self.excluded_process_ids))"},
    {"name": "sankey-slice-ignored", "path": SK, "find": "        f_slice = f[slice_dict]", "replace": "        f_slice = f"},
    {"name": "sankey-nodes-only-connected", "path": SK, "find": '            "label": [self.display_name(p.name) for p in self.shown_processes],',
     "replace": '            "label": [self.display_name(p.name) for p in self.shown_processes if any(p.id in (f.from_process.id, f.to_process.id) for f in self.shown_flows.values())],'},
    {"name": "sankey-split-sums-to-wrong-letter", "path": SK, "find": "values = f_slice.sum_values_to((self.mfa.dims[split_flows_by].letter,))", "replace": "values = f_slice.sum_values_to((f_slice.dims.letters[0],))"},
    {"name": "plot-x-y-swapped", "path": AP, "find": "            self.add_line(i_subplot, x_array_line.values, array_line.values, prev_y, label, i_line)",
     "replace": "            self.add_line(i_subplot, array_line.values, x_array_line.values, prev_y, label, i_line)"},
    {"name": "area-chart-stacks-lines", "path": AP, "find": "            self.add_line(i_subplot, x_array_line.values, array_line.values, prev_y, label, i_line)",
     "replace": "            y = array_line.values if prev_y is None or self.chart_type != \"area\" else array_line.values + prev_y\n            self.add_line(i_subplot, x_array_line.values, y, prev_y, label, i_line)\n            array_line = FlodymArray(dims=array_line.dims, values=y)"},
    {"name": "x-array-not-cast", "path": AP, "find": "        self.x_array = self.x_array.cast_to(self.array.dims)\n", "replace": ""},
    {"name": "x-slices-by-subplot-of-other-dim", "path": AP, "find": "        linedict_x_array = self._dict_of_slices(x_array, self.linecolor_dim)", "replace": "        linedict_x_array = self._dict_of_slices(x_array, self.linecolor_dim)\n        linedict_x_array = dict(reversed(list(linedict_x_array.items())))"},
    {"name": "plotly-row-col-swapped", "path": AP, "find": "            row=self.row(i_subplot),\n            col=self.col(i_subplot),\n        )", "replace": "            row=self.col(i_subplot),\n            col=self.row(i_subplot),\n        )"},
    {"name": "pyplot-scatter-y-x", "path": AP, "find": "            self.ax[i_subplot].scatter(x, y, **common_dict)", "replace": "            self.ax[i_subplot].scatter(y, x, **common_dict)"},
]
