"""C13 - arrays always have the shape of their dimensions; failed calls change nothing."""
from __future__ import annotations

import ast

from .. import arrays as AR
from ..core import Finding
from ._arr import run_array_property, ASSUMPTIONS
from ._stk import run_stock_property

LEVEL = "other"
EXPLANATION = (
    "On the abstract heap of the enumerative evaluator the class invariant 'values is an ndarray whose axes are exactly the "
    "item lists of dims in order, letters pairwise distinct' is re-checked on every array involved after EVERY abstract "
    "evaluation of the families of C01/C05/C06/C07 (constructors incl. StockArray/Parameter, operators, slicing, sums/casts, "
    "assignment through [] and set_values, producers, stacking), and for every evaluation that raises - including the "
    "deliberately ill-formed calls: ndarrays of every wrong shape to constructors / set_values / [...]=, sources lacking a "
    "dimension, unknown items, set_values(FlodymArray) - the snapshot of every input (values object, buffer, write counter, "
    "entries, dims object, dimension list) must be unchanged. Stock classes and lifetime models are constructed abstractly with "
    "components over the same / permuted / time-last / foreign / shorter dims and same letters with other items: all but 'same' "
    "must be refused. A structural rule confines direct rebinding of .values/.dims to the frozen sites. Because every operation "
    "preserves the invariant from any state satisfying it and a failed one changes nothing, it holds after any sequence. "
    "Lifetime parameters over a dimension with other items (one item only / one more) are refused; a compute() that raises half-way (scipy's finiteness check on a later label) leaves all arrays of the stock unchanged (exact array domain).")
TECHNIQUE = "static analysis: abstract interpretation with heap snapshots (invariant after every abstract evaluation, unchanged inputs after every raising one) + who-may-rebind rule"


def family(prog, name, tier, taint_mode):
    alpha = "abc"
    if name == "arith":
        return AR.arith_cases(prog, alpha, None, taint_mode)
    if name == "reduce":
        return AR.reduce_cases(prog, alpha, None, taint_mode)
    if name == "index":
        return AR.index_cases(prog, 3 if tier == "quick" else 4, taint_mode)
    if name == "misc":
        return AR.misc_index_cases(prog, taint_mode)
    if name == "illformed":
        return AR.illformed_cases(prog, taint_mode)
    if name == "producers":
        return AR.producer_cases(prog, alpha, taint_mode)
    if name == "stocks":
        return AR.stock_ctor_cases(prog, taint_mode)
    if name == "lifetime":
        return AR.lifetime_param_cases(prog, "tab", taint_mode)
    raise KeyError(name)


REBIND_ATTRS = ("values", "dims", "dim_list")
REBIND_ROOTS = {"set_values", "apply", "__init__"}      # besides every decorated validator: the documented in-place API


def callers_of(prog, name):
    out = []
    for f in prog.all_functions():
        for n in ast.walk(f.node):
            if isinstance(n, ast.Call) and ((isinstance(n.func, ast.Attribute) and n.func.attr == name) or (isinstance(n.func, ast.Name) and n.func.id == name)):
                out.append(f)
                break
    return out


def rebind_allowed(prog, fn, seen=None):
    """a function may rebind if it is a validator / part of the in-place API, or a private helper reachable only from such"""
    seen = seen if seen is not None else set()
    if fn.qual in seen:
        return True
    seen.add(fn.qual)
    if fn.validator_kind or fn.name in REBIND_ROOTS:
        return True
    if not fn.name.startswith("_") or fn.name.startswith("__"):
        return False
    cs = [c for c in callers_of(prog, fn.name) if c is not fn]
    return bool(cs) and all(rebind_allowed(prog, c, seen) for c in cs)


def fresh_local(fn_node, name):
    """`name` is bound in this function to a newly made object (constructor / copy / model_copy)"""
    for n in ast.walk(fn_node):
        if isinstance(n, ast.Assign) and any(isinstance(t, ast.Name) and t.id == name for t in n.targets) and isinstance(n.value, ast.Call):
            f = ast.unparse(n.value.func)
            if f.split(".")[-1] in ("copy", "model_copy", "deepcopy") or f[:1].isupper() or f == "cls" or f.endswith(".__class__"):
                return True
    return False


def who_may_rebind(prog, rep):
    """R3: `X.values = ...` / `X.dims = ...` / `X.dim_list = ...` only in validators, the in-place API (set_values, apply), private
    helpers reachable only from those, or on an object the function has just made; no validation bypass"""
    rid = rep.rule("C13.who-may-rebind", "stores rebinding .values/.dims/.dim_list occur only in the validating/in-place API or on freshly made objects", floor=4)
    rid2 = rep.rule("C13.no-validation-bypass", "no model_construct / object.__setattr__ / __dict__ write creates or edits a model", floor=1)
    n_scanned = 0
    for fn in prog.all_functions():
        n_scanned += 1
        for node in ast.walk(fn.node):
            tgts = []
            if isinstance(node, ast.Assign):
                tgts = node.targets
            elif isinstance(node, (ast.AugAssign, ast.AnnAssign)):
                tgts = [node.target]
            for t in tgts:
                for tt in (t.elts if isinstance(t, (ast.Tuple, ast.List)) else [t]):
                    if isinstance(tt, ast.Attribute) and tt.attr in REBIND_ATTRS:
                        recv = ast.unparse(tt.value)
                        if recv == "self":
                            cls = fn.cls
                            data_cls = cls is not None and any(k.name in ("FlodymArray", "DimensionSet", "Stock", "LifetimeModel") for k in prog.mro(cls))
                            ok = (not data_cls) or rebind_allowed(prog, fn)
                        elif isinstance(tt.value, ast.Name) and tt.attr != "values":
                            ok = fresh_local(fn.node, tt.value.id)      # e.g. get_subset fills the list of the copy it has just made
                        elif isinstance(tt.value, ast.Name) and fn.name.startswith("_") and not fn.name.startswith("__"):
                            # a private helper that is handed the array: allowed when it is reachable only from the validating / in-place API
                            ok = rebind_allowed(prog, fn)
                        else:
                            ok = False
                        rep.oblige(rid, ok, where=fn.qual, what=ast.unparse(node)[:100])
                        if not ok:
                            rep.add(Finding("C13", rid, fn.module, fn.qual, node,
                                            f"`{recv}.{tt.attr}` is rebound outside the validating constructor / set_values / apply(inplace) "
                                            f"(and not on an object made here): the shape check is bypassed", line=node.lineno))
            if isinstance(node, ast.Call):
                f = ast.unparse(node.func)
                bad = f.endswith(".model_construct") or f in ("object.__setattr__",) or f.endswith(".__setattr__") \
                    or (f.endswith(".update") and "__dict__" in f)
                if isinstance(node.func, ast.Attribute) and node.func.attr in ("model_construct",):
                    bad = True
                if bad:
                    rep.oblige(rid2, False, where=fn.qual, what=ast.unparse(node)[:100])
                    rep.add(Finding("C13", rid2, fn.module, fn.qual, node, "object created/edited without running the validators", line=node.lineno))
    rep.oblige(rid2, True, where="package", what=f"{n_scanned} functions scanned: no model_construct / __setattr__ / __dict__.update")
    # positive control: the rule must recognise a bypass when there is one
    probe = ast.parse("def f(a, v):\n    a.values = v\n    return type(a).model_construct(dims=a.dims)\n")
    hits = [n for n in ast.walk(probe) if (isinstance(n, ast.Assign) and isinstance(n.targets[0], ast.Attribute) and n.targets[0].attr in REBIND_ATTRS)
            or (isinstance(n, ast.Call) and isinstance(n.func, ast.Attribute) and n.func.attr == "model_construct")]
    if len(hits) != 2 or fresh_local(probe.body[0], "a"):
        from ..core import AnalysisError
        raise AnalysisError("C13 who-may-rebind rule no longer recognises its positive control")


def run(prog, rep):
    rep.rule("C13.invariant", "after every abstract evaluation every array involved has values labelled exactly by its dims")
    rep.rule("C13.failed-call-changes-nothing", "after every evaluation that raised, every input is as it was")
    rep.rule("C13.refusals", "ndarrays of another shape, foreign / permuted / shorter component dims, time not first are refused")
    rep.rule("C13.accepted", "well-formed constructions are accepted and yield arrays / stocks over the given dims")
    aspects = {("*", "invariant"): "C13.invariant", ("*", "atomic"): "C13.failed-call-changes-nothing",
               ("setitem-illformed", "raises"): "C13.refusals", ("ctor-illformed", "raises"): "C13.refusals",
               ("stock-ctor", "raises"): "C13.refusals", ("lifetime-param", "raises"): "C13.refusals", ("stock-ctor", "result"): "C13.accepted", ("ctor", "result"): "C13.accepted"}
    prog.method("FlodymArray", "set_values")
    for c in ("Stock", "DynamicStockModel", "DimensionSet"):
        prog.cls(c)
    run_array_property(prog, rep, "C13", ["arith", "reduce", "index", "misc", "illformed", "producers", "stocks", "lifetime", "stocks@uniform", "index@uniform"], aspects)
    who_may_rebind(prog, rep)
    # a compute() that raises half-way (exact array domain): nothing of the stock may have changed
    jobs = [("failed", dict(n_t=3, labels=labels, dist="NormalLifetime", over="all", n_pts=1, inflow_at="middle", solver=solver))
            for labels in (("a",), ("a", "b")) for solver in ("lapack", "manual")]
    run_stock_property(prog, rep, "C13", jobs, {"atomic": "C13.failed-call-changes-nothing"})
    rep.rules["C13.invariant"]["floor"] = 3000
    rep.rules["C13.failed-call-changes-nothing"]["floor"] = 150
    rep.rules["C13.refusals"]["floor"] = 100
    if rep.exhaustive is None:
        rep.exhaustive = True
    rep.assumptions += ASSUMPTIONS + ["overwriting .values/.dims directly and shape-changing functions passed to apply are outside the contract (excluded by the property)"]


FA = "flodym_arrays.py"
ST = "stocks.py"
MUTANTS = [
    {"name": "D4-set_values-commit-then-check", "path": FA,
     "find": "            previous_values = self.values\n            self.values = values\n            try:\n                self._check_value_format()\n            except ValueError:\n                self.values = previous_values\n                raise",
     "replace": "            self.values = values\n            self._check_value_format()"},
    {"name": "check_value_format-raises-TypeError", "path": FA, "find": '            raise ValueError("Values must be a numpy array or Number.")',
     "replace": '            raise TypeError("Values must be a numpy array or Number.")'},
    {"name": "validate_values-skips-format-check", "path": FA, "find": "            self.values = np.zeros(self.dims.shape)\n        self._check_value_format()\n        return self",
     "replace": "            self.values = np.zeros(self.dims.shape)\n        return self"},
    {"name": "shape-check-compares-sizes", "path": FA, "find": "        if self.values.shape != self.dims.shape:", "replace": "        if self.values.ndim != self.dims.ndim:"},
    {"name": "D16-stock-validators-letters-only", "path": ST,
     "find": "        elif (\n            self.inflow.dims.letters != self.dims.letters\n            or self.inflow.dims.shape != self.dims.shape\n        ):",
     "replace": "        elif self.inflow.dims.letters != self.dims.letters:"},
    {"name": "stock-validators-compare-letter-sets", "path": ST,
     "find": "        elif (\n            self.stock.dims.letters != self.dims.letters\n            or self.stock.dims.shape != self.dims.shape\n        ):",
     "replace": "        elif set(self.stock.dims.letters) != set(self.dims.letters) or self.stock.dims.shape != self.dims.shape:"},
    {"name": "time-first-validator-unwired", "path": ST, "find": "    @model_validator(mode=\"after\")\n    def validate_time_first_dim(self):", "replace": "    def validate_time_first_dim(self):"},
    {"name": "lifetime-model-dims-unchecked", "path": ST,
     "find": "        elif (\n            self.lifetime_model.dims.letters != self.dims.letters\n            or self.lifetime_model.dims.shape != self.dims.shape\n        ):\n            raise ValueError(\"Lifetime model dimensions do not match stock dimensions.\")",
     "replace": "        elif False:\n            raise ValueError(\"Lifetime model dimensions do not match stock dimensions.\")"},
    {"name": "neg-rebinds-values-directly", "path": FA, "find": "        return FlodymArray(dims=self.dims, values=-self.values)",
     "replace": "        out = FlodymArray(dims=self.dims)\n        out.values = -self.values\n        return out"},
    {"name": "copy-via-model_construct", "path": FA, "find": '        return self.model_copy(update={"dims": self.dims.copy(), "values": self.values.copy()})',
     "replace": '        return type(self).model_construct(dims=self.dims.copy(), values=self.values.copy(), name=self.name)'},
    {"name": "full-broadcasts-ok (equivalent)", "path": FA, "find": "        return cls(dims=dims, values=np.full(dims.shape, fill_value), **kwargs)",
     "replace": "        values = np.full(dims.shape, fill_value)\n        return cls(dims=dims, values=values, **kwargs)", "expect": "survive"},
]
