"""C18 - systems built from definitions and files match what was defined."""
from __future__ import annotations

import ast
import itertools

from ..core import AnalysisError, Finding, Program, SourceSet
from ..interp import Interp, Obj, PyRaise, run_guarded, AnalysisAbort, ItemList, PyModel, ClassInfo, BT
from .. import npmodel as NP
from ..npmodel import AArr
from ..world import World
from ._arr import _locate, ASSUMPTIONS

LEVEL = "other"
EXPLANATION = (
    "The assembly code (make_processes, make_empty_flows, make_empty_stocks, the definition validators, DataReader."
    "read_dimensions/read_parameters, Dimension.from_np/from_df, the CSV/Excel dimension readers, MFASystem.from_data_reader/"
    "from_csv/from_excel) is evaluated by the enumerative evaluator on enumerated definitions: process lists with sysenv first / "
    "elsewhere; flow definitions over every listed (from, to) pair incl. repeated pairs with overriding names, dimension subsets in "
    "every listed order, default and custom naming; stock definitions for every stock class x lifetime-model class (or none) x "
    "solver x process (named / none / undefined) x dimension order (time first / not first); parameter definitions incl. two "
    "parameters over the same letters in different orders; definitions mentioning an undefined dimension or process. The built "
    "objects on the abstract heap must be exactly what was defined (identity of the process objects, names as keys, dims in the "
    "listed order with the system's items, zero values, class / lifetime model / solver / time letter), and every ill-formed "
    "definition must be refused. Dimension files are abstract cell matrices (one row or one column, with or without the name as "
    "header, a first item equal to the dimension's letter, 2-d content) read through models of pandas.read_csv / read_excel that "
    "follow the documented semantics (header=None keeps the first row, sheet_name=None returns a dict of all sheets, 0 the first): "
    "items must come out in file order converted to the declared type. A client DataReader (as in the documentation) drives the "
    "whole pipeline. "
    "Files that are read, edited and read again by a new reader give their present content."
    " Definitions that leave name / time letter / solver to the definition's own defaults, near misses of the reserved name 'sysenv', workbooks whose active sheet is not the first one, and two parameter readers alive at once are part of the cases."
)
TECHNIQUE = "static analysis: abstract interpretation of the assembly code over enumerated definitions and abstract file contents; built heap compared with the definitions"

CLIENT = '''
from .data_reader import DataReader
from .dimensions import Dimension
from .flodym_arrays import Parameter

ITEMS = {"t": ["t0", "t1", "t2"], "a": ["a0", "a1"], "b": ["b0", "b1", "b2", "b3"]}


class ClientReader(DataReader):
    """the kind of reader the documentation asks users to write"""

    def read_dimension(self, dimension_definition):
        return Dimension(name=dimension_definition.name, letter=dimension_definition.letter, items=ITEMS[dimension_definition.letter])

    def read_parameter_values(self, parameter_name, dims):
        return Parameter(dims=dims, name=parameter_name)
'''


# ------------------------------------------------------------------ abstract files / pandas
class Cells(PyModel):
    """result of DataFrame.to_numpy(): a small matrix of raw cells"""
    def __init__(self, rows):
        self.rows = [list(r) for r in rows]

    @property
    def shape(self):
        return (len(self.rows), len(self.rows[0]) if self.rows else 0)

    @property
    def ndim(self):
        return 2

    def flatten(self, order="C"):
        return Flat([c for r in self.rows for c in r])

    ravel = flatten

    def squeeze(self):
        if len(self.rows) == 1:
            return Flat(self.rows[0])
        if self.rows and len(self.rows[0]) == 1:
            return Flat([r[0] for r in self.rows])
        return self

    def tolist(self):
        return [list(r) for r in self.rows]

    @property
    def T(self):
        return Cells([list(c) for c in zip(*self.rows)])

    @property
    def size(self):
        return len(self.rows) * (len(self.rows[0]) if self.rows else 0)


class Flat(PyModel):
    def __init__(self, cells):
        self.cells = list(cells)

    @property
    def shape(self):
        return (len(self.cells),)

    @property
    def ndim(self):
        return 1

    @property
    def size(self):
        return len(self.cells)

    def tolist(self):
        return list(self.cells)

    def flatten(self, order="C"):
        return Flat(self.cells)

    def __getitem__(self, k):
        return self.cells[k] if not isinstance(k, slice) else Flat(self.cells[k])

    def __iter__(self):
        return iter(self.cells)

    def __len__(self):
        return len(self.cells)


class Frame(PyModel):
    """a data frame read from a file: only what the dimension readers use"""
    def __init__(self, rows, header_consumed):
        self.rows = [list(r) for r in rows]
        self.columns = None
        if header_consumed and self.rows:
            self.columns = self.rows[0]
            self.rows = self.rows[1:]

    def to_numpy(self, *a, **k):
        return Cells(self.rows)

    @property
    def values(self):
        return Cells(self.rows)

    @property
    def shape(self):
        return Cells(self.rows).shape

    def copy(self, deep=True):
        f = Frame(self.rows, False)
        f.columns = self.columns
        return f


class ParamFrame(PyModel):
    """an opaque parameter table (its interpretation is the business of C11/C12)"""
    def __init__(self, path, version=0):
        self.path, self.version = path, version

    def copy(self, deep=True):
        return ParamFrame(self.path, self.version)

    @property
    def index(self):
        from ..pdmodel import Index
        return Index.range(3)         # a plain RangeIndex: parameter files are read without an index column

    @property
    def shape(self):
        return (3, 3)

    def __len__(self):
        return 3


def file_models(files, calls):
    """hooks for pandas.read_csv / read_excel over the abstract file system `files`"""
    def read_csv(path, **kw):
        calls.append(("read_csv", path, dict(kw)))
        f = files.get(path)
        if f is None:
            raise PyRaise("FileNotFoundError", None, str(path))
        if f["kind"] == "param":
            return ParamFrame(path, f.get("version", 0))
        hdr = kw.get("header", "infer")
        return Frame(f["sheets"][0][1], header_consumed=hdr is not None)

    def read_excel(path, sheet_name=0, **kw):
        calls.append(("read_excel", path, dict(kw, sheet_name=sheet_name)))
        f = files.get(path)
        if f is None:
            raise PyRaise("FileNotFoundError", None, str(path))
        hdr = kw.get("header", 0)

        def mk(rows):
            return ParamFrame(path, f.get("version", 0)) if f["kind"] == "param" else Frame(rows, header_consumed=hdr is not None)
        if sheet_name is None:          # pandas: None -> dict of ALL sheets
            return {n: mk(r) for n, r in f["sheets"]}
        if isinstance(sheet_name, int):
            if sheet_name >= len(f["sheets"]):
                raise PyRaise("ValueError", None, "Worksheet index out of range")
            return mk(f["sheets"][sheet_name][1])
        for n, r in f["sheets"]:
            if n == sheet_name:
                return mk(r)
        raise PyRaise("ValueError", None, f"Worksheet named '{sheet_name}' not found")
    class _Named(PyModel):
        def __init__(self, **kw):
            self.__dict__.update(kw)

    class ExcelFile(PyModel):
        """pd.ExcelFile(path): a workbook handle - sheet_names, parse(sheet_name=...), usable in `with`; `.book.active` is the tab that
        was selected when the workbook was saved, which is NOT necessarily the first one (here: the last sheet)"""
        def __init__(self, path, **kw):
            if kw:
                raise AnalysisAbort(f"pd.ExcelFile keyword(s) {sorted(kw)}")
            if path not in files:
                raise PyRaise("FileNotFoundError", None, str(path))
            self.path = path
            self.sheet_names = [n for n, _ in files[path]["sheets"]]
            self.book = _Named(active=_Named(title=self.sheet_names[-1]), sheetnames=list(self.sheet_names))

        def parse(self, sheet_name=0, **kw):
            return read_excel(self.path, sheet_name=sheet_name, **kw)

        def close(self):
            pass

        def __enter__(self):
            return self

        def __exit__(self, *a):
            return False

    class _MultiIndexType(PyModel):
        """pd.MultiIndex as a type: the tables of this world (read from files) never carry one"""
        def isinstance_check(self, v):
            from ..pdmodel import Index
            return isinstance(v, Index) and v.multi

        def from_product(self, iterables, names=None, **k):
            from ..pdmodel import MultiIndexType
            return MultiIndexType().from_product(iterables, names=names, **k)
    return {"pandas.read_csv": read_csv, "pandas.read_excel": read_excel, "pandas.MultiIndex": _MultiIndexType(), "pandas.ExcelFile": ExcelFile}


# ------------------------------------------------------------------ the checker
class Ctx:
    def __init__(self, prog, rep):
        self.prog, self.rep = prog, rep
        self.fail = {}

    def ob(self, rule, ok, qual, inp, msg=""):
        self.rep.oblige(rule, ok, where=qual, what=str(inp), distinct=(rule, qual, str(inp)))
        self.rep.evaluations += 1
        if not ok:
            k = (rule, qual)
            c = self.fail.get(k)
            self.fail[k] = (c[0] + 1, c[1], c[2]) if c else (1, inp, msg)


def new_world(cx):
    w = World(cx.prog)
    return w


def defs(w, cls, **kw):
    return w.it.construct(w.prog.cls(cls), [], kw)


SYS_ITEMS = {"t": ["t0", "t1", "t2"], "a": ["a0", "a1"], "b": ["b0", "b1", "b2", "b3"]}


def sys_dims(w):
    D = w.prog.cls("Dimension")
    ds = [w.it.construct(D, [], dict(name={"t": "Time", "a": "Aa", "b": "Bb"}[l], letter=l, items=ItemList(SYS_ITEMS[l]))) for l in "tab"]
    return w.it.construct(w.prog.cls("DimensionSet"), [], dict(dim_list=ds))


def dims_ok(w, arr_or_ds, letters):
    ds = arr_or_ds.f["dims"] if "dims" in arr_or_ds.f else arr_or_ds
    got = tuple(d.f["letter"] for d in ds.f["dim_list"])
    if got != tuple(letters):
        return f"dims {got} instead of the listed {tuple(letters)}"
    for d in ds.f["dim_list"]:
        if list(d.f["items"]) != SYS_ITEMS[d.f["letter"]]:
            return f"dimension {d.f['letter']} does not have the items of the system's dimension set"
    return None


def zero_values(arr, letters):
    v = arr.f.get("values")
    if not isinstance(v, AArr):
        return f"values is {type(v).__name__}"
    if tuple(v.axes) != tuple(tuple(SYS_ITEMS[l]) for l in letters):
        return "values do not have the shape of the listed dims"
    if v.term != ("k", 0):
        return f"values are not zero ({NP.show(v.term)})"
    return None


def processes_cases(cx):
    fn = cx.prog.func("processes.py", "make_processes")
    for names, ok_expected in [(["sysenv", "use", "waste"], True), (["sysenv"], True), ([], True), (["use", "sysenv"], False), (["use"], False),
                               (["sysenv", "b", "a", "c"], True),
                               # near misses of the reserved name: parts of it, other case, padded, empty
                               (["env", "use"], False), (["sys", "use"], False), (["s"], False), (["", "use"], False), (["Sysenv", "use"], False),
                               (["sysenv ", "use"], False), (["sysenvironment"], False), (["sysenv", "sys", "env"], True)]:
        w = new_world(cx)
        kind, r = run_guarded(lambda: w.it.call_fn(fn, [list(names)], {}))
        inp = {"processes": names}
        if not ok_expected:
            cx.ob("C18.refusals", kind == "raise", "make_processes", inp, "a process list whose first entry is not 'sysenv' was accepted")
            continue
        ok = kind == "ok" and isinstance(r, dict) and list(r.keys()) == names and all(
            isinstance(p, Obj) and p.f.get("name") == n and p.f.get("id") == i for i, (n, p) in enumerate(r.items()))
        cx.ob("C18.processes", ok, "make_processes", inp, f"processes are not numbered in the listed order with their names as keys ({kind}: {r})")


def flows_cases(cx):
    fn = cx.prog.func("flow_helper.py", "make_empty_flows")
    mp = cx.prog.func("processes.py", "make_processes")
    pnames = ["sysenv", "use", "waste"]
    pairs = [("sysenv", "use"), ("use", "waste"), ("waste", "sysenv"), ("use", "use")]
    dim_choices = [("t", "a"), ("a", "t"), ("b",), (), ("t", "b", "a")]
    naming_opts = [None, "process_ids", "process_names_no_spaces"]
    for naming in naming_opts:
        for k, dl in enumerate(dim_choices):
            w = new_world(cx)
            it = w.it
            procs = it.call_fn(mp, [list(pnames)], {})
            ds = sys_dims(w)
            fdefs, expect = [], []
            for j, (fr, to) in enumerate(pairs):
                letters = dim_choices[(k + j) % len(dim_choices)]
                fdefs.append(defs(w, "FlowDefinition", from_process_name=fr, to_process_name=to, dim_letters=letters))
                expect.append((fr, to, letters, None))
            # a second flow between the same pair must carry an overriding name
            fdefs.append(defs(w, "FlowDefinition", from_process=pairs[0][0], to_process=pairs[0][1], dim_letters=dl, name_override="second flow"))
            expect.append((pairs[0][0], pairs[0][1], dl, "second flow"))
            kw = dict(processes=procs, flow_definitions=fdefs, dims=ds)
            if naming:
                nf = cx.prog.func("flow_naming.py", naming)
                kw["naming"] = nf
            kind, r = run_guarded(lambda: it.call_fn(fn, [], kw))
            inp = {"flows": [(e[0], e[1], list(e[2]), e[3]) for e in expect], "naming": naming or "default"}
            if kind != "ok" or not isinstance(r, dict):
                cx.ob("C18.flows", False, "make_empty_flows", inp, f"ended with {kind}: {r}")
                continue
            problems = []
            if len(r) != len(expect):
                problems.append(f"{len(r)} flows for {len(expect)} definitions")
            for fr, to, letters, override in expect:
                if override:
                    name = override
                elif naming is None:
                    name = f"{fr} => {to}"
                else:
                    name = it.call_fn(cx.prog.func("flow_naming.py", naming), [procs[fr], procs[to]], {})
                f = r.get(name)
                if not isinstance(f, Obj):
                    problems.append(f"no flow under the name '{name}' (keys {list(r)[:5]})")
                    continue
                if f.cls.name != "Flow":
                    problems.append(f"'{name}' is a {f.cls.name}")
                if f.f.get("from_process") is not procs[fr] or f.f.get("to_process") is not procs[to]:
                    problems.append(f"flow '{name}' does not run from process '{fr}' to process '{to}' "
                                    f"(from {getattr(f.f.get('from_process'), 'f', {}).get('name')}, to {getattr(f.f.get('to_process'), 'f', {}).get('name')})")
                if f.f.get("name") != name:
                    problems.append(f"flow stored under '{name}' is named '{f.f.get('name')}'")
                p = dims_ok(w, f, letters) or zero_values(f, letters)
                if p:
                    problems.append(f"flow '{name}': {p}")
            cx.ob("C18.flows", not problems, "make_empty_flows", inp, "; ".join(problems[:3]))
    # undefined process
    for bad_side in ("from", "to"):
        w = new_world(cx)
        procs = w.it.call_fn(mp, [list(pnames)], {})
        fd = defs(w, "FlowDefinition", from_process_name="nowhere" if bad_side == "from" else "use", to_process_name="use" if bad_side == "from" else "nowhere", dim_letters=("t",))
        kind, r = run_guarded(lambda: w.it.call_fn(fn, [], dict(processes=procs, flow_definitions=[fd], dims=sys_dims(w))))
        cx.ob("C18.refusals", kind == "raise", "make_empty_flows", {"flow": f"{bad_side} process undefined"}, "a flow definition naming an undefined process was accepted")
    w = new_world(cx)
    kind, r = run_guarded(lambda: defs(w, "FlowDefinition", from_process_name="a", to_process_name="b", dim_letters=("tt", "a")))
    cx.ob("C18.refusals", kind == "raise", "DefinitionWithDimLetters.check_dimensions", {"dim_letters": ["tt", "a"]}, "a dimension 'letter' of two characters was accepted")


STOCK_CLS = ["SimpleFlowDrivenStock", "InflowDrivenDSM", "StockDrivenDSM"]


def stocks_cases(cx):
    fn = cx.prog.func("stock_helper.py", "make_empty_stocks")
    mp = cx.prog.func("processes.py", "make_processes")
    pnames = ["sysenv", "use", "waste"]
    for sub in STOCK_CLS:
        needs_lm = sub != "SimpleFlowDrivenStock"
        for lmc in ([None] + ["FixedLifetime", "NormalLifetime", "WeibullLifetime"]):
            for solver in (("manual", "lapack") if sub == "StockDrivenDSM" else ("manual",)):
                for proc in ("use", None, "nowhere"):
                    for letters, spelled in [(l, True) for l in (("t", "a"), ("t",), ("t", "b", "a"), ("a", "t"))] + [(("t", "a"), False)]:
                        if (proc == "nowhere" or letters == ("a", "t")) and (lmc not in (None, "FixedLifetime") or solver != "manual"):
                            continue
                        if not spelled and (solver != "manual" or proc != "use"):
                            continue
                        w = new_world(cx)
                        it = w.it
                        procs = it.call_fn(mp, [list(pnames)], {})
                        inp = {"subclass": sub, "lifetime_model_class": lmc, "solver": solver, "process": proc, "dim_letters": list(letters)}
                        kw = dict(name=f"st {sub}", dim_letters=letters, subclass=cx.prog.cls(sub), time_letter="t", solver=solver)
                        if not spelled:
                            # name, time letter and solver left to the DEFINITION's defaults: the stock is built with what the definition holds
                            kw = dict(dim_letters=letters, subclass=cx.prog.cls(sub))
                            inp["left_to_the_definition_defaults"] = ["name", "time_letter", "solver"]
                        if proc:
                            kw["process_name" if letters != ("t",) else "process"] = proc
                        if lmc:
                            kw["lifetime_model_class"] = cx.prog.cls(lmc)
                        kind, sd = run_guarded(lambda: defs(w, "StockDefinition", **kw))
                        if (lmc is None) == needs_lm:
                            cx.ob("C18.refusals", kind == "raise", "StockDefinition.check_lifetime_model", inp,
                                  "a stock definition that omits a required lifetime model / supplies an unused one was accepted")
                            continue
                        if kind != "ok":
                            cx.ob("C18.stocks", False, "StockDefinition", inp, f"valid stock definition refused: {sd}")
                            continue
                        kind, r = run_guarded(lambda: it.call_fn(fn, [], dict(stock_definitions=[sd], processes=procs, dims=sys_dims(w))))
                        if proc == "nowhere":
                            cx.ob("C18.refusals", kind == "raise", "make_empty_stocks", inp, "a stock definition naming an undefined process was accepted")
                            continue
                        if letters[0] != "t":
                            cx.ob("C18.refusals", kind == "raise", "make_empty_stocks", inp, "a stock whose time dimension is not first was built")
                            continue
                        if kind != "ok" or not isinstance(r, dict):
                            cx.ob("C18.stocks", False, "make_empty_stocks", inp, f"ended with {kind}: {r}")
                            continue
                        problems = []
                        want_name, want_solver = (f"st {sub}", solver) if spelled else (sd.f.get("name"), sd.f.get("solver"))
                        st = r.get(want_name)
                        if len(r) != 1 or not isinstance(st, Obj):
                            problems.append(f"stock not stored under the definition's name '{want_name}' (keys {list(r)})")
                        else:
                            if st.cls.name != sub:
                                problems.append(f"built a {st.cls.name}, requested {sub}")
                            if st.f.get("time_letter") != sd.f.get("time_letter") or st.f.get("name") != want_name:
                                problems.append(f"name / time letter are '{st.f.get('name')}' / '{st.f.get('time_letter')}', the definition holds '{want_name}' / '{sd.f.get('time_letter')}'")
                            if (st.f.get("process") is not (procs[proc] if proc else None)):
                                problems.append(f"process is {getattr(st.f.get('process'), 'f', {}).get('name')}, defined {proc}")
                            p = dims_ok(w, st, letters)
                            if p:
                                problems.append(p)
                            for c in ("stock", "inflow", "outflow"):
                                a = st.f.get(c)
                                p = (dims_ok(w, a, letters) or zero_values(a, letters)) if isinstance(a, Obj) else f"{c} missing"
                                if p:
                                    problems.append(f"{c}: {p}")
                            if needs_lm:
                                lm = st.f.get("lifetime_model")
                                if not isinstance(lm, Obj) or lm.cls.name != lmc:
                                    problems.append(f"lifetime model is {getattr(getattr(lm, 'cls', None), 'name', lm)}, requested {lmc}")
                                elif dims_ok(w, lm, letters) or lm.f.get("time_letter") != "t":
                                    problems.append("lifetime model is not over the stock's dims / time letter")
                            if sub == "StockDrivenDSM" and st.f.get("solver") != want_solver:
                                problems.append(f"solver is '{st.f.get('solver')}', the definition says '{want_solver}'")
                        cx.ob("C18.stocks", not problems, "make_empty_stocks", inp, "; ".join(problems[:3]))
    # several definitions in one call: each stock gets ITS definition's process (none, if it names none) whatever came before it
    for order in (("use", None), (None, "use"), ("use", None, "waste")):
        w = new_world(cx)
        procs = w.it.call_fn(mp, [list(pnames)], {})
        sds = []
        for i, pn in enumerate(order):
            kw = dict(name=f"s{i}", dim_letters=("t", "a"), subclass=cx.prog.cls("SimpleFlowDrivenStock"), time_letter="t")
            if pn:
                kw["process_name"] = pn
            sds.append(defs(w, "StockDefinition", **kw))
        inp = {"stock_definitions": [f"s{i} at {pn}" for i, pn in enumerate(order)]}
        kind, r = run_guarded(lambda: w.it.call_fn(fn, [], dict(stock_definitions=sds, processes=procs, dims=sys_dims(w))))
        problems = []
        if kind != "ok" or not isinstance(r, dict):
            problems.append(f"ended with {kind}: {r}")
        else:
            if list(r) != [f"s{i}" for i in range(len(order))]:
                problems.append(f"stocks {list(r)} instead of one per definition in the listed order")
            for i, pn in enumerate(order):
                st = r.get(f"s{i}")
                have = st.f.get("process") if isinstance(st, Obj) else "?"
                if have is not (procs[pn] if pn else None):
                    problems.append(f"stock s{i} is attached to process {getattr(have, 'f', {}).get('name') if isinstance(have, Obj) else have}, its definition says {pn}")
        cx.ob("C18.stocks", not problems, "make_empty_stocks", inp, "; ".join(problems[:3]))
    # a time letter other than the default
    for sub in STOCK_CLS:
        w = new_world(cx)
        procs = w.it.call_fn(mp, [list(pnames)], {})
        kw = dict(name="y", dim_letters=("a", "t"), subclass=cx.prog.cls(sub), time_letter="a")
        if sub != "SimpleFlowDrivenStock":
            kw["lifetime_model_class"] = cx.prog.cls("FixedLifetime")
        inp = {"subclass": sub, "time_letter": "a", "dim_letters": ["a", "t"]}
        kind, r = run_guarded(lambda: w.it.call_fn(fn, [], dict(stock_definitions=[defs(w, "StockDefinition", **kw)], processes=procs, dims=sys_dims(w))))
        st = r.get("y") if kind == "ok" and isinstance(r, dict) else None
        ok = isinstance(st, Obj) and st.f.get("time_letter") == "a" and (sub == "SimpleFlowDrivenStock" or getattr(st.f.get("lifetime_model"), "f", {}).get("time_letter") == "a")
        cx.ob("C18.stocks", ok, "make_empty_stocks", inp, f"the stock / its lifetime model does not carry the defined time letter 'a' ({kind}: {getattr(r, 'msg', '')!s:.120})")
    w = new_world(cx)
    kind, sd = run_guarded(lambda: defs(w, "StockDefinition", name="s", dim_letters=("t",), subclass=cx.prog.cls("StockDrivenDSM"),
                                        lifetime_model_class=cx.prog.cls("FixedLifetime"), solver="numpy"))
    cx.ob("C18.refusals", kind == "raise", "StockDefinition.init_solver", {"solver": "numpy"}, "an unknown solver name was accepted")


def definition_cases(cx):
    strT = lambda w: w.it.builtin("str")
    for which in ("ok", "flow", "stock", "parameter"):
        w = new_world(cx)
        dd = [defs(w, "DimensionDefinition", name=n, letter=l, dtype=strT(w)) for n, l in (("Time", "t"), ("Aa", "a"))]
        z = ("t", "z")
        fl = [defs(w, "FlowDefinition", from_process_name="sysenv", to_process_name="use", dim_letters=z if which == "flow" else ("t", "a"))]
        st = [defs(w, "StockDefinition", name="s", dim_letters=z if which == "stock" else ("t",), subclass=cx.prog.cls("SimpleFlowDrivenStock"))]
        pr = [defs(w, "ParameterDefinition", name="p", dim_letters=z if which == "parameter" else ("a",))]
        kind, r = run_guarded(lambda: defs(w, "MFADefinition", dimensions=dd, processes=["sysenv", "use"], flows=fl, stocks=st, parameters=pr))
        if which == "ok":
            cx.ob("C18.definition", kind == "ok", "MFADefinition.check_dimension_letters", {"undefined_dimension_in": None}, f"a valid definition was refused: {r}")
        else:
            cx.ob("C18.refusals", kind == "raise", "MFADefinition.check_dimension_letters", {"undefined_dimension_in": which},
                  f"a {which} definition mentioning the undefined dimension 'z' was accepted")


def pipeline_cases(cx_main):
    """client DataReader -> from_data_reader: dims in definition order, parameters by name over the listed dims in order"""
    ss2 = cx_main.prog.ss.variant("_fdv_client.py", CLIENT)
    prog2 = Program(ss2)
    strT = Interp(prog2).builtin("str")
    orders = [(("t", "a"), ("a", "t")), (("a", "t"), ("t", "a")), (("t", "a", "b"), ("b", "t")), (("b",), ())]
    for dim_order in (("t", "a", "b"), ("b", "t", "a")):
        for po in orders:
            w = World(prog2)
            it = w.it
            names = {"t": "Time", "a": "Aa", "b": "Bb"}
            dd = [defs(w, "DimensionDefinition", name=names[l], letter=l, dtype=strT) for l in dim_order]
            pr = [defs(w, "ParameterDefinition", name=f"p{i}", dim_letters=letters) for i, letters in enumerate(po)]
            fl = [defs(w, "FlowDefinition", from_process_name="sysenv", to_process_name="use", dim_letters=("t", "a")),
                  defs(w, "FlowDefinition", from_process_name="use", to_process_name="sysenv", dim_letters=("a",))]
            st = [defs(w, "StockDefinition", name="s1", dim_letters=("t", "b"), subclass=prog2.cls("StockDrivenDSM"),
                       lifetime_model_class=prog2.cls("FixedLifetime"), process_name="use", solver="lapack")]
            inp = {"dimension_order": list(dim_order), "parameters": [list(x) for x in po]}
            kind, d = run_guarded(lambda: defs(w, "MFADefinition", dimensions=dd, processes=["sysenv", "use"], flows=fl, stocks=st, parameters=pr))
            if kind != "ok":
                cx_main.ob("C18.pipeline", False, "MFASystem.from_data_reader", inp, f"valid definition refused: {d}")
                continue
            reader = it.construct(prog2.cls("ClientReader"), [], {})
            kind, mfa = run_guarded(lambda: it.call(it.get_attr(prog2.cls("MFASystem"), "from_data_reader"), [d, reader], {}))
            if kind != "ok" or not isinstance(mfa, Obj):
                cx_main.ob("C18.pipeline", False, "MFASystem.from_data_reader", inp, f"ended with {kind}: {mfa}")
                continue
            problems = []
            got = tuple(x.f["letter"] for x in mfa.f["dims"].f["dim_list"])
            if got != tuple(dim_order):
                problems.append(f"system dims {got}, defined {dim_order}")
            prm = mfa.f.get("parameters", {})
            for i, letters in enumerate(po):
                p = prm.get(f"p{i}")
                if not isinstance(p, Obj):
                    problems.append(f"parameter p{i} missing (keys {list(prm)})")
                    continue
                gl = tuple(x.f["letter"] for x in p.f["dims"].f["dim_list"])
                if gl != tuple(letters):
                    problems.append(f"parameter p{i} is over {gl}, its definition lists {tuple(letters)}")
                if p.f.get("name") != f"p{i}":
                    problems.append(f"parameter under key p{i} is named {p.f.get('name')}")
            if list(mfa.f.get("processes", {})) != ["sysenv", "use"]:
                problems.append("processes not as listed")
            if sorted(mfa.f.get("flows", {})) != ["sysenv => use", "use => sysenv"]:
                problems.append(f"flows {sorted(mfa.f.get('flows', {}))}")
            s1 = mfa.f.get("stocks", {}).get("s1")
            if not isinstance(s1, Obj) or s1.f.get("solver") != "lapack" or s1.cls.name != "StockDrivenDSM":
                problems.append("stock s1 not built as defined (class / solver)")
            cx_main.ob("C18.pipeline", not problems, "DataReader.read_parameters", inp, "; ".join(problems[:3]))


def file_cases(cx):
    """dimension files: orientation x header x first item == letter x dtype; csv and excel (first sheet unless named)"""
    strT, intT = Interp(cx.prog).builtin("str"), Interp(cx.prog).builtin("int")
    specs = []
    for orient in ("column", "row"):
        for header in (False, True):
            for first_is_letter in (False, True):
                for dtype in ("str", "int"):
                    if dtype == "int" and first_is_letter:
                        continue
                    specs.append((orient, header, first_is_letter, dtype))
    for reader_kind in ("csv", "excel", "excel-named-sheet", "from_np"):
        for orient, header, fil, dtype in specs:
            w = new_world(cx)
            it = w.it
            name, letter = "Element", "C"
            raw = (["C", "H", "O", "N"] if fil else ["H", "C2", "O"]) if dtype == "str" else ["1990", "2000", "1995"]
            cells = ([name] if header else []) + raw
            rows = [[c] for c in cells] if orient == "column" else [cells]
            other = [["x"], ["y"]]
            files = {"dims.file": {"kind": "dim", "sheets": [("first", rows), ("second", other)] if reader_kind != "excel-named-sheet" else [("first", other), ("second", rows)]}}
            calls = []
            it.hooks.update(file_models(files, calls))
            dd = defs(w, "DimensionDefinition", name=name, letter=letter, dtype=strT if dtype == "str" else intT)
            inp = {"reader": reader_kind, "orientation": orient, "header_row": header, "first_item_equals_letter": fil, "dtype": dtype}
            if reader_kind == "csv":
                rd = it.construct(cx.prog.cls("CSVDimensionReader"), [{name: "dims.file"}], {})
                qual = "CSVDimensionReader.read_dimension"
            elif reader_kind == "excel":
                rd = it.construct(cx.prog.cls("ExcelDimensionReader"), [], dict(dimension_files={name: "dims.file"}))
                qual = "ExcelDimensionReader.read_dimension"
            elif reader_kind == "excel-named-sheet":
                rd = it.construct(cx.prog.cls("ExcelDimensionReader"), [], dict(dimension_files={name: "dims.file"}, dimension_sheets={name: "second"}))
                qual = "ExcelDimensionReader.read_dimension"
            else:
                rd = None
                qual = "Dimension.from_np"
            if rd is not None:
                kind, d = run_guarded(lambda: it.call_method(rd, "read_dimension", dd))
            else:
                kind, d = run_guarded(lambda: it.call(it.get_attr(cx.prog.cls("Dimension"), "from_np"), [Cells(rows), dd], {}))
            exp = raw if dtype == "str" else [int(x) for x in raw]
            ok = kind == "ok" and isinstance(d, Obj) and list(d.f.get("items", [])) == exp and d.f.get("name") == name and d.f.get("letter") == letter
            got = list(d.f.get("items", [])) if kind == "ok" and isinstance(d, Obj) else f"{kind}: {getattr(d, 'exc_name', '')} {getattr(d, 'msg', d)!s:.120}"
            cx.ob("C18.dimension-files", ok, qual if not (kind == "ok" and not ok) else "Dimension.from_np", inp,
                  f"items read: {got}; the file holds {exp} (file order, declared type, header = the dimension's name only)")
    # history: the file is read, edited on disk, and read again (a new reader built the same way): the second result is the file's present content
    for reader_kind in ("csv", "excel", "excel-named-sheet"):
        w = new_world(cx)
        it = w.it
        files = {"dims.file": {"kind": "dim", "sheets": [("first", [["H"], ["C2"]]), ("second", [["H"], ["C2"]])]},
                 "p.file": {"kind": "param", "version": 1, "sheets": [("first", None), ("second", None)]}}
        calls = []
        it.hooks.update(file_models(files, calls))
        ConverterStub.log = []
        it.hooks["DataFrameToFlodymDataConverter"] = ConverterStub
        dd = defs(w, "DimensionDefinition", name="Element", letter="C", dtype=strT)

        def readers():
            if reader_kind == "csv":
                return (it.construct(cx.prog.cls("CSVDimensionReader"), [{"Element": "dims.file"}], {}),
                        it.construct(cx.prog.cls("CSVParameterReader"), [{"p": "p.file"}], {}))
            sh = dict(dimension_sheets={"Element": "second"}) if reader_kind == "excel-named-sheet" else {}
            psh = dict(parameter_sheets={"p": "second"}) if reader_kind == "excel-named-sheet" else {}
            return (it.construct(cx.prog.cls("ExcelDimensionReader"), [], dict(dimension_files={"Element": "dims.file"}, **sh)),
                    it.construct(cx.prog.cls("ExcelParameterReader"), [], dict(parameter_files={"p": "p.file"}, **psh)))
        inp = {"reader": reader_kind, "history": "read the dimension and parameter files; both are edited on disk; new readers read them again"}
        rd, prd = readers()
        k1, d1 = run_guarded(lambda: it.call_method(rd, "read_dimension", dd))
        ds1 = it.construct(cx.prog.cls("DimensionSet"), [], dict(dim_list=[d1])) if k1 == "ok" else None
        k1p, _ = run_guarded(lambda: it.call_method(prd, "read_parameter_values", "p", ds1)) if ds1 is not None else ("skip", None)
        files["dims.file"]["sheets"] = [("first", [["H"], ["O"], ["N"]]), ("second", [["H"], ["O"], ["N"]])]
        files["p.file"]["version"] = 2
        rd, prd = readers()
        k2, d2 = run_guarded(lambda: it.call_method(rd, "read_dimension", dd))
        ok = k2 == "ok" and isinstance(d2, Obj) and list(d2.f.get("items", [])) == ["H", "O", "N"]
        got = list(d2.f.get("items", [])) if k2 == "ok" and isinstance(d2, Obj) else f"{k2}: {getattr(d2, 'msg', d2)!s:.100}"
        q = "CSVDimensionReader.read_dimension" if reader_kind == "csv" else "ExcelDimensionReader.read_dimension"
        cx.ob("C18.dimension-files", ok, q, inp, f"second read gives {got}; the file now holds ['H', 'O', 'N']")
        if ok and k1p == "ok":
            ds2 = it.construct(cx.prog.cls("DimensionSet"), [], dict(dim_list=[d2]))
            ConverterStub.log = []
            k2p, _ = run_guarded(lambda: it.call_method(prd, "read_parameter_values", "p", ds2))
            vers = [getattr(df, "version", None) for df, *_ in ConverterStub.log]
            qp = "CSVParameterReader.read_parameter_values" if reader_kind == "csv" else "ExcelParameterReader.read_parameter_values"
            cx.ob("C18.from-files", k2p == "ok" and vers == [2], qp, inp,
                  f"the second read of the parameter file ended with {k2p} and handed the importer the table of file version {vers}; the file on disk is version 2")
    w = new_world(cx)
    dd = defs(w, "DimensionDefinition", name="Element", letter="C", dtype=strT)
    kind, d = run_guarded(lambda: w.it.call(w.it.get_attr(cx.prog.cls("Dimension"), "from_np"), [Cells([["a", "b"], ["c", "d"]]), dd], {}))
    cx.ob("C18.refusals", kind == "raise", "Dimension.from_np", {"cells": "2 x 2"}, "dimension data with more than one row and column was accepted")


class ConverterStub(PyModel):
    """stands in for the DataFrame converter (C11/C12): records what it was handed"""
    log = []

    def __init__(self, df, flodym_array, allow_missing_values=False, allow_extra_values=False):
        ConverterStub.log.append((df, flodym_array, allow_missing_values, allow_extra_values))
        ds = flodym_array.f["dims"]
        self.target_values = NP.leaf("file:" + str(getattr(df, "path", "?")), [tuple(d.f["items"]) for d in ds.f["dim_list"]])


def from_files_cases(cx):
    strT = Interp(cx.prog).builtin("str")
    for kind_ in ("from_csv", "from_excel", "from_excel-sheets"):
        for am, ae in itertools.product((False, True), repeat=2):
            w = new_world(cx)
            it = w.it
            files = {
                "time.f": {"kind": "dim", "sheets": [("s1", [["t0"], ["t1"], ["t2"]]), ("s2", [["zz"]])]},
                "aa.f": {"kind": "dim", "sheets": [("s1", [["a0", "a1"]]), ("s2", [["yy"]])]},
                "p.f": {"kind": "param", "sheets": [("s1", None), ("s2", None)]},
            }
            calls = []
            it.hooks.update(file_models(files, calls))
            ConverterStub.log = []
            it.hooks["DataFrameToFlodymDataConverter"] = ConverterStub
            dd = [defs(w, "DimensionDefinition", name="Time", letter="t", dtype=strT), defs(w, "DimensionDefinition", name="Aa", letter="a", dtype=strT)]
            pr = [defs(w, "ParameterDefinition", name="p", dim_letters=("a", "t"))]
            d = defs(w, "MFADefinition", dimensions=dd, processes=["sysenv"], flows=[], stocks=[], parameters=pr)
            kw = dict(definition=d, dimension_files={"Time": "time.f", "Aa": "aa.f"}, parameter_files={"p": "p.f"},
                      allow_missing_parameter_values=am, allow_extra_parameter_values=ae)
            if kind_ == "from_excel-sheets":
                kw.update(dimension_sheets={"Time": "s1", "Aa": "s1"}, parameter_sheets={"p": "s1"})
            meth = "from_csv" if kind_ == "from_csv" else "from_excel"
            inp = {"entry": kind_, "allow_missing_parameter_values": am, "allow_extra_parameter_values": ae}
            k, mfa = run_guarded(lambda: it.call(it.get_attr(cx.prog.cls("MFASystem"), meth), [], kw))
            if k != "ok" or not isinstance(mfa, Obj):
                q = "ExcelDimensionReader.read_dimension" if "excel" in kind_ else f"MFASystem.{meth}"
                cx.ob("C18.from-files", False, q, inp, f"a valid set of files was refused: {getattr(mfa, 'exc_name', k)} {getattr(mfa, 'msg', mfa)!s:.150}")
                continue
            problems = []
            items = {x.f["letter"]: list(x.f["items"]) for x in mfa.f["dims"].f["dim_list"]}
            if items != {"t": ["t0", "t1", "t2"], "a": ["a0", "a1"]}:
                problems.append(f"dimension items {items}")
            p = mfa.f.get("parameters", {}).get("p")
            if not isinstance(p, Obj) or tuple(x.f["letter"] for x in p.f["dims"].f["dim_list"]) != ("a", "t"):
                problems.append("parameter p not over ('a','t')")
            if len(ConverterStub.log) != 1:
                problems.append(f"{len(ConverterStub.log)} parameter tables converted")
            else:
                _, arr, gm, ge = ConverterStub.log[0]
                if (gm, ge) != (am, ae):
                    problems.append(f"flags reach the importer as allow_missing_values={gm}, allow_extra_values={ge}; given {am}, {ae}")
            cx.ob("C18.from-files", not problems, f"MFASystem.{meth}", inp, "; ".join(problems))


def two_readers_cases(cx):
    """two parameter readers alive at the same time (one lenient, one strict; made in either order): each hands ITS OWN flags to the
    importer - reader settings are per reader, not shared through the class"""
    for rc, sheet_kw in (("CSVParameterReader", {}), ("ExcelParameterReader", {"parameter_sheets": {"p": "s1"}})):
        for first in ((True, True), (False, False), (True, False)):
            second = tuple(not x for x in first) if first[0] == first[1] else (False, True)
            w = new_world(cx)
            it = w.it
            files = {"p.f": {"kind": "param", "sheets": [("s1", None), ("s2", None)]}}
            calls = []
            it.hooks.update(file_models(files, calls))
            ConverterStub.log = []
            it.hooks["DataFrameToFlodymDataConverter"] = ConverterStub
            inp = {"reader": rc, "first_reader_flags": list(first), "second_reader_flags": list(second), "read_order": "first, second, first"}

            def go():
                mk = lambda fl: it.construct(cx.prog.cls(rc), [], dict(parameter_files={"p": "p.f"}, allow_missing_values=fl[0], allow_extra_values=fl[1], **sheet_kw))
                r1 = mk(first)
                r2 = mk(second)
                ds = w.dimset(("a", "t"))
                for r in (r1, r2, r1):
                    it.call_method(r, "read_parameter_values", "p", ds)
            k, r = run_guarded(go)
            if k != "ok":
                cx.ob("C18.from-files", False, f"{rc}.read_parameter_values", inp, f"reading ended with {k}: {getattr(r, 'msg', r)!s:.150}")
                continue
            got = [(gm, ge) for _, _, gm, ge in ConverterStub.log]
            want = [first, second, first]
            cx.ob("C18.from-files", got == want, f"{rc}.read_parameter_values", inp,
                  f"the importer was handed the flags {got}; the readers were built with {want} (settings of one reader reach another)")


def field_consumption(prog, rep, cx):
    """every declared field of a definition class is read by the builder that consumes it"""
    rid = "C18.definition-fields-consumed"
    builders = {
        "FlowDefinition": [("flow_helper.py", None)],
        "StockDefinition": [("stock_helper.py", None)],
        "ParameterDefinition": [("data_reader.py", None)],
        "DimensionDefinition": [("dimensions.py", None), ("data_reader.py", None)],
        "MFADefinition": [("mfa_system.py", None)],
    }
    for cname, where in builders.items():
        cls = prog.cls(cname)
        fields = [k for k in prog.model_fields(cls) if not k.startswith("_")]
        reads = set()
        for module, fname in where:
            mi = prog.modules.get(module)
            if mi is None:
                raise AnalysisError(f"module {module} not found")
            nodes = [mi.funcs[fname].node] if fname else [mi.tree]
            if fname and fname not in mi.funcs:
                raise AnalysisError(f"anchor {module}:{fname} not found")
            for root in nodes:
                for n in ast.walk(root):
                    if isinstance(n, ast.Attribute):
                        reads.add(n.attr)
                    # wholesale or computed reads (model_dump(), dict(x), vars(x), x.__dict__, getattr(x, name)): every field may be
                    # read that way - what is done with the values is decided by the evaluated cases, not by this rule
                    if (isinstance(n, ast.Attribute) and n.attr in ("model_dump", "__dict__", "model_fields_set", "model_copy", "dict")) or \
                            (isinstance(n, ast.Call) and isinstance(n.func, ast.Name) and n.func.id in ("getattr", "vars", "dict")):
                        reads.update(fields)
        for f in fields:
            ok = f in reads
            rep.oblige(rid, ok, where=cname, what=f)
            if not ok:
                rep.add(Finding("C18", rid, cls.module, cname, f"{f}: field", f"field '{f}' of {cname} is declared (and validated) but never read by "
                                f"{', '.join(m + (':' + fn if fn else '') for m, fn in where)}: what the definition says is dropped", line=cls.node.lineno))


def run(prog, rep):
    for rid, txt in [
        ("C18.processes", "processes numbered in the listed order, names as keys"),
        ("C18.flows", "one zero-valued flow per definition, from/to the named process objects, generated or overriding name, listed dims in order"),
        ("C18.stocks", "one stock per definition: class, lifetime model, solver, time letter, process, listed dims, zero arrays"),
        ("C18.definition", "valid definitions are accepted"),
        ("C18.refusals", "sysenv not first, undefined dimension / process, missing or unused lifetime model, unknown solver, time not first, 2-d dimension data are refused"),
        ("C18.pipeline", "from_data_reader with a client reader: dims in definition order, parameters by name over the listed dims in order"),
        ("C18.dimension-files", "dimension files give the items in file order, converted to the declared type; first sheet unless one is named"),
        ("C18.from-files", "from_csv / from_excel assemble one system and forward the allow_* flags unswapped"),
        ("C18.definition-fields-consumed", "every definition field is read by its builder"),
    ]:
        rep.rule(rid, txt)
    cx = Ctx(prog, rep)
    processes_cases(cx)
    flows_cases(cx)
    stocks_cases(cx)
    definition_cases(cx)
    pipeline_cases(cx)
    file_cases(cx)
    from_files_cases(cx)
    two_readers_cases(cx)
    field_consumption(prog, rep, cx)
    for (rule, qual), (count, inp, msg) in sorted(cx.fail.items()):
        module, line, sig = _locate(prog, qual)
        rep.add(Finding("C18", rule, module, qual, sig, f"{msg} [{count} case(s)]", line=line, abstract_input=inp))
    rep.rules["C18.flows"]["floor"] = 10
    rep.rules["C18.stocks"]["floor"] = 40
    rep.rules["C18.dimension-files"]["floor"] = 40
    rep.rules["C18.refusals"]["floor"] = 20
    rep.exhaustive = True
    rep.assumptions += ASSUMPTIONS[:1] + [
        "pandas.read_csv / read_excel: header=None keeps the first row as data, otherwise it becomes the column names; "
        "read_excel(sheet_name=None) returns a dict of all sheets, sheet_name=0 the first sheet, a string that sheet",
        "the DataFrame-to-array conversion itself is replaced by a recording stub here (decided under C11/C12)",
    ]


MUTANTS = [
    {"name": "D9-solver-not-forwarded", "path": "stock_helper.py",
     "find": '        if "solver" in stock_definition.subclass.model_fields:\n            init_args["solver"] = stock_definition.solver\n', "replace": ""},
    {"name": "D10-sheet_name-None", "path": "data_reader.py", "find": "            sheet_name = 0\n", "replace": "            sheet_name = None\n"},
    {"name": "flow-from-to-swapped", "path": "flow_helper.py", "find": "flow = Flow(from_process=from_process, to_process=to_process, name=name, dims=dim_subset)",
     "replace": "flow = Flow(from_process=to_process, to_process=from_process, name=name, dims=dim_subset)"},
    {"name": "name-override-ignored", "path": "flow_helper.py", "find": "        if flow_definition.name_override is not None:\n            name = flow_definition.name_override\n        else:\n            name = naming(from_process, to_process)",
     "replace": "        name = naming(from_process, to_process)"},
    {"name": "stock-time_letter-dropped", "path": "stock_helper.py", "find": "            time_letter=stock_definition.time_letter,\n            name=stock_definition.name,", "replace": "            name=stock_definition.name,"},
    {"name": "stock-process-dropped", "path": "stock_helper.py", "find": "            process=process,\n        )", "replace": "        )"},
    {"name": "process-ids-from-one", "path": "processes.py", "find": "for id, name in enumerate(definitions)}", "replace": "for id, name in enumerate(definitions, 1)}"},
    {"name": "sysenv-rule-unwired", "path": "processes.py", "find": '    @model_validator(mode="after")\n    def check_id0(self):', "replace": "    def check_id0(self):"},
    {"name": "header-dropped-also-for-letter", "path": "dimensions.py", "find": "        if data[0] == definition.name:", "replace": "        if data[0] in (definition.name, definition.letter):"},
    {"name": "dim-subset-cached-by-letter-set", "path": "data_reader.py",
     "find": "        parameters = {}\n        for parameter_definition in parameter_definitions:\n            dim_subset = dims.get_subset(parameter_definition.dim_letters)",
     "replace": "        parameters = {}\n        cache = {}\n        for parameter_definition in parameter_definitions:\n            key = frozenset(parameter_definition.dim_letters)\n            if key not in cache:\n                cache[key] = dims.get_subset(parameter_definition.dim_letters)\n            dim_subset = cache[key]"},
    {"name": "from_csv-flags-swapped", "path": "mfa_system.py",
     "find": "        parameter_reader = CSVParameterReader(\n            parameter_files=parameter_files,\n            allow_missing_values=allow_missing_parameter_values,\n            allow_extra_values=allow_extra_parameter_values,",
     "replace": "        parameter_reader = CSVParameterReader(\n            parameter_files=parameter_files,\n            allow_missing_values=allow_extra_parameter_values,\n            allow_extra_values=allow_missing_parameter_values,"},
    {"name": "excel-reader-drops-extra-flag", "path": "data_reader.py",
     "find": "        data = pd.read_excel(datasets_path, sheet_name=sheet_name, **self.read_excel_kwargs)\n        return Parameter.from_df(\n            dims=dims,\n            name=parameter_name,\n            df=data,\n            allow_missing_values=self.allow_missing_values,\n            allow_extra_values=self.allow_extra_values,",
     "replace": "        data = pd.read_excel(datasets_path, sheet_name=sheet_name, **self.read_excel_kwargs)\n        return Parameter.from_df(\n            dims=dims,\n            name=parameter_name,\n            df=data,\n            allow_missing_values=self.allow_missing_values,"},
    {"name": "csv-dimension-header-default-dropped", "path": "data_reader.py",
     "find": '        if "header" not in self.read_csv_kwargs:\n            self.read_csv_kwargs["header"] = None\n        df = pd.read_csv(path, **self.read_csv_kwargs)', "replace": "        df = pd.read_csv(path, **self.read_csv_kwargs)"},
    {"name": "dimension-letter-check-skips-parameters", "path": "mfa_definition.py", "find": "        for item in self.flows + self.stocks + self.parameters:", "replace": "        for item in self.flows + self.stocks:"},
    {"name": "unused-lifetime-model-accepted", "path": "mfa_definition.py",
     "find": '            raise ValueError(f"Lifetime model is given, but not used in subclass {self.subclass}.")', "replace": "            pass"},
    {"name": "dtype-conversion-dropped", "path": "dimensions.py", "find": "        data = [definition.dtype(item) for item in data]\n", "replace": ""},
]
