"""C14 - dimension sets behave as ordered sets of uniquely lettered dimensions.

Enumerative abstract evaluation of the DimensionSet methods (AST of flodym/dimensions.py, pydantic protocol
modelled) on ALL ordered duplicate-free lists over a small alphabet of letter atoms, compared with the
ordered-list model of the property; object identities on the abstract heap decide independence.
"""
from __future__ import annotations

from ..core import Finding, AnalysisError
from ..interp import PyRaise, Obj, run_guarded, TaintAbort
from ..world import World, lists_over
from ..par import pmap, split

LEVEL = "other"
EXPLANATION = (
    "Abstract interpretation (enumerative mode) of DimensionSet/Dimension straight from the AST: every operator, "
    "producer, lookup and mutator is evaluated on every ordered duplicate-free list (pair of lists) over the alphabet and "
    "compared with the ordered-list model; heap identities decide that results share no list with receiver/argument and "
    "that a rejected mutation changes nothing. Letters are atoms compared only by equality, so k letters cover every "
    "equality pattern of sets with <= k distinct letters. Exhaustive within the alphabet bound. "
    "Also: the right operand holding its own (shorter) Dimension objects for shared letters, lists whose clashing element comes last, "
    "replace by a name that contains another dimension's letter, every lookup style exercised on the operands beforehand."
    ' The unary producers and the mutators are evaluated a second time with dimensions that all carry one name.'
)

MOD = "dimensions.py"


def uni(a, b):
    return a + tuple(x for x in b if x not in a)


def inter(a, b):
    return tuple(x for x in a if x in b)


def diff(a, b):
    return tuple(x for x in a if x not in b)


BINOPS = {
    "__or__": uni, "union_with": uni, "__and__": inter, "intersect_with": inter, "__sub__": diff, "difference_with": diff,
    "__xor__": lambda a, b: diff(a, b) + diff(b, a),
    "__add__": lambda a, b: ("RAISE" if set(a) & set(b) else a + b),
}


class Ctx:
    def __init__(self, prog, rep, alpha):
        self.prog, self.rep, self.alpha = prog, rep, alpha
        self.fail = {}      # (rule, op) -> (count, first input, message)

    def bad(self, rule, op, inp, msg):
        k = (rule, op)
        c = self.fail.get(k)
        self.fail[k] = (c[0] + 1, c[1], c[2]) if c else (1, inp, msg)

    def ob(self, rule, ok, op, inp, msg=""):
        self.rep.oblige(rule, ok, where=f"DimensionSet.{op}", what=str(inp), distinct=(rule, op, str(inp)))
        if not ok:
            self.bad(rule, op, inp, msg)


def warm(w, s):
    """history: the set has been queried in every way before (lookup / position caches, if any, are filled)"""
    it = w.it
    run_guarded(lambda: it.call_method(s, "__contains__", "a"))
    run_guarded(lambda: it.get_attr(s, "letters"))
    run_guarded(lambda: it.get_attr(s, "shape"))
    for d in list(s.f["dim_list"]):
        for key in (d.f["letter"], d.f["name"]):
            run_guarded(lambda: it.call_method(s, "index", key))
            run_guarded(lambda: it.call_method(s, "__getitem__", key))
            run_guarded(lambda: it.call_method(s, "size", key))


def lookups(cx: Ctx, w: World, r: Obj, expect, op, inp):
    """lookup / membership / index / size / shape agree with the ordered list `expect` (letters)"""
    it = w.it
    problems = []

    def call(name, *a):
        return run_guarded(lambda: it.call_method(r, name, *a))

    def prop(name):
        return run_guarded(lambda: it.get_attr(r, name))
    name_of = lambda l: (w.dim(l).f["name"] if l in cx.alpha else l * 2)
    names_unique = len({name_of(l) for l in expect}) == len(expect)
    for l in cx.alpha + "z":
        # by letter always; by name only where names identify a dimension (dimensions may share a name: only letters are unique)
        for key in ((l, name_of(l)) if names_unique and not (w.same_names and l not in expect) else (l,)):
            k, v = call("__contains__", key)
            if k != "ok" or bool(v) != (l in expect):
                problems.append(f"'{key}' in set -> {v if k == 'ok' else k} but letters are {expect}")
            k, v = call("__getitem__", key)
            if l in expect:
                if k != "ok" or not isinstance(v, Obj) or v.f.get("letter") != l:
                    problems.append(f"set['{key}'] -> {k} {v}")
                k2, v2 = call("index", key)
                if k2 != "ok" or int(v2) != expect.index(l):
                    problems.append(f"index('{key}') -> {v2 if k2 == 'ok' else k2}, expected {expect.index(l)}")
                k3, v3 = call("size", key)
                if k3 != "ok" or tuple(getattr(v3, "src", ()) or ()) != tuple(w.items(l)):
                    problems.append(f"size('{key}') is not the length of dimension {l}")
            elif k != "raise":
                problems.append(f"set['{key}'] for an absent dimension did not raise")
    # identifiers spelled with the set's letters, and the empty string, are not dimensions of it
    odd = ["", "".join(expect)] + ["".join(expect[i:i + 2]) for i in range(len(expect) - 1)]
    for key in odd:
        if key in expect or key in [name_of(l) for l in expect]:
            continue
        k, v = call("__contains__", key)
        if k != "ok" or bool(v):
            problems.append(f"'{key}' in set -> {v if k == 'ok' else k}, but it is neither a name nor a letter of the set")
        k, v = call("__getitem__", key)
        if k != "raise":
            problems.append(f"set['{key}'] did not raise")
    for i, l in enumerate(expect):
        k, v = call("__getitem__", i)
        if k != "ok" or not isinstance(v, Obj) or v.f.get("letter") != l:
            problems.append(f"set[{i}] is not dimension {l}")
    checks = {"letters": tuple(expect), "names": tuple(name_of(l) for l in expect), "string": "".join(expect), "ndim": len(expect)}
    for nm, want in checks.items():
        k, v = prop(nm)
        if k != "ok" or v != want:
            problems.append(f"{nm} -> {v if k == 'ok' else k}, expected {want}")
    k, v = prop("shape")
    if k != "ok" or tuple(tuple(getattr(x, "src", ()) or ()) for x in v) != tuple(tuple(w.items(l)) for l in expect):
        problems.append("shape is not the lengths of the dimensions in order")
    k, v = call("__len__")
    if k != "ok" or v != len(expect):
        problems.append(f"len -> {v}")
    k, v = call("__bool__")
    if k != "ok" or bool(v) != (len(expect) > 0):
        problems.append(f"bool -> {v}")
    k, v = run_guarded(lambda: [d.f["letter"] for d in it.iterate(r)])
    if k != "ok" or tuple(v) != tuple(expect):
        problems.append(f"iteration order {v}")
    cx.ob("C14.lookup", not problems, op, inp, "; ".join(problems[:3]))


def independent(cx, w, r, recv, arg, op, inp, la, lb, redo=None, exp=None):
    ok = True
    msg = ""
    if r is recv or (arg is not None and r is arg):
        ok, msg = False, "the result is the operand object itself"
    elif r.f["dim_list"] is la or (lb is not None and r.f["dim_list"] is lb):
        ok, msg = False, "the result shares its list of dimensions with an operand (an in-place edit of one changes the other)"
    else:
        # write-through probe on the abstract heap: edit the result in place, the operands must not move
        before = w.snap(recv) + (w.snap(arg) if arg is not None else [])
        z = w.dim("z", n=3)
        run_guarded(lambda: w.it.call_method(r, "append", z, inplace=True))
        ch = w.changed(before)
        if not ch:
            # the operands' lookups still answer for their own dimensions (lookup tables shared with the result would not)
            for o_ in [recv] + ([arg] if arg is not None and isinstance(arg, Obj) and "dim_list" in arg.f else []):
                for d_ in o_.f["dim_list"]:
                    kq, vq = run_guarded(lambda: w.it.call_method(o_, "__contains__", d_.f["letter"]))
                    ki, vi = run_guarded(lambda: w.it.call_method(o_, "index", d_.f["letter"]))
                    if kq != "ok" or not vq or ki != "ok":
                        ch = [f"after the result was edited in place, an operand no longer finds its own dimension '{d_.f['letter']}'"]
                kz, vz = run_guarded(lambda: w.it.call_method(o_, "__contains__", "z"))
                if kz == "ok" and vz and "z" not in w.letters(o_):
                    ch = ["after the result was edited in place, an operand claims to contain the dimension added to the result"]
        if ch:
            ok, msg = False, "editing the result in place changed an operand: " + "; ".join(ch)
        elif redo is not None:
            # ... nor any later result: the same operation on the same operands gives what it gave before
            k2, r2 = run_guarded(redo)
            if k2 != "ok" or not isinstance(r2, Obj) or w.letters(r2) != tuple(exp):
                got = w.letters(r2) if k2 == "ok" and isinstance(r2, Obj) else k2
                ok, msg = False, f"after an earlier result of the same operation was edited in place, the operation now gives {got} instead of {tuple(exp)} (results share state)"
            else:
                k3, e3 = run_guarded(lambda: w.it.call(w.it.get_attr(w.DimensionSet, "empty"), [], {}))
                if k3 == "ok" and isinstance(e3, Obj) and w.letters(e3) != ():
                    ok, msg = False, f"DimensionSet.empty() now holds {w.letters(e3)}"
    cx.ob("C14.independent-result", ok, op, inp, msg)


def run_pair_ops(cx: Ctx, A, B):
    variants = [(op, oracle, False) for op, oracle in BINOPS.items()]
    if set(A) & set(B):
        # the right operand holds its OWN Dimension objects for the shared letters (same letter and name, fewer items - e.g. the
        # dims of an array over part of the items): the left set's dimensions are the ones that stay
        variants += [(op, oracle, True) for op, oracle in BINOPS.items() if op in ("__or__", "union_with", "__and__", "intersect_with", "__sub__")]
    for op, oracle, own in variants:
        w = World(cx.prog)
        a = w.dimset(A)
        if own:
            from ..interp import ItemList as _IL
            mine = {l: w.it.construct(w.Dimension, [], dict(name=l * 2, letter=l, items=_IL(w.items(l)[:2]))) for l in B if l in A}
            b = w.dimset(B, mine)
        else:
            b = w.dimset(B)
        for s in (a, b):      # history: operands have been queried before (lookup caches, if any, are warm)
            warm(w, s)
        la, lb = a.f["dim_list"], b.f["dim_list"]
        snaps = w.snap(a, b)
        kind, r = run_guarded(lambda: w.it.call_method(a, op, b))
        cx.rep.evaluations += 1
        exp = oracle(A, B)
        inp = {"op": op, "self": list(A), "other": list(B)}
        if own:
            inp["other_holds_own_shorter_dimensions_for"] = [l for l in B if l in A]
        if exp == "RAISE":
            cx.ob("C14.operator-result", kind == "raise", op, inp, f"overlapping sets were not refused (got {kind})")
        elif kind != "ok" or not isinstance(r, Obj):
            cx.ob("C14.operator-result", False, op, inp, f"expected letters {exp}, but the call ended with {kind}: {r}")
            continue
        else:
            got = w.letters(r)
            cx.ob("C14.operator-result", got == exp, op, inp, f"letters {got}, ordered-set model gives {exp}")
            if got == exp:
                lookups(cx, w, r, exp, op, inp)
                independent(cx, w, r, a, b, op, inp, la, lb, redo=lambda: w.it.call_method(a, op, b), exp=exp)
        ch = w.changed(snaps) if kind != "ok" or exp == "RAISE" else []
        if kind == "ok" and exp != "RAISE":
            pass   # operands were probed by `independent`
        cx.ob("C14.operands-unchanged", not ch, op, inp, "; ".join(ch))
    if len(A) == 1:       # a single Dimension as LEFT operand: d + set, d + d
        w = World(cx.prog)
        d = w.dim(A[0])
        for other, desc in ((w.dimset(B), list(B)), (w.dim(B[0]), f"Dimension {B[0]}") if len(B) == 1 else (None, None)):
            if other is None:
                continue
            kind, r = run_guarded(lambda: w.it.call_method(d, "__add__", other))
            cx.rep.evaluations += 1
            exp = BINOPS["__add__"](A, B)
            inp = {"op": "__add__", "self": f"Dimension {A[0]}", "other": desc}
            ok = (kind == "raise") if exp == "RAISE" else (kind == "ok" and isinstance(r, Obj) and w.letters(r) == exp)
            cx.ob("C14.operator-result", ok, "__add__", inp, f"expected {'a refusal (the letters overlap)' if exp == 'RAISE' else exp}, got {kind} {w.letters(r) if kind == 'ok' and isinstance(r, Obj) else ''}")
    if len(B) == 1:       # a single Dimension as right operand is promoted to a set
        for op in ("__or__", "__and__", "__sub__", "__add__"):
            w = World(cx.prog)
            a = w.dimset(A)
            d = w.dim(B[0])
            kind, r = run_guarded(lambda: w.it.call_method(a, op, d))
            cx.rep.evaluations += 1
            exp = BINOPS[op](A, B)
            inp = {"op": op, "self": list(A), "other": f"Dimension {B[0]}"}
            ok = (kind == "raise") if exp == "RAISE" else (kind == "ok" and w.letters(r) == exp)
            cx.ob("C14.operator-result", ok, op, inp, f"expected {exp}, got {kind} {w.letters(r) if kind == 'ok' else r}")


def _same_names():
    from ..world import MODE
    return MODE["names"] == "same"


def run_unary(cx: Ctx, A):
    rev = tuple(reversed(A))
    from ..world import MODE
    cases = [("copy", (), A), ("get_subset", (), A), ("get_subset", (None,), A), ("get_subset", (rev,), rev), ("__getitem__", (rev,), rev)]
    if MODE["names"] != "same":
        cases.append(("get_subset", (tuple(l * 2 for l in A),), A))       # by name - where names identify the dimensions
    for k in range(len(A)):
        sub = tuple(x for i, x in enumerate(rev) if i != k)
        cases.append(("get_subset", (sub,), sub))
    for name, args, exp in cases:
        w = World(cx.prog)
        a = w.dimset(A)
        warm(w, a)
        la = a.f["dim_list"]
        kind, r = run_guarded(lambda: w.it.call_method(a, name, *args))
        cx.rep.evaluations += 1
        inp = {"op": name, "self": list(A), "args": [list(x) if isinstance(x, tuple) else x for x in args]}
        if kind != "ok" or not isinstance(r, Obj):
            cx.ob("C14.producer-result", False, name, inp, f"ended with {kind}: {r}")
            continue
        got = w.letters(r)
        cx.ob("C14.producer-result", got == tuple(exp), name, inp, f"letters {got}, expected {tuple(exp)}")
        if got == tuple(exp):
            lookups(cx, w, r, tuple(exp), name, inp)
            independent(cx, w, r, a, None, name, inp, la, None)
    # receiver lookups
    w = World(cx.prog)
    a = w.dimset(A)
    lookups(cx, w, a, tuple(A), "lookup", {"self": list(A)})
    if A:
        kind, r = run_guarded(lambda: w.it.call_method(a, "get_subset", ("z",)))
        cx.ob("C14.producer-result", kind == "raise", "get_subset", {"self": list(A), "args": ["z"]}, "unknown dimension accepted")


def run_empty_dimension(cx: Ctx, A):
    """boundary size: a set that also holds a dimension WITHOUT items - it is a dimension like any other"""
    from ..interp import ItemList as _IL
    w = World(cx.prog, "concrete")
    it = w.it
    e = it.construct(w.Dimension, [], dict(name="ee", letter="e", items=_IL([])))
    dims = [w.dim(l) for l in A] + [e]
    s = it.construct(w.DimensionSet, [], dict(dim_list=list(dims)))
    inp = {"self": list(A) + ["e (a dimension with no items)"]}
    problems = []
    for key in ("e", "ee"):
        k, v = run_guarded(lambda: it.call_method(s, "__getitem__", key))
        if k != "ok" or v is not e:
            problems.append(f"set['{key}'] -> {k}")
        k, v = run_guarded(lambda: it.call_method(s, "__contains__", key))
        if k != "ok" or not v:
            problems.append(f"'{key}' in set -> {v if k == 'ok' else k}")
        k, v = run_guarded(lambda: it.call_method(s, "index", key))
        if k != "ok" or int(v) != len(A):
            problems.append(f"index('{key}') -> {v if k == 'ok' else k}")
        k, v = run_guarded(lambda: it.call_method(s, "size", key))
        if k != "ok" or int(v) != 0:
            problems.append(f"size('{key}') -> {v if k == 'ok' else k}")
        k, v = run_guarded(lambda: it.call_method(s, "get_subset", (key,)))
        if k != "ok" or not isinstance(v, Obj) or w.letters(v) != ("e",):
            problems.append(f"get_subset(('{key}',)) -> {k}")
        k, v = run_guarded(lambda: it.call_method(s, "drop", key))
        if k != "ok" or not isinstance(v, Obj) or w.letters(v) != tuple(A):
            problems.append(f"drop('{key}') -> {k}")
    k, v = run_guarded(lambda: it.get_attr(s, "shape"))
    if k != "ok" or len(v) != len(A) + 1 or int(v[-1]) != 0:
        problems.append(f"shape -> {v if k == 'ok' else k}")
    other = it.construct(w.DimensionSet, [], dict(dim_list=[e]))
    for op, exp in (("__and__", ("e",)), ("__sub__", tuple(A)), ("__or__", tuple(A) + ("e",))):
        k, v = run_guarded(lambda: it.call_method(s, op, other))
        if k != "ok" or not isinstance(v, Obj) or w.letters(v) != exp:
            problems.append(f"{op} with the set holding only that dimension -> {w.letters(v) if k == 'ok' and isinstance(v, Obj) else k}, expected {exp}")
    k, v = run_guarded(lambda: it.call_method(s, "__add__", other))
    if k != "raise" or not v.isa("ValueError"):
        problems.append(f"+ with an overlapping set -> {k} {getattr(v, 'exc_name', '')} (the overlap must be refused)")
    cx.rep.evaluations += 1
    cx.ob("C14.lookup", not problems, "__getitem__", inp, "; ".join(problems[:4]))


def run_mutators(cx: Ctx, A):
    alpha = cx.alpha
    news = [l for l in alpha if l not in A][:1] + [l for l in A][:1]     # one fresh letter, one clashing letter
    for new in news:
        clash = new in A
        for inplace in (False, True):
            muts = [("append", lambda d: (d,), lambda: A + (new,)), ("prepend", lambda d: (d,), lambda: (new,) + A),
                    ("expand_by", lambda d: ([d],), lambda: A + (new,)), ("extend", lambda d: ([d],), lambda: A + (new,))]
            def _ins(i):
                lst = list(A)
                lst.insert(i, new)          # the ordered-list model: positions beyond either end clamp, negative ones count from the end
                return tuple(lst)
            for i in list(range(len(A) + 1)) + [-1, -len(A) - 1, -len(A) - 2, len(A) + 2]:
                muts.append((f"insert@{i}", (lambda d, i=i: (i, d)), (lambda i=i: _ins(i))))
            for i, old in enumerate(A):
                for key in ((old, old * 2) if not _same_names() else (old,)):
                    muts.append((f"replace:{key}", (lambda d, key=key: (key, d)), (lambda i=i: A[:i] + (new,) + A[i + 1:])))
            for label, mkargs, oracle in muts:
                name = label.split("@")[0].split(":")[0]
                w = World(cx.prog)
                a = w.dimset(A)
                warm(w, a)
                d = w.dim(new, fresh=True) if not clash else w.it.construct(
                    w.Dimension, [], dict(name="other" + new, letter=new, items=w.it.get_attr(w.dim(new), "items")))
                la = a.f["dim_list"]
                snaps = w.snap(a)
                kind, r = run_guarded(lambda: w.it.call_method(a, name, *mkargs(d), inplace=inplace))
                cx.rep.evaluations += 1
                inp = {"op": label, "self": list(A), "new": new, "inplace": inplace}
                is_replace_self = name == "replace" and clash and label.split(":")[1] in (new, new * 2)
                if clash and not is_replace_self:
                    cx.ob("C14.clash-rejected", kind == "raise", name, inp, f"a second dimension with letter '{new}' was accepted ({kind})")
                    ch = w.changed(snaps)
                    cx.ob("C14.rejected-call-changes-nothing", not ch, name, inp, "; ".join(ch))
                    continue
                if is_replace_self:
                    continue      # replacing a dimension by one with its own letter: the documented rule refuses it; not part of C14
                exp = oracle()
                if inplace:
                    ok = kind == "ok" and r is None and w.letters(a) == exp
                    cx.ob("C14.mutator-result", ok, name, inp, f"in place: receiver letters {w.letters(a)}, expected {exp} ({kind} {r})")
                    if ok:
                        lookups(cx, w, a, exp, name, inp)
                else:
                    ok = kind == "ok" and isinstance(r, Obj) and w.letters(r) == exp
                    cx.ob("C14.mutator-result", ok, name, inp, f"expected {exp}, got {kind} {w.letters(r) if kind == 'ok' and isinstance(r, Obj) else r}")
                    ch = w.changed(snaps)
                    cx.ob("C14.operands-unchanged", not ch, name, inp, "; ".join(ch))
                    if ok:
                        lookups(cx, w, r, exp, name, inp)
                        independent(cx, w, r, a, None, name, inp, la, None)
    # replace by NAME where the name happens to contain the letter of another dimension of the set, with which the new one clashes
    if len(A) >= 2:
        for inplace in (False, True):
            w = World(cx.prog)
            from ..interp import ItemList as _IL
            named = [w.it.construct(w.Dimension, [], dict(name="dim " + "".join(A) + " " + l, letter=l, items=_IL(w.items(l)))) for l in A]
            a = w.it.construct(w.DimensionSet, [], dict(dim_list=list(named)))
            warm(w, a)
            clash = w.it.construct(w.Dimension, [], dict(name="newcomer", letter=A[1], items=_IL(w.items(A[1]))))
            snaps = w.snap(a)
            key = named[0].f["name"]
            kind, r = run_guarded(lambda: w.it.call_method(a, "replace", key, clash, inplace=inplace))
            cx.rep.evaluations += 1
            inp = {"op": "replace", "self": list(A), "key": key, "new_letter": A[1], "inplace": inplace}
            cx.ob("C14.clash-rejected", kind == "raise", "replace", inp, f"a second dimension with letter '{A[1]}' was accepted ({kind})")
            ch = w.changed(snaps)
            cx.ob("C14.rejected-call-changes-nothing", not ch, "replace", inp, "; ".join(ch))
    # a list of dimensions whose clash is not the first element: nothing may be added before the refusal
    if A:
        fresh = [l for l in alpha if l not in A][:1]
        for inplace in (False, True):
            for name in ("expand_by", "extend"):
                w = World(cx.prog)
                a = w.dimset(A)
                warm(w, a)
                dims = [w.dim(l, fresh=True) for l in fresh] + [w.dim("z", n=3)] + [w.it.construct(w.Dimension, [], dict(name="other" + A[0], letter=A[0], items=w.it.get_attr(w.dim(A[0]), "items")))]
                snaps = w.snap(a)
                kind, r = run_guarded(lambda: w.it.call_method(a, name, list(dims), inplace=inplace))
                cx.rep.evaluations += 1
                inp = {"op": name, "self": list(A), "added": fresh + ["z", A[0] + " (clash, last)"], "inplace": inplace}
                cx.ob("C14.clash-rejected", kind == "raise", name, inp, "a list of dimensions containing a clashing one was accepted")
                ch = w.changed(snaps)
                cx.ob("C14.rejected-call-changes-nothing", not ch, name, inp, "; ".join(ch))
    for i, old in enumerate(A):
        for key in ((old, old * 2) if not _same_names() else (old,)):
            for inplace in (False, True):
                for name in ("drop", "remove"):
                    w = World(cx.prog)
                    a = w.dimset(A)
                    warm(w, a)
                    la = a.f["dim_list"]
                    snaps = w.snap(a)
                    kind, r = run_guarded(lambda: w.it.call_method(a, name, key, inplace=inplace))
                    cx.rep.evaluations += 1
                    exp = A[:i] + A[i + 1:]
                    inp = {"op": name, "self": list(A), "key": key, "inplace": inplace}
                    if inplace:
                        ok = kind == "ok" and r is None and w.letters(a) == exp
                        cx.ob("C14.mutator-result", ok, name, inp, f"in place: receiver letters {w.letters(a)}, expected {exp}")
                        if ok:
                            lookups(cx, w, a, exp, name, inp)
                    else:
                        ok = kind == "ok" and isinstance(r, Obj) and w.letters(r) == exp
                        cx.ob("C14.mutator-result", ok, name, inp, f"expected {exp}, got {kind}")
                        ch = w.changed(snaps)
                        cx.ob("C14.operands-unchanged", not ch, name, inp, "; ".join(ch))
                        if ok:
                            lookups(cx, w, r, exp, name, inp)
                            independent(cx, w, r, a, None, name, inp, la, None)


def constructor_uniqueness(cx: Ctx):
    for A in [("a", "a"), ("a", "b", "a")]:
        w = World(cx.prog)
        dims = [w.dim(l, fresh=True) for l in A]
        kind, r = run_guarded(lambda: w.it.construct(w.DimensionSet, [], dict(dim_list=dims)))
        cx.ob("C14.constructor-unique-letters", kind == "raise", "__init__", {"dim_list": list(A)}, "duplicate letters accepted by the constructor")
    w = World(cx.prog)
    base = [w.dim("a"), w.dim("b")]
    s = w.it.construct(w.DimensionSet, [], dict(dim_list=base))
    cx.ob("C14.constructor-private-list", s.f["dim_list"] is not base, "__init__", {"dim_list": ["a", "b"]},
          "the set keeps the caller's list object")
    kind, r = run_guarded(lambda: w.it.call_method(w.dim("a"), "__add__", w.dim("b")))
    cx.ob("C14.operator-result", kind == "ok" and w.letters(r) == ("a", "b"), "Dimension.__add__", {"a+b": 1}, "Dimension + Dimension")
    kind, r = run_guarded(lambda: w.it.call_method(w.dim("a"), "as_dimset"))
    cx.ob("C14.operator-result", kind == "ok" and w.letters(r) == ("a",), "Dimension.as_dimset", {"a": 1}, "as_dimset")
    kind, r = run_guarded(lambda: w.it.call(w.it.get_attr(w.DimensionSet, "empty"), [], {}))
    cx.ob("C14.operator-result", kind == "ok" and w.letters(r) == (), "DimensionSet.empty", {}, "empty")


def work(prog, rep, chunk):
    alpha, lists = chunk
    cx = Ctx(prog, rep, alpha)
    L = lists_over(alpha)
    try:
        for A in lists:
            for B in L:
                run_pair_ops(cx, A, B)
            run_unary(cx, A)
            run_mutators(cx, A)
            if len(A) <= 2:
                run_empty_dimension(cx, A)
            if len(A) >= 2:
                # the same again with dimensions that all carry ONE name (origin / destination regions): only letters identify them
                from ..world import in_length_mode
                in_length_mode("uniform+samenames", lambda: (run_unary(cx, A), run_mutators(cx, A)))
        if () in lists:
            constructor_uniqueness(cx)
    except TaintAbort as e:
        raise AnalysisError(f"DimensionSet code branches on a length/position: {e}")
    return cx.fail


def run(prog, rep):
    alpha = "abc" if rep.tier == "quick" else "abcd"
    for rid, txt in [
        ("C14.operator-result", "| & - ^ + and their named forms return the ordered-set result (left order first)"),
        ("C14.producer-result", "copy / get_subset / [] with a tuple return the requested dimensions in the requested order"),
        ("C14.lookup", "lookup by name, letter, position; membership, index, size, shape, names, letters agree with the order"),
        ("C14.independent-result", "a returned set is a new object with its own list: editing it in place leaves the operands alone"),
        ("C14.operands-unchanged", "operations without inplace=True leave receiver and argument unchanged"),
        ("C14.mutator-result", "append/prepend/insert/expand/replace/drop give the ordered-list result in both inplace modes"),
        ("C14.clash-rejected", "a mutator adding a dimension whose letter is present raises"),
        ("C14.rejected-call-changes-nothing", "a rejected mutation leaves the receiver as it was"),
        ("C14.constructor-unique-letters", "the constructor refuses duplicate letters"),
        ("C14.constructor-private-list", "the constructor does not keep the caller's list"),
    ]:
        rep.rule(rid, txt)
    prog.cls("DimensionSet")
    L = lists_over(alpha)
    fails = {}
    for part in pmap(work, [(alpha, c) for c in split(L, 16 if alpha == "abc" else 64)], prog, rep):
        for k, (count, inp, msg) in part.items():
            c = fails.get(k)
            fails[k] = (c[0] + count, c[1], c[2]) if c else (count, inp, msg)
    rep.exhaustive = True
    rep.extra["alphabet"] = alpha
    rep.extra["lists"] = len(L)
    rep.extra["pairs"] = len(L) ** 2
    rep.rules["C14.operator-result"]["floor"] = len(L) ** 2 * 8
    rep.assumptions += [
        "pydantic v2: construction assigns fields (list-typed fields get a new list), then runs the after-validators in order; "
        "model_copy(update) is a shallow copy without validation; functools.cached_property stores into the instance dict",
        "dimension letters/names are atoms compared by equality only; 3 (quick) / 4 (thorough) letters cover every equality "
        "pattern of two sets with that many distinct letters",
    ]
    fn = {f.name: f for f in prog.cls("DimensionSet").methods.values()}
    for (rule, op), (count, inp, msg) in sorted(fails.items()):
        name = op.split(".")[-1]
        node = fn.get(name)
        rep.add(Finding("C14", rule, MOD, f"DimensionSet.{name}" if "." not in op else op,
                        f"def {name}" if node is None else f"def {name}({', '.join(a.arg for a in node.node.args.args)})",
                        f"{msg} [{count} abstract input(s)]", line=node.node.lineno if node else None, abstract_input=inp))


MUTANTS = [
    {"name": "D1-get_subset-bare-model_copy", "path": MOD, "find": "subset = self.copy()", "replace": "subset = self.model_copy()"},
    {"name": "intersect-in-other-order", "path": MOD,
     "find": "intersection_letters = [dim.letter for dim in self.dim_list if dim.letter in other.letters]",
     "replace": "intersection_letters = [dim.letter for dim in other.dim_list if dim.letter in self.letters]"},
    {"name": "union-returns-self-when-nothing-new", "path": MOD, "find": "        return self.expand_by(added_dims)",
     "replace": "        if not added_dims:\n            return self\n        return self.expand_by(added_dims)"},
    {"name": "append-without-clash-check", "path": MOD, "find": "        self._check_additional_dim(new_dim)\n        if inplace:\n            self.dim_list.append(new_dim)",
     "replace": "        if inplace:\n            self.dim_list.append(new_dim)"},
    {"name": "replace-mutates-before-check", "path": MOD,
     "find": "        if inplace:\n            self.dim_list[self.index(key)] = new_dim\n            return",
     "replace": "        if inplace:\n            self.dim_list[self.index(key)] = new_dim\n            self.no_repeated_dimensions()\n            return",
     "expect": "survive"},
    {"name": "drop-copy_dim_list-validator", "path": MOD, "find": "        self.dim_list = copy(self.dim_list)\n        return self",
     "replace": "        return self", "expect": "survive"},
    {"name": "insert-shares-list", "path": MOD, "find": "            dim_list = copy(self.dim_list)\n            dim_list.insert(index, new_dim)",
     "replace": "            dim_list = self.dim_list\n            dim_list.insert(index, new_dim)"},
    {"name": "copy-shares-list", "path": MOD, "find": 'return self.model_copy(update={"dim_list": copy(self.dim_list)})', "replace": "return self.model_copy()"},
    {"name": "symmetric-difference-order", "path": MOD, "find": "return (self - other) | (other - self)", "replace": "return (other - self) | (self - other)"},
    {"name": "index-by-name-only", "path": MOD, "find": "        dim = self._full_mapping[key]\n        return self.dim_list.index(dim)",
     "replace": "        return self.names.index(key)"},
]
