"""C15 - operations never modify their inputs, and results are independent objects."""
from __future__ import annotations

import ast

from .. import arrays as AR
from ..core import Finding, AnalysisError
from ._arr import run_array_property, ASSUMPTIONS

LEVEL = "other"
EXPLANATION = (
    "(1) On the abstract heap of the enumerative evaluator every input of every abstract evaluation of the families of "
    "C01/C05/C06/C07/C13 (arithmetic incl. reflected scalar forms with the literal 0, reductions, casts, slice reads, copy, "
    "full/full_like, constructors, stacking/splitting, building stocks and lifetime models from existing arrays) is snapshotted "
    "before and compared after (values object, buffer identity, buffer write counter, entries, dims object, dimension list): any "
    "difference after an operation that is not explicitly in place is a violation; results of copy, arithmetic, cast_to, "
    "full/full_like, slice reads and constructors must share no buffer and no dimension list with any input (identity on the "
    "heap, not equality); an ndarray assigned through [] must not share memory with the target. (2) A whole-package may-write "
    "rule: no function writes (attribute/subscript store, augmented assignment, mutating method, inplace=True) through a "
    "parameter other than self, directly, through local aliases or through callees (fixpoint over the resolved call graph); one "
    "named accumulator is exempt. to_df/from_df/export (pandas) are covered by (2). "
    "Also: selections by a Dimension holding all items (a renaming) yield independent arrays; drawing a Sankey diagram writes into none of the system's arrays (stores through views and boolean-mask stores are modelled).")
TECHNIQUE = "static analysis: abstract interpretation with buffer identities and heap snapshots + interprocedural may-write (effect) analysis"


def family(prog, name, tier, taint_mode):
    alpha = "abc"
    if name == "arith":
        return AR.arith_cases(prog, alpha, None, taint_mode)
    if name == "reduce":
        return AR.reduce_cases(prog, alpha, None, taint_mode)
    if name == "index":
        return AR.index_cases(prog, 3, taint_mode)
    if name == "misc":
        return AR.misc_index_cases(prog, taint_mode)
    if name == "illformed":
        return AR.illformed_cases(prog, taint_mode)
    if name == "producers":
        return AR.producer_cases(prog, alpha, taint_mode)
    if name == "stocks":
        return AR.stock_ctor_cases(prog, taint_mode)
    if name == "lifetime":
        return AR.lifetime_param_cases(prog, "tab", taint_mode)
    raise KeyError(name)


MUTATING = {"append", "extend", "insert", "remove", "pop", "sort", "reverse", "update", "clear", "setdefault", "popitem", "fill", "resize",
            "put", "itemset", "setfield", "setflags", "add", "discard"}
EXEMPT = {
    # (qualified function, parameter): reason
    ("PlotlySankeyPlotter._append_flow", "links"): "accumulator created by its only caller _get_links_dict and never visible to the user",
}


def root_name(n):
    while isinstance(n, (ast.Attribute, ast.Subscript, ast.Starred)):
        n = n.value
    return n.id if isinstance(n, ast.Name) else None


def is_fresh_expr(v):
    """expressions that certainly do not alias a parameter"""
    if isinstance(v, (ast.Constant, ast.List, ast.Dict, ast.Set, ast.ListComp, ast.DictComp, ast.SetComp, ast.GeneratorExp, ast.JoinedStr,
                      ast.BinOp, ast.Compare, ast.BoolOp, ast.UnaryOp, ast.Tuple, ast.Lambda)):
        return True
    if isinstance(v, ast.Call):
        f = ast.unparse(v.func)
        if f.split(".")[-1] in ("copy", "deepcopy", "model_copy", "zeros", "ones", "full", "zeros_like", "array", "ndarray", "DataFrame",
                                "melt", "concat", "tolist", "flatten", "astype", "list", "dict", "tuple", "set", "sorted"):
            return True
        if f[:1].isupper() or f in ("cls",):       # constructor
            return True
    return False


def may_write(prog, rep):
    rid = rep.rule("C15.no-write-through-parameter",
                   "no function writes through a non-self parameter (directly, via aliases, via callees)", floor=60)
    funcs = {f.qual + "@" + f.module: f for f in prog.all_functions()}
    by_name = {}
    for f in funcs.values():
        by_name.setdefault(f.name, []).append(f)
    writes = {k: {} for k in funcs}       # key -> {param: (node, description)}

    def params_of(f):
        a = f.node.args
        ps = [x.arg for x in a.posonlyargs + a.args + a.kwonlyargs]
        if f.cls is not None and not f.is_staticmethod and ps:
            ps = ps[1:]
        return ps

    def scan(f, key, summaries):
        ps = set(params_of(f))
        alias = {}          # local -> param it may alias
        found = {}
        body_nodes = list(ast.walk(f.node))
        # flow-insensitive alias set, but a local that is (re)bound to a fresh expression *before any use as alias* in
        # straight-line order is handled by ordering on line numbers
        assigns = sorted([n for n in body_nodes if isinstance(n, ast.Assign) and len(n.targets) == 1 and isinstance(n.targets[0], ast.Name)],
                         key=lambda n: n.lineno)
        for n in assigns:
            nm = n.targets[0].id
            v = n.value
            if is_fresh_expr(v):
                if nm in ps and not any(isinstance(m, ast.Name) and m.id == nm and m.lineno < n.lineno for m in body_nodes):
                    ps = ps - {nm}      # parameter rebound to a fresh value before any use
                alias.pop(nm, None)
                continue
            r = root_name(v) if isinstance(v, (ast.Name, ast.Attribute, ast.Subscript)) else None
            if r in ps:
                alias[nm] = r
            elif r in alias:
                alias[nm] = alias[r]

        # a parameter name that is unconditionally (top-level statement of the body) rebound to a fresh value no longer stands for the
        # argument afterwards - unless it is assigned something that is not fresh later on
        killed = {}
        for st in f.node.body:
            if isinstance(st, ast.Assign) and len(st.targets) == 1 and isinstance(st.targets[0], ast.Name) and st.targets[0].id in ps \
                    and is_fresh_expr(st.value) and st.targets[0].id not in killed:
                nm = st.targets[0].id
                later_unfresh = any(isinstance(m, (ast.Assign, ast.AugAssign, ast.AnnAssign, ast.NamedExpr, ast.For, ast.With)) and m is not st
                                    and getattr(m, "lineno", 0) > st.lineno
                                    and any(isinstance(t, ast.Name) and t.id == nm and isinstance(t.ctx, ast.Store) for t in ast.walk(m))
                                    and not (isinstance(m, ast.Assign) and is_fresh_expr(m.value)) for m in body_nodes)
                if not later_unfresh:
                    killed[nm] = st.end_lineno or st.lineno

        def rooted(expr):
            r = root_name(expr)
            if r in ps:
                if r in killed and getattr(expr, "lineno", 0) > killed[r]:
                    return None
                return r
            if r in alias:
                return alias[r]
            return None
        for n in body_nodes:
            tgts = []
            if isinstance(n, ast.Assign):
                tgts = n.targets
            elif isinstance(n, ast.AugAssign):
                tgts = [n.target]
            elif isinstance(n, ast.Delete):
                tgts = n.targets
            for t in tgts:
                for tt in (t.elts if isinstance(t, (ast.Tuple, ast.List)) else [t]):
                    if isinstance(tt, (ast.Attribute, ast.Subscript)):
                        p = rooted(tt)
                        if p:
                            found.setdefault(p, (n, f"store `{ast.unparse(tt)}`"))
            if isinstance(n, ast.Call):
                if isinstance(n.func, ast.Attribute):
                    inplace = any(k.arg == "inplace" and not (isinstance(k.value, ast.Constant) and k.value.value is False) for k in n.keywords)
                    if n.func.attr in MUTATING or inplace:
                        p = rooted(n.func.value)
                        if p and not (n.func.attr in ("update", "add", "pop", "remove") and False):
                            found.setdefault(p, (n, f"call `{ast.unparse(n.func)}({'inplace=…' if inplace else '…'})`"))
                fname = ast.unparse(n.func)
                if fname == "setattr" and n.args:
                    p = rooted(n.args[0])
                    if p:
                        found.setdefault(p, (n, "setattr on a parameter"))
                # callees that write through their parameters
                cands = []
                if isinstance(n.func, ast.Name):
                    cands = [g for g in by_name.get(n.func.id, []) if g.cls is None]
                elif isinstance(n.func, ast.Attribute):
                    cands = [g for g in by_name.get(n.func.attr, []) if g.cls is not None]
                for g in cands:
                    gk = g.qual + "@" + g.module
                    gw = summaries.get(gk, {})
                    if not gw:
                        continue
                    gps = params_of(g)
                    for i, a in enumerate(n.args):
                        if i < len(gps) and gps[i] in gw and isinstance(a, (ast.Name, ast.Attribute, ast.Subscript)):
                            p = rooted(a)
                            if p:
                                found.setdefault(p, (n, f"passes it to {g.qual}, which writes through its parameter `{gps[i]}`"))
                    for k in n.keywords:
                        if k.arg in gw and isinstance(k.value, (ast.Name, ast.Attribute, ast.Subscript)):
                            p = rooted(k.value)
                            if p:
                                found.setdefault(p, (n, f"passes it to {g.qual}, which writes through its parameter `{k.arg}`"))
        return found
    changed = True
    rounds = 0
    while changed and rounds < 6:
        changed = False
        rounds += 1
        for key, f in funcs.items():
            w = scan(f, key, writes)
            if set(w) != set(writes[key]):
                writes[key] = w
                changed = True
    n_writer_self = 0
    for key, f in sorted(funcs.items()):
        has_self_write = any(isinstance(n, (ast.Assign, ast.AugAssign)) and any(
            isinstance(t, (ast.Attribute, ast.Subscript)) and root_name(t) == "self" for t in (n.targets if isinstance(n, ast.Assign) else [n.target]))
            for n in ast.walk(f.node))
        n_writer_self += has_self_write
        api_visible = (not f.name.startswith("_")) or (f.name.startswith("__") and f.name.endswith("__"))
        for p, (node, desc) in sorted(writes[key].items()):
            # a private helper filling a container handed in by its caller is an implementation detail: its effect is
            # charged to the callers through the summaries; only API-visible functions expose their parameters to users
            ex = EXEMPT.get((f.qual, p)) or (None if api_visible else "private helper: charged to its callers")
            rep.oblige(rid, bool(ex), where=f.qual, what=f"{p}: {desc}")
            if not ex:
                rep.add(Finding("C15", rid, f.module, f.qual, node,
                                f"writes through its parameter `{p}`: {desc} - an input of a public operation may be modified", line=node.lineno))
        if not writes[key]:
            rep.oblige(rid, True, where=f.qual, what="no write through a non-self parameter")
    rep.extra["functions_scanned"] = len(funcs)
    rep.extra["functions_writing_self"] = n_writer_self
    # the converter must work on a copy of the caller's frame
    conv = prog.classes.get("DataFrameToFlodymDataConverter")
    rid2 = rep.rule("C15.helper-copies-input", "helper objects that edit a frame in place bind it to a copy of the caller's frame", floor=1)
    if conv is not None and "__init__" in conv.methods:
        init = conv.methods["__init__"].node
        ok = False
        st = None
        dfparam = [a.arg for a in init.args.args[1:2]]
        for n in sorted([x for x in ast.walk(init) if isinstance(x, ast.Assign)], key=lambda x: x.lineno):
            # the first binding of an attribute to something derived from the frame parameter must be a copy
            if isinstance(n.targets[0], ast.Attribute) and ast.unparse(n.targets[0].value) == "self" and dfparam and dfparam[0] in {m.id for m in ast.walk(n.value) if isinstance(m, ast.Name)}:
                st = n
                ok = is_fresh_expr(n.value)
                break
        rep.oblige(rid2, ok, where="DataFrameToFlodymDataConverter.__init__", what=ast.unparse(st) if st else "self.df never bound")
        if not ok:
            rep.add(Finding("C15", rid2, conv.module, "DataFrameToFlodymDataConverter.__init__", st or init,
                            "the converter edits self.df in place (rename/reset_index/column stores) but self.df is the caller's DataFrame, not a copy",
                            line=(st or init).lineno))
    else:
        raise AnalysisError("anchor DataFrameToFlodymDataConverter.__init__ not found")
    # positive control
    probe = ast.parse("def f(a, b):\n    c = a.values\n    c[0] = 1\n    b.append(2)\n")
    from ..core import FuncInfo
    pf = FuncInfo(probe.body[0], "probe.py")
    funcs2 = {"probe": pf}
    got = set()
    for n in ast.walk(pf.node):
        pass
    w = (lambda: None)
    res = {}
    try:
        res = scan(pf, "probe", {})
    except Exception:   # noqa
        res = {}
    if set(res) != {"a", "b"}:
        raise AnalysisError("C15 may-write rule no longer recognises its positive control")


def export_purity(prog, rep):
    """drawing a Sankey diagram of a system (every flow in turn split by each of its dimensions, with and without a slice) writes
    into none of the system's flow arrays"""
    from . import c20 as C20, c02 as SYS
    from ..world import World
    from ..interp import run_guarded
    rid = rep.rule("C15.export-leaves-inputs-unchanged", "plotting a system writes into none of its arrays")
    P = prog.cls("PlotlySankeyPlotter")
    for gi, graph in enumerate(C20.SANKEY_GRAPHS):
        for k, (fr, to, dims) in enumerate(graph[1]):
            for split in [None] + list(dims):
                for slice_kind in ("none", "b"):
                    w = World(prog, "concrete")
                    it = w.it
                    C20.install_plot_models(it, [])
                    mfa, leafs = SYS.build_system(w, graph)
                    flows = list(mfa.f["flows"].values())
                    name = list(mfa.f["flows"])[k]
                    kw = dict(mfa=mfa, exclude_processes=[])
                    if split:
                        kw["flow_color_dict"] = {"default": "grey", name: (split, [f"col{i}" for i in range(25)])}
                    if slice_kind != "none":
                        if split == slice_kind:
                            continue
                        kw["slice_dict"] = {slice_kind: w.items(slice_kind)[1]}
                    snaps = w.snap(*flows)
                    kind, pl = run_guarded(lambda: it.construct(P, [], kw))
                    if kind != "ok":
                        continue
                    kind, fig = run_guarded(lambda: it.call_method(pl, "plot"))
                    rep.evaluations += 1
                    ch = w.changed(snaps)
                    inp = {"graph": gi, "flow": name, "flow_dims": list(dims), "split_by": split, "slice": kw.get("slice_dict", {})}
                    rep.oblige(rid, not ch, where="PlotlySankeyPlotter.plot", what=str(inp), distinct=(rid, gi, k, split, slice_kind))
                    if ch:
                        fn = prog.method("PlotlySankeyPlotter", "plot")
                        rep.add(Finding("C15", rid, fn.module, "PlotlySankeyPlotter.plot", f"{gi}:{k}:{split}:{slice_kind}",
                                        f"drawing the diagram changed the system: {'; '.join(ch)[:200]}", line=fn.node.lineno, abstract_input=inp))
                        return
    rep.rules[rid]["floor"] = 20


def split_independence(prog, rep):
    """split on the exact array domain: parts share no memory with the source, for every memory layout and split dimension"""
    from .. import wherecases as WH
    rid = "C15.independent-result"
    fn = prog.method("FlodymArray", "split")
    bad = None
    for job in WH.split_jobs(rep.tier):
        case = WH.case_split_exact(prog, *job)
        rep.evaluations += 1
        for aspect, ok, msg, qual in case.verdicts:
            rep.oblige(rid, ok, where=qual, what=str(case.inp), distinct=(rid, "split-exact", aspect, str(case.inp)))
            if not ok and bad is None:
                bad = (case.inp, msg)
    if bad:
        rep.add(Finding("C15", rid, fn.module, "FlodymArray.split", "def split(self, dim_letter)", f"split: {bad[1]}", line=fn.node.lineno, abstract_input=bad[0]))


def run(prog, rep):
    rep.rule("C15.inputs-unchanged", "an operation that is not explicitly in place leaves every input exactly as it was")
    rep.rule("C15.independent-result", "results share no memory and no dimension list with any input")
    rep.rule("C15.ndarray-copied", "an ndarray assigned through [] is copied")
    aspects = {("*", "purity"): "C15.inputs-unchanged", ("*", "fresh"): "C15.independent-result", ("setitem", "copied"): "C15.ndarray-copied"}
    for a in ("copy", "__setitem__", "cast_to"):
        prog.method("FlodymArray", a)
    run_array_property(prog, rep, "C15", ["arith", "reduce", "index", "misc", "illformed", "producers", "stocks", "lifetime", "reduce@uniform", "index@uniform"], aspects)
    may_write(prog, rep)
    export_purity(prog, rep)
    split_independence(prog, rep)
    rep.rules["C15.inputs-unchanged"]["floor"] = 2500
    rep.rules["C15.independent-result"]["floor"] = 1500
    if rep.exhaustive is None:
        rep.exhaustive = True
    rep.info.append("sum_to/sum_over over all dimensions return a one-operand-einsum view of the source; these are not in the "
                    "property's list of independent results (recorded, not a violation)")
    rep.assumptions += ASSUMPTIONS


FA = "flodym_arrays.py"
MUTANTS = [
    {"name": "D2-slice-read-returns-view", "path": FA, "find": "values=self.values_pointer.copy(), name=self.flodym_array.name",
     "replace": "values=self.values_pointer, name=self.flodym_array.name"},
    {"name": "setitem-ellipsis-without-copy", "path": FA, "find": "            self.set_values(copy(item))", "replace": "            self.set_values(item)"},
    {"name": "neg-shares-values", "path": FA, "find": "return FlodymArray(dims=self.dims, values=-self.values)", "replace": "return FlodymArray(dims=self.dims, values=self.values)"},
    {"name": "copy_dims-validator-dropped", "path": FA, "find": "        self.dims = self.dims.copy()\n        return self", "replace": "        return self"},
    {"name": "copy-shares-values", "path": FA, "find": '"values": self.values.copy()})', "replace": '"values": self.values})'},
    {"name": "radd-returns-self-for-zero", "path": FA, "find": "    def __radd__(self, other):\n        return self + other",
     "replace": "    def __radd__(self, other):\n        if isinstance(other, Number) and other == 0:\n            return self\n        return self + other"},
    {"name": "cast-skips-tile-when-nothing-to-repeat", "path": FA, "find": "        values = values[index]\n        values = np.tile(values, multiple)\n        return values",
     "replace": "        values = values[index]\n        if all(m == 1 for m in multiple):\n            return values\n        return np.tile(values, multiple)"},
    {"name": "sum_to-inplace-scratch", "path": FA, "find": "        result_dims = self._tuple_to_letters(result_dims)\n        return FlodymArray(\n            dims=self.dims.get_subset(result_dims),",
     "replace": "        result_dims = self._tuple_to_letters(result_dims)\n        self.dims.dim_list.sort(key=lambda d: d.letter)\n        return FlodymArray(\n            dims=self.dims.get_subset(result_dims),"},
    {"name": "converter-edits-callers-frame", "path": "_df_to_flodym_array.py", "find": "        self.df = df.copy()", "replace": "        self.df = df"},
    {"name": "stack-writes-into-first-input", "path": "flodym_array_helper.py",
     "find": "    extended = FlodymArray(dims=extended_dimensions)", "replace": "    flodym_array0.dims.expand_by([dimension], inplace=True)\n    extended = FlodymArray(dims=flodym_array0.dims)"},
    {"name": "full_like-reuses-dims (equivalent: validator copies)", "path": FA, "find": "            dims=other.dims.copy(),\n            values=np.full_like(",
     "replace": "            dims=other.dims,\n            values=np.full_like(", "expect": "survive"},
]
