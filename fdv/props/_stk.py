"""Shared driver for the properties decided on the bounded-grid symbolic domain (C03 C08 C09 C10 C16 C17)."""
from __future__ import annotations

from ..core import AnalysisError, Finding
from ..interp import AnalysisAbort
from ..npmodel import ModelAbort
from ..par import pmap
from .. import stockcases as SC
from ._arr import _locate

N_CHUNKS = 32
FUNCS = {"tables": SC.case_tables, "inflow": SC.case_inflow_driven, "stockdriven": SC.case_stock_driven, "simple": SC.case_simple, "zero": SC.case_zero_roundtrip, "failed": SC.case_failed_compute, "balcheck": SC.case_balance_check, "setting-failure": SC.case_setting_failure}


def _worker(prog, rep, job):
    jobs, aspects, idx, n = job
    fails, notes, ncases = {}, set(), 0
    for j, jb in enumerate(jobs):
        if j % n != idx:
            continue
        try:
            if jb[0] == "history":
                case = SC.case_history(prog, jb[1], jb[2], jb[3])
            else:
                case = FUNCS[jb[0]](prog, jb[1])
        except (ModelAbort,) as e:
            raise AnalysisError(f"symbolic evaluation stopped in case {jb}: {e}")
        ncases += 1
        rep.evaluations += 1
        for aspect, ok, msg, qual in case.verdicts:
            rule = aspects.get(aspect)
            if rule is None:
                continue
            rep.oblige(rule, ok, where=qual, what=str(case.inp), distinct=(rule, qual, str(case.inp)),
                       sample={"rule": rule, "site": qual, "configuration": case.inp, "verdict": "ok" if ok else "VIOLATED"} if ncases % 7 == 1 else None)
            if not ok:
                k = (rule, qual)
                c = fails.get(k)
                fails[k] = (c[0] + 1, c[1], c[2]) if c else (1, case.inp, msg)
    return fails, ncases


def run_stock_property(prog, rep, pid, jobs, aspects):
    parts = pmap(_worker, [(jobs, aspects, i, N_CHUNKS) for i in range(N_CHUNKS)], prog, rep)
    fails, total = {}, 0
    for f, n in parts:
        total += n
        for k, (count, inp, msg) in f.items():
            c = fails.get(k)
            fails[k] = (c[0] + count, c[1], c[2]) if c else (count, inp, msg)
    rep.extra["symbolic_evaluations"] = total
    for (rule, qual), (count, inp, msg) in sorted(fails.items()):
        module, line, sig = _locate(prog, qual)
        rep.add(Finding(pid, rule, module, qual, sig, f"{msg} [{count} configuration(s)]", line=line, abstract_input=inp))
    return total


ASSUMPTIONS = [
    "bounded grids: 3-5 (6) time steps, 0-2 label dimensions of 2 items; all numbers are symbols (time items, drivers, parameters declared "
    "positive), so each verdict holds for ALL real values on these grid shapes; the code indexes time only by loop position, first/last "
    "and shifted slices, so larger grids add no new index shape (generalisation argument, not checked)",
    "scipy.stats survival functions are uninterpreted function symbols of their normalised arguments (x, shape parameters, loc, scale); "
    "scipy.linalg.solve_triangular(lower=True) is exact forward substitution; np.einsum/cumsum/diff/tile by their definitions",
    "a branch on symbolic data is taken only when its outcome is exact (identical polynomials, declared signs); |x| < 1e-10 style guards "
    "on generic symbolic data are decided as 'not negligible'; an exactly-zero driver takes the other branch (covered by the histories)",
    "pydantic v2 construction / private attributes as in DESIGN.md §2",
]
