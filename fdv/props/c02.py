"""C02 - mass-balance and flow checks report exactly the violations."""
from __future__ import annotations

import itertools

from ..core import AnalysisError, Finding
from ..interp import Interp, Obj, PyRaise, PyModel, run_guarded, AnalysisAbort, ItemList, Opaque
from .. import npmodel as NP
from ..npmodel import AArr, SymScalar, t_add, t_neg, t_sum, t_in, vkey
from ..world import World
from ..par import pmap
from ._arr import _locate, ASSUMPTIONS

LEVEL = "other"
EXPLANATION = (
    "The repository's MFASystem._get_mass_balance / check_mass_balance / check_flows / _absolute_float_precision (AST) are "
    "evaluated with the enumerative evaluator on small system graphs - processes {sysenv, use, reuse, waste (isolated or not)}, "
    "every listed set of flows incl. parallel and opposing ones, flows over different dimension subsets AND storage orders, no "
    "stock / a stock at a process / a stock without process - with flows as labelled tensors. (1) The balance of every process "
    "must equal, as a symbolic entry, inflows - outflows - (stock inflow - stock outflow) with the mirror entry on sysenv, each "
    "summed by label to the dimensions common to all contributions (all real values at once). (2) The verdict logic is evaluated "
    "under EVERY assignment of a magnitude class {within tolerance, above tolerance, NaN} to the processes' balances (a comparison "
    "on a NaN class is False, as in IEEE arithmetic) in both raise_error modes and with default and explicit tolerance: it must "
    "raise / log a WARNING exactly when some class is not 'within', never report success on NaN, and must not fail on systems "
    "without stocks or with a process without flows. (3) check_flows under every class assignment {fine, tiny non-negative, entry below -tolerance, "
    "NaN} to the flows and every exception list (none, a flow name, a process name, a name that is a substring of another name) "
    "must flag exactly the non-excepted NaN / negative flows. Decides the structure of the checks for all values; rounding against "
    "the tolerance is not decided. "
    "Also: balances with identically-zero flows (their dimensions still count), an explicit tolerance of 0 (a tiny non-zero balance is then a violation), and a history on one system object - checked, all arrays refilled, checked again - where no comparison may use a tolerance built from replaced values.")
TECHNIQUE = "static analysis: abstract interpretation of the check code on labelled tensors over enumerated system graphs, with a finite magnitude-class domain {within, above, NaN} for every verdict"

MOD = "mfa_system.py"


class SysInterp(Interp):
    """decides comparisons on balance / flow magnitudes from the scenario's class assignment"""

    def __init__(self, prog):
        super().__init__(prog)
        self.bal_terms = {}     # process -> abs-free balance term
        self.bal_class = {}     # process -> 'ok' | 'bad' | 'nan'
        self.flow_class = {}    # flow leaf name -> 'ok' | 'neg' | 'nan'
        self.undecided = []
        self.magnitude_orders = 0
        self.method_hooks["FlodymArray.items_where"] = self._items_where
        self.stale = set()      # leaf names of value arrays that have been replaced since (history cases)
        self.stale_used = []    # tolerances that were built from replaced values

    def _items_where(self, interp, args, kwargs):
        """FlodymArray.items_where(condition) in the class domain: the rows of the entries meeting the condition.  Which entries
        these are is not represented: one representative row when the condition holds somewhere, none otherwise.  An array
        without dimensions has no rows at all (np.argwhere of a 0-d array yields index tuples of length 0)."""
        arr, cond = args[0], (args[1] if len(args) > 1 else kwargs["condition"])
        v = arr.f["values"]
        mask = self.call(cond, [v], {})
        dims = arr.f["dims"].f["dim_list"]
        if not dims:
            return []
        holds = self.truth(NP.reduce_all(mask, "any")) if isinstance(mask, AArr) else self.truth(mask)
        return [tuple(d.f["items"][0] for d in dims)] if holds else []

    # ---- np.finfo(...).eps
    def np_attr(self, name, node):
        if name == "finfo":
            o = Opaque("finfo")
            return lambda dt=None: FInfo()
        return super().np_attr(name, node)

    def get_attr(self, v, name, node=None):
        if isinstance(v, FInfo):
            if name == "eps":
                return SymScalar(("sym", "float_eps"))
            raise AnalysisAbort(f"finfo.{name}")
        return super().get_attr(v, name, node)

    # ---- classification of a symbolic magnitude
    def subject(self, t):
        """which balance / flow a term talks about"""
        hits = set()

        def rec(x):
            if not isinstance(x, tuple):
                return
            matched = False
            for p, bt in self.bal_terms.items():
                if x == bt and bt[0] != "k":
                    hits.add(("bal", p))
                    matched = True
            if matched:
                return          # the flows inside a balance are not subjects of their own
            if x and x[0] == "in" and x[1] in self.flow_class:
                hits.add(("flow", x[1]))
            for y in x:
                if isinstance(y, tuple):
                    rec(y)
        rec(t)
        return hits

    def truth_of(self, t):
        """three-valued evaluation of a boolean-valued term under the scenario -> bool | None"""
        if t[0] == "k":
            return bool(t[1])
        if t[0] == "fn":
            name, args = t[1], t[2]
            if name in ("any_over", "all_over"):
                a0 = args[0]
                if a0[0] == "k":
                    return bool(a0[1])
                if a0[0] != "fn" and self.leaf_names(a0) and not self.subject(a0) - {s for s in self.subject(a0) if s[0] == "flow"}:
                    # np.any / np.all of raw flow or stock data: free symbols are not all zero (the identically-zero case is a
                    # separate scenario with constant-zero arrays)
                    return True
                return self.truth_of(a0)
            if name == "isnan":
                sub = self.subject(args[0])
                if not sub:
                    return False
                return any(self.cls_of(s) == "nan" for s in sub)
            if name in ("lt", "le", "gt", "ge", "eq", "ne"):
                a, b = args
                if a[0] == "k" and b[0] == "k" and all(isinstance(x[1], (int, float)) for x in (a, b)):
                    import operator as _op
                    return bool(getattr(_op, name)(a[1], b[1]))
                for side in (a, b):
                    if self.stale and self.is_tolerance(side):
                        old = sorted(n for n in self.leaf_names(side) if n in self.stale)
                        if old:
                            self.stale_used.append(old)
                sa = set() if self.is_tolerance(a) else self.subject(a)
                sb = set() if self.is_tolerance(b) else self.subject(b)
                if name in ("lt", "le", "gt", "ge") and not self.is_tolerance(a) and not self.is_tolerance(b) and self.is_magnitude(a) and self.is_magnitude(b) \
                        and self.leaf_names(a) and self.leaf_names(b) and not any(s[0] == "bal" for s in sa | sb):
                    # which of two magnitudes (largest |entry| of some arrays) is the larger one: a running maximum written as a
                    # branch.  One order is followed; the tolerance built from it is a tolerance either way.
                    self.magnitude_orders += 1
                    return name in ("gt", "ge")
                if sa and not sb:
                    return self.cmp(name, sa, a, b)
                if sb and not sa:
                    flip = {"lt": "gt", "le": "ge", "gt": "lt", "ge": "le", "eq": "eq", "ne": "ne"}[name]
                    return self.cmp(flip, sb, b, a)
                if not sa and not sb:
                    # an exact zero magnitude against the (non-negative) tolerance
                    if a[0] == "k" and a[1] == 0 and b[0] != "k":
                        return {"lt": True, "le": True, "gt": False, "ge": False, "eq": False, "ne": True}[name]
                    if b[0] == "k" and b[1] == 0 and a[0] != "k":
                        return {"lt": False, "le": False, "gt": True, "ge": True, "eq": False, "ne": True}[name]
                return None
        return None

    @staticmethod
    def is_magnitude(t):
        """largest absolute entry of arrays (and maxima of such): max_over(abs(leaf)), pymax(...), constants"""
        if not isinstance(t, tuple):
            return False
        if t[0] == "k":
            return True
        if t[0] == "fn" and t[1] in ("max_over", "amax_over", "nanmax_over", "pymax"):
            return all(SysInterp.is_magnitude(x) or (isinstance(x, tuple) and x[0] == "k") for x in t[2] if isinstance(x, tuple) and not (x[0] == "k" and isinstance(x[1], str)))
        if t[0] == "fn" and t[1] == "abs":
            return True
        if t[0] == "sum" and t[1] == frozenset():
            return SysInterp.is_magnitude(t[2])
        return False

    @staticmethod
    def leaf_names(t):
        out = set()

        def rec(x):
            if isinstance(x, tuple):
                if x[:1] == ("in",):
                    out.add(x[1])
                for y in x:
                    rec(y)
        rec(t)
        return out

    @staticmethod
    def is_tolerance(t):
        """a tolerance: built from the float epsilon / the explicit tolerance argument (whatever magnitudes scale it)"""
        def rec(x):
            if not isinstance(x, tuple):
                return False
            if x[:1] == ("sym",) and x[1] in ("float_eps", "tol"):
                return True
            return any(rec(y) for y in x if isinstance(y, tuple))
        return rec(t)

    def cls_of(self, s):
        return self.bal_class.get(s[1], "ok") if s[0] == "bal" else self.flow_class.get(s[1], "ok")

    def value_is_nan(self, t):
        """is the magnitude / tolerance term NaN under the scenario?  np.max of an array holding a NaN is NaN; Python's
        max(a, b, ...) keeps its FIRST argument unless a later one compares greater - so it is NaN exactly when the first one is;
        nanmax ignores NaN; products and sums propagate it"""
        if not isinstance(t, tuple) or not t:
            return False
        if isinstance(t[0], tuple):               # a tuple of sub-terms (factors / summands)
            return any(self.value_is_nan(x) for x in t)
        if t[0] == "in":
            return self.flow_class.get(t[1]) == "nan"
        if t[0] == "fn":
            name, args = t[1], [x for x in t[2] if isinstance(x, tuple)]
            if name in ("pymax", "pymin"):
                return bool(args) and self.value_is_nan(args[0])
            if name.startswith("nanmax") or name.startswith("nanmin") or name == "nan_to_num":
                return False
            if name == "isnan":
                return False
            return any(self.value_is_nan(x) for x in args)
        if t[0] in ("k", "sym"):
            return False
        return any(self.value_is_nan(x) for x in t[1:] if isinstance(x, tuple))

    def cmp(self, name, subjects, subj_term, other):
        """`subject <name> other` where other is a tolerance-like quantity"""
        if self.value_is_nan(other):              # a NaN tolerance: every ordered comparison is False
            return name == "ne"
        classes = {self.cls_of(s) for s in subjects}
        kinds = {s[0] for s in subjects}
        if kinds == {"bal"} and isinstance(subj_term, tuple) and subj_term[:2] in (("fn", "pymax"), ("fn", "pymin")):
            # Python's max()/min() over several magnitudes: NaN only if the FIRST one is NaN; a later NaN never compares greater
            args = [x for x in subj_term[2] if isinstance(x, tuple)]
            per = [{self.cls_of(s) for s in self.subject(x)} for x in args]
            if per and "nan" in per[0]:
                return name == "ne"
            classes = set().union(*[c - {"nan"} for c in per]) if per else set()
        if "nan" in classes:                       # every comparison with NaN is False, != is True
            return name == "ne"
        if kinds == {"bal"}:
            # magnitude |balance| (max over the process / all processes) against the tolerance
            big = "bad" in classes or ("tiny" in classes and other[0] == "k" and other[1] == 0)
            return {"lt": not big, "le": not big, "gt": big, "ge": big, "eq": False, "ne": True}[name]
        if kinds == {"flow"}:
            neg_tol = self.is_negated(other)
            neg = "neg" in classes
            if neg_tol:       # flow < -tolerance
                return {"lt": neg, "le": neg, "gt": not neg, "ge": not neg, "eq": False, "ne": True}[name]
            # flow against +tolerance: 'neg' and 'tiny' (0 <= x < tolerance) flows are below it
            small = neg or "tiny" in classes
            if other[0] == "k" and other[1] == 0:
                small = neg
            return {"lt": small, "le": small, "gt": not small, "ge": not small, "eq": False, "ne": True}[name]
        return None

    @staticmethod
    def is_negated(t):
        return isinstance(t, tuple) and (t[0] == "neg" or (t[0] == "k" and isinstance(t[1], (int, float)) and t[1] < 0))

    def data_truth(self, v):
        t = v.term
        if t == ("sym", "tol"):
            return True         # the explicit tolerance of the scenarios is a positive number
        r = self.truth_of(t)
        if r is None:
            raise AnalysisAbort(f"branch on data that the magnitude-class domain cannot decide: {NP.show(t)[:200]} in {self.stack[-1] if self.stack else '?'}")
        return r

    def _builtin(self, name):
        if name in ("max", "min"):
            base = super()._builtin(name)

            def mm(*args, default=Ellipsis, key=None):
                vals = self.iterate(args[0]) if len(args) == 1 else list(args)
                if not vals and default is Ellipsis:
                    raise PyRaise("ValueError", None, f"{name}() iterable argument is empty")
                if not vals:
                    return default
                if any(isinstance(x, SymScalar) for x in vals):
                    terms = [NP.as_term(x) for x in vals]
                    if all(t[0] == "k" and isinstance(t[1], (int, float)) for t in terms):
                        return SymScalar(("k", (max if name == "max" else min)(t[1] for t in terms)))       # plain numbers
                    return SymScalar(NP.t_fn("py" + name, *terms))
                return base(*args)
            return mm
        return super()._builtin(name)


class FInfo:
    pass


# ------------------------------------------------------------------------------------------- systems
GRAPHS = [
    # (process names, flows as (from, to, dims), stocks as (process|None, dims))
    (["sysenv", "use", "reuse"], [("sysenv", "use", "ta"), ("use", "reuse", "ta"), ("reuse", "sysenv", "ta")], []),
    (["sysenv", "use", "reuse"], [("sysenv", "use", "ta"), ("use", "reuse", "at"), ("use", "reuse", "t"), ("reuse", "use", "a"), ("reuse", "sysenv", "tab")], []),
    (["sysenv", "use", "reuse", "waste"], [("sysenv", "use", "t"), ("use", "sysenv", "t")], []),      # 'reuse' and 'waste' have no flow
    (["sysenv", "use", "waste"], [("sysenv", "use", "ta"), ("use", "waste", "ta")], [("waste", "ta")]),
    (["sysenv", "use", "waste"], [("sysenv", "use", "tab"), ("use", "waste", "bta")], [("waste", "t"), (None, "ta")]),
    (["sysenv", "use"], [("sysenv", "use", "ta"), ("use", "sysenv", "at")], [("use", "tb")]),
    (["sysenv"], [("sysenv", "sysenv", "t")], []),
    (["sysenv", "use", "reuse"], [("sysenv", "use", "ab"), ("use", "reuse", "ba"), ("reuse", "sysenv", "ab")], []),
    (["sysenv", "use"], [("sysenv", "use", ""), ("use", "sysenv", "t"), ("use", "sysenv", "")], []),       # flows without any dimension
    (["use", "sysenv", "waste"], [("sysenv", "use", "ta"), ("use", "waste", "ta")], [("waste", "ta")]),      # hand-built: the system environment is not listed first
    (["sysenv", "use"], [("sysenv", "use", "ta"), ("use", "sysenv", "ta")], [("sysenv", "t"), ("use", "ta")]),      # a stock kept by the system environment (id 0)
    (["sysenv", "use", "waste"], [("sysenv", "use", "ta"), ("use", "waste", "ta")], [("use", "ta"), ("use", "t"), ("waste", "ta")]),      # two stocks at one process
]


def build_system(w: World, graph, zero_flows=(), proc_ids=None):
    prog, it = w.prog, w.it
    procs_n, flows_n, stocks_n = graph
    Process = prog.cls("Process")
    if proc_ids is None:        # the system environment has id 0 wherever it is listed; a hand-built system may list its processes in any order
        rest = [n for n in procs_n if n != "sysenv"]
        proc_ids = {"sysenv": 0, **{n: i + 1 for i, n in enumerate(rest)}}
    ids = proc_ids
    procs = {n: it.construct(Process, [], dict(name=n, id=ids[n])) for n in procs_n}
    Flow = prog.cls("Flow")
    flows, leafs = {}, {}
    seen = {}
    for fr, to, dims in flows_n:
        base = f"{fr} => {to}"
        k = seen.get(base, 0)
        seen[base] = k + 1
        name = base if k == 0 else f"{base} #{k + 1}"
        leaf = f"f{len(flows)}"
        flows[name] = w.array(leaf, tuple(dims), cls=Flow, from_process=procs[fr], to_process=procs[to])
        if len(flows) - 1 in zero_flows:       # a flow that is (still) identically zero, as every flow is right after the system is built
            v = flows[name].f["values"]
            flows[name].f["values"] = NP.AArr(v.axes, ("k", 0), NP.Buf("zero flow"))
        flows[name].f["name"] = name
        leafs[name] = (leaf, tuple(dims), fr, to)
    stocks = {}
    SA = prog.cls("StockArray")
    for i, (pn, dims) in enumerate(stocks_n):
        comps = {}
        for c in ("stock", "inflow", "outflow"):
            comps[c] = w.array(f"s{i}_{c}", tuple(dims), cls=SA)
        st = it.construct(prog.cls("SimpleFlowDrivenStock"), [], dict(dims=w.dimset(tuple(dims)), name=f"stock{i}", process=procs[pn] if pn else None, **comps))
        stocks[f"stock{i}"] = st
        leafs[f"stock{i}"] = (i, tuple(dims), pn)
    kw = dict(dims=w.dimset(("t", "a", "b")), parameters={}, processes=procs, flows=flows)
    if stocks_n:
        kw["stocks"] = stocks
    mfa = it.construct(prog.cls("MFASystem"), [], kw)
    return mfa, leafs


def balance_method(prog):
    """the method of MFASystem that computes the per-process balances: by its (private) name, else by role - a self-method
    called from check_mass_balance whose result is iterated with .items() / indexed per process"""
    cls = prog.cls("MFASystem")
    r = prog.find_attr(cls, "_get_mass_balance")
    if r and r[0] == "method":
        return r[1].name
    chk = prog.method("MFASystem", "check_mass_balance")
    import ast as _ast
    for n in _ast.walk(chk.node):
        if isinstance(n, _ast.Assign) and isinstance(n.value, _ast.Call) and isinstance(n.value.func, _ast.Attribute) \
                and _ast.unparse(n.value.func.value) == "self" and not n.value.args:
            m = prog.find_attr(cls, n.value.func.attr)
            if m and m[0] == "method" and "balance" in n.value.func.attr:
                return n.value.func.attr
    raise AnalysisError("the balance computation of MFASystem was not found (neither `_get_mass_balance` nor a self.<...balance...>() call in check_mass_balance)")


def balances_of(it, mfa):
    return it.call_method(mfa, balance_method(it.p))


def oracle_balances(w: World, graph, zero_flows=()):
    procs_n, flows_n, stocks_n = graph
    contrib = {p: [] for p in procs_n}       # (sign, leaf name, dims)
    n = 0
    for fr, to, dims in flows_n:
        contrib[fr].append((-1, f"f{n}", tuple(dims)))
        contrib[to].append((+1, f"f{n}", tuple(dims)))
        n += 1
    for i, (pn, dims) in enumerate(stocks_n):
        if pn is None:
            continue
        for sign, tgt in ((-1, pn), (+1, "sysenv")):
            contrib[tgt].append((sign, f"s{i}_inflow", tuple(dims)))
            contrib[tgt].append((-sign, f"s{i}_outflow", tuple(dims)))
    out = {}
    for p, cs in contrib.items():
        if not cs:
            out[p] = ((), ("k", 0))
            continue
        common = [l for l in cs[0][2] if all(l in c[2] for c in cs)]
        terms = []
        for sign, leaf, dims in cs:
            if leaf in {f"f{k}" for k in zero_flows}:
                continue        # contributes the value 0 - but its dimensions still count for the common ones
            t = t_in(leaf, [tuple(w.items(l)) for l in dims])
            t = t_sum({vkey(w.items(l)) for l in dims if l not in common}, t)
            terms.append(t if sign > 0 else t_neg(t))
        out[p] = (tuple(common), t_add(*terms) if terms else ("k", 0))
    return out


def balance_cases(prog, rep, fails):
    rid = "C02.balance-contributions"
    variants = [(gi, graph, ()) for gi, graph in enumerate(GRAPHS)]
    variants += [(gi, graph, (k,)) for gi, graph in enumerate(GRAPHS) for k in range(len(graph[1])) if len(graph[1]) > 1]
    for gi, graph, zero in variants:
        w = World(prog)
        w.it = SysInterp(prog)
        inp = {"processes": graph[0], "flows": [list(f) for f in graph[1]], "stocks": [list(s) for s in graph[2]]}
        if zero:
            inp["identically_zero_flows"] = [list(graph[1][k]) for k in zero]
        kind, r = run_guarded(lambda: build_system(w, graph, zero))
        if kind != "ok":
            raise AnalysisError(f"could not build the abstract system {inp}: {r}")
        mfa, leafs = r
        kind, bal = run_guarded(lambda: balances_of(w.it, mfa))
        rep.evaluations += 1
        exp = oracle_balances(w, graph, zero)
        if kind != "ok" or not isinstance(bal, dict):
            for p in graph[0]:
                rep.oblige(rid, False, where="MFASystem._get_mass_balance", what=f"{inp} process {p}", distinct=(rid, gi, zero, p))
            note(fails, rid, "MFASystem._get_mass_balance", inp, f"the balance computation ended with {kind}: {getattr(r if kind == 'ok' else bal, 'msg', bal)} "
                 f"on a valid system ({'no stocks; ' if not graph[2] else ''}{'a process without flows; ' if any(not any(p in f[:2] for f in graph[1]) for p in graph[0]) else ''})")
            continue
        for p in graph[0]:
            b = bal.get(p)
            letters, term = exp[p]
            ok, msg = True, ""
            if not (isinstance(b, Obj) and isinstance(b.f.get("values"), AArr)):
                ok, msg = False, f"balance of process '{p}' is {b!r}, not an array"
            else:
                got_l = w.letters(b.f["dims"])
                if tuple(got_l) != tuple(letters) and set(got_l) != set(letters):
                    ok, msg = False, f"balance of '{p}' is over {got_l}, the dimensions common to its contributions are {letters}"
                elif b.f["values"].term != term:
                    ok, msg = False, (f"balance of '{p}' is {NP.show(b.f['values'].term)[:300]}; the property requires "
                                      f"{NP.show(term)[:300]} (inflows - outflows - stock change, mirror on sysenv, summed by label)")
                elif w.invariant(b):
                    ok, msg = False, f"balance of '{p}': {w.invariant(b)}"
            rep.oblige(rid, ok, where="MFASystem._get_mass_balance", what=f"{inp} process {p}", distinct=(rid, gi, zero, p))
            if not ok:
                note(fails, rid, "MFASystem._get_mass_balance", dict(inp, process=p), msg)


def note(fails, rule, qual, inp, msg):
    k = (rule, qual)
    c = fails.get(k)
    fails[k] = (c[0] + 1, c[1], c[2]) if c else (1, inp, msg)


def verdict_worker(prog, rep, job):
    gi, assignments, kind_ = job
    graph = GRAPHS[gi]
    fails = {}
    for assign in assignments:
        if kind_ == "balance":
            for raise_error in (True, False):
                for tol in ("default", "explicit"):
                    verdict_case(prog, rep, fails, gi, graph, assign, raise_error, tol)
                # tolerance=0 given explicitly: a balance that is tiny (within every positive tolerance) but not zero is a violation
                if "bad" not in assign:
                    verdict_case(prog, rep, fails, gi, graph, tuple("tiny" if c == "nan" else c for c in assign), raise_error, "zero")
        else:
            flow_case(prog, rep, fails, gi, graph, assign)
    return fails


def verdict_case(prog, rep, fails, gi, graph, assign, raise_error, tol):
    rid = "C02.balance-verdict"
    w = World(prog)
    it = SysInterp(prog)
    w.it = it
    mfa, leafs = build_system(w, graph)
    # the balances as the code computes them (their correctness is the business of C02.balance-contributions)
    kind0, bal0 = run_guarded(lambda: balances_of(it, mfa))
    if kind0 != "ok" or not isinstance(bal0, dict):
        return
    it.bal_terms = {p: b.f["values"].term for p, b in bal0.items() if isinstance(b, Obj) and isinstance(b.f.get("values"), AArr)}
    it.bal_class = dict(zip(graph[0], assign))
    # a process whose balance is the exact constant 0 cannot be 'bad'/'nan'
    for p, t in it.bal_terms.items():
        if t[0] == "k":
            it.bal_class[p] = "ok"
    inp = {"processes": graph[0], "flows": [list(f) for f in graph[1]], "stocks": [list(s) for s in graph[2]],
           "balance_classes": dict(it.bal_class), "raise_error": raise_error, "tolerance": tol}
    kw = dict(raise_error=raise_error)
    if tol == "explicit":
        kw["tolerance"] = SymScalar(("sym", "tol"))
    if tol == "zero":
        kw["tolerance"] = 0
    it.log.clear()
    kind, r = run_guarded(lambda: it.call_method(mfa, "check_mass_balance", **kw))
    rep.evaluations += 1
    should_fail = any(c != "ok" for c in it.bal_class.values())
    warned = [l for l in it.log if l.level in ("WARNING", "ERROR")]
    success = [l for l in it.log if "uccess" in l.msg]
    ok, msg = True, ""
    if kind == "violation":
        ok, msg = False, f"positional mix-up inside the check: {r}"
    elif should_fail and raise_error:
        if kind != "raise" or not (r.isa("ValueError")):
            ok, msg = False, f"classes {it.bal_class}: the check must raise, but ended with {kind} {getattr(r, 'exc_name', '')} {'(success logged)' if success else ''}"
    elif should_fail:
        if kind != "ok" or not warned:
            ok, msg = False, f"classes {it.bal_class}, raise_error=False: a WARNING must be logged, got {kind} with {len(warned)} warning(s)"
        elif success:
            ok, msg = False, f"classes {it.bal_class}: success reported although a balance is not within tolerance"
    else:
        if kind != "ok":
            ok, msg = False, f"all balances within tolerance, but the check ended with {kind}: {getattr(r, 'exc_name', r)} {getattr(r, 'msg', '')[:150]}"
        elif warned:
            ok, msg = False, "all balances within tolerance, but a warning was logged"
    if ok and should_fail and "nan" in it.bal_class.values() and success:
        ok, msg = False, "a NaN balance was reported as success"
    rep.oblige(rid, ok, where="MFASystem.check_mass_balance", what=str(inp), distinct=(rid, gi, tuple(sorted(it.bal_class.items())), raise_error, tol))
    if not ok:
        note(fails, rid, "MFASystem.check_mass_balance", inp, msg)


def history_worker(prog, rep, job):
    gi, second = job
    fails = {}
    if second == "second-system":
        second_system_case(prog, rep, fails, gi, GRAPHS[gi])
    else:
        history_case(prog, rep, fails, gi, GRAPHS[gi], second)
    return fails


def second_system_case(prog, rep, fails, gi, graph):
    """one process, two systems: a first system with a NaN flow is checked with all defaults; then a SECOND, freshly built system
    (same flow names) with a negative entry in that flow is checked - nothing of the first check may carry over"""
    rid = "C02.verdict-follows-current-values"
    w = World(prog)
    it = SysInterp(prog)
    w.it = it
    mfa1, leafs = build_system(w, graph)
    fnames = [n for n in leafs if isinstance(leafs[n][0], str)]
    if not fnames:
        return
    it.flow_class = {leafs[n][0]: "ok" for n in fnames}
    it.flow_class[leafs[fnames[0]][0]] = "nan"
    run_guarded(lambda: it.call_method(mfa1, "check_flows"))
    mfa2, leafs2 = build_system(w, graph)
    it.flow_class = {leafs2[n][0]: "ok" for n in fnames}
    it.flow_class[leafs2[fnames[0]][0]] = "neg"
    for raise_error in (False, True):
        it.log.clear()
        kind, r = run_guarded(lambda: it.call_method(mfa2, "check_flows", **({"raise_error": True} if raise_error else {})))
        rep.evaluations += 1
        warned = [l.msg for l in it.log if l.level in ("WARNING", "ERROR")]
        inp = {"flows": [list(f) for f in graph[1]], "history": "system 1 (first flow holds a NaN): check_flows(); system 2, freshly built (first flow has a negative entry): check_flows()",
               "raise_error": raise_error}
        if raise_error:
            ok = kind == "raise" and fnames[0] in getattr(r, "msg", "")
        else:
            ok = kind == "ok" and any(_mentions(m, fnames[0], fnames) for m in warned)
        rep.oblige(rid, ok, where="MFASystem.check_flows", what=str(inp), distinct=(rid, gi, "second-system", raise_error))
        if not ok:
            note(fails, rid, "MFASystem.check_flows", inp, f"the negative flow '{fnames[0]}' of the second system is not reported ({kind}; warnings {warned!s:.120}): an earlier check of another system left something behind")


def history_case(prog, rep, fails, gi, graph, second):
    """one system object, checked, its values replaced (flow.values = ..., stock arrays likewise), checked again: the second
    verdict must be the verdict for the values present then, with the default tolerance built from those values"""
    rid = "C02.verdict-follows-current-values"
    w = World(prog)
    it = SysInterp(prog)
    w.it = it
    mfa, leafs = build_system(w, graph)
    kind0, bal0 = run_guarded(lambda: balances_of(it, mfa))
    if kind0 != "ok" or not isinstance(bal0, dict):
        return
    it.bal_terms = {p: b.f["values"].term for p, b in bal0.items() if isinstance(b, Obj) and isinstance(b.f.get("values"), AArr)}
    it.bal_class = {p: "ok" for p in graph[0]}
    fnames = [n for n in leafs if isinstance(leafs[n][0], str)]
    it.flow_class = {leafs[n][0]: "ok" for n in fnames}
    for call in ("check_mass_balance", "check_flows", "check_mass_balance"):
        k1, r1 = run_guarded(lambda: it.call_method(mfa, call))
        if k1 != "ok":
            return      # the first-check verdict is the business of the other rules
    # every value array is replaced by one with new content
    arrays = list(it.get_attr(mfa, "flows").values())
    for st in it.get_attr(mfa, "stocks").values():
        arrays += [it.get_attr(st, c) for c in ("stock", "inflow", "outflow")]
    renamed = {}
    for a in arrays:
        v = a.f["values"]
        old = next(iter(SysInterp.leaf_names(v.term)), None)
        if old is None:
            continue
        new = NP.leaf(old + "'", [tuple(ax) for ax in v.axes])
        renamed[old] = old + "'"
        it.set_attr(a, "values", new, None)
    it.stale = set(renamed)
    kind0, bal0 = run_guarded(lambda: balances_of(it, mfa))
    if kind0 != "ok" or not isinstance(bal0, dict):
        return
    it.bal_terms = {p: b.f["values"].term for p, b in bal0.items() if isinstance(b, Obj) and isinstance(b.f.get("values"), AArr)}
    live = [p for p, t in it.bal_terms.items() if t[0] != "k"]
    it.bal_class = {p: "ok" for p in graph[0]}
    if second == "bad" and live:
        it.bal_class[live[0]] = "bad"
    it.flow_class = {leafs[n][0] + "'": "ok" for n in fnames}
    if second == "neg" and fnames:
        it.flow_class[leafs[fnames[0]][0] + "'"] = "neg"
    it.stale_used.clear()
    it.log.clear()
    inp = {"processes": graph[0], "flows": [list(f) for f in graph[1]], "stocks": [list(s) for s in graph[2]],
           "history": "check_mass_balance(); check_flows(); every flow / stock array gets new values; second check", "second_state": second}
    if second == "neg":
        kind, r = run_guarded(lambda: it.call_method(mfa, "check_flows", raise_error=True))
        want_raise = "neg" in it.flow_class.values()
        what = "check_flows"
    else:
        kind, r = run_guarded(lambda: it.call_method(mfa, "check_mass_balance", raise_error=True))
        want_raise = "bad" in it.bal_class.values()
        what = "check_mass_balance"
    rep.evaluations += 1
    ok, msg = True, ""
    if it.stale_used:
        ok, msg = False, f"the second {what} compares against a tolerance built from values that have been replaced since ({', '.join(it.stale_used[0])}): the tolerance is not scaled to the present magnitudes"
    elif want_raise and kind != "raise":
        ok, msg = False, f"second {what}: the present values violate the check ({second}), but it ended with {kind}"
    elif not want_raise and kind != "ok":
        ok, msg = False, f"second {what}: the present values are fine, but it ended with {kind} {getattr(r, 'msg', '')[:120]}"
    rep.oblige(rid, ok, where=f"MFASystem.{what}", what=str(inp), distinct=(rid, gi, second))
    if not ok:
        note(fails, rid, f"MFASystem.{what}", inp, msg)


class EpsInfo(PyModel):
    """np.finfo(...): only the machine epsilon is used - an infinitesimal positive number in the exact array domain"""
    def __init__(self):
        from ..symnum import Rat
        self.eps = Rat.sym("eps", "pos")


def verbose_cases(prog, rep, fails):
    """check_flows with concrete small systems on the exact array domain: items may be integers (years) or strings; with and without
    verbose=True the flagged flow must be reported - by a warning, or by ValueError when raise_error=True - and never by another error"""
    from ..syminterp import SymInterp
    from ..symnum import SArr, rat
    rid = "C02.check-flows"
    for items_kind in ("strings", "integers", "integers+strings"):
        for verbose in (False, True):
            for raise_error in (False, True):
                it = SymInterp(prog)
                it.hooks["numpy.finfo"] = lambda *a, **k: EpsInfo()
                D = prog.cls("Dimension")
                t_items = [2000, 2001, 2002] if items_kind != "strings" else ["t0", "t1", "t2"]
                dl = [it.construct(D, [], dict(name="Time", letter="t", items=list(t_items)))]
                shape = (3,)
                if items_kind == "integers+strings":
                    dl.append(it.construct(D, [], dict(name="Aa", letter="a", items=["a0", "a1"])))
                    shape = (3, 2)

                def dims():
                    return it.construct(prog.cls("DimensionSet"), [], dict(dim_list=list(dl)))
                P = prog.cls("Process")
                procs = {"sysenv": it.construct(P, [], dict(name="sysenv", id=0)), "use": it.construct(P, [], dict(name="use", id=1))}
                n = shape[0] * (shape[1] if len(shape) > 1 else 1)
                neg = SArr(shape, [rat(1)] * n)
                neg.set((1,) + (0,) * (len(shape) - 1), rat(-5))
                F = prog.cls("Flow")
                f = it.construct(F, [], dict(dims=dims(), values=neg, name="sysenv => use", from_process=procs["sysenv"], to_process=procs["use"]))
                g = it.construct(F, [], dict(dims=dims(), values=SArr(shape, [rat(2)] * n), name="use => sysenv", from_process=procs["use"], to_process=procs["sysenv"]))
                mfa = it.construct(prog.cls("MFASystem"), [], dict(dims=dims(), parameters={}, processes=procs, flows={"sysenv => use": f, "use => sysenv": g}, stocks={}))
                it.log.clear()
                kind, r = run_guarded(lambda: it.call_method(mfa, "check_flows", verbose=verbose, raise_error=raise_error))
                rep.evaluations += 1
                inp = {"items": items_kind, "flows": "one with a single entry of -5 (the others 1), one all 2", "verbose": verbose, "raise_error": raise_error}
                warned = [l.msg for l in it.log if l.level in ("WARNING", "ERROR")]
                ok, msg = True, ""
                if raise_error:
                    if kind != "raise" or not r.isa("ValueError") or "sysenv => use" not in r.msg:
                        ok, msg = False, f"the negative flow must be reported by a ValueError naming it; the call ended with {kind} {getattr(r, 'exc_name', '')}: {getattr(r, 'msg', r)!s:.120}"
                else:
                    if kind != "ok":
                        ok, msg = False, f"raise_error=False: the negative flow must be reported by a warning, but the call ended with {kind} {getattr(r, 'exc_name', '')}: {getattr(r, 'msg', r)!s:.120}"
                    elif not any("sysenv => use" in m for m in warned) or any("use => sysenv" in m and "sysenv => use" not in m.replace("use => sysenv", "") for m in warned):
                        ok, msg = False, f"warnings {warned!s:.200}: exactly the flow 'sysenv => use' is to be flagged"
                rep.oblige(rid, ok, where="MFASystem.check_flows", what=str(inp), distinct=(rid, "verbose", items_kind, verbose, raise_error))
                if not ok:
                    note(fails, rid, "MFASystem.check_flows", inp, msg)


EXC_PATTERNS = ["none", "flow-name", "process-name", "substring-of-a-name", "unrelated"]


def flow_case(prog, rep, fails, gi, graph, assign):
    rid = "C02.check-flows"
    names = None
    for exc_pat in EXC_PATTERNS:
        for raise_error in (False, True):
            w = World(prog)
            it = SysInterp(prog)
            w.it = it
            mfa, leafs = build_system(w, graph)
            fnames = [n for n in leafs if isinstance(leafs[n][0], str)]
            it.flow_class = {leafs[n][0]: c for n, c in zip(fnames, assign)}
            if exc_pat == "none":
                exc = []
            elif exc_pat == "flow-name":
                exc = [fnames[0]]
            elif exc_pat == "process-name":
                exc = [graph[0][-1]]
            elif exc_pat == "substring-of-a-name":
                exc = ["use"] if "reuse" in graph[0] else ["sys"]
            else:
                exc = ["nothing"]
            excepted = {n for n in fnames if n in exc or leafs[n][2] in exc or leafs[n][3] in exc}
            flagged = {n for n in fnames if n not in excepted and it.flow_class[leafs[n][0]] in ("neg", "nan")}
            inp = {"flows": [list(f) for f in graph[1]], "stocks": [list(s) for s in graph[2]], "flow_classes": {n: it.flow_class[leafs[n][0]] for n in fnames},
                   "exceptions": exc, "raise_error": raise_error}
            it.log.clear()
            kind, r = run_guarded(lambda: it.call_method(mfa, "check_flows", exceptions=list(exc), raise_error=raise_error))
            rep.evaluations += 1
            warned = [l.msg for l in it.log if l.level in ("WARNING", "ERROR")]
            ok, msg = True, ""
            if kind == "violation":
                ok, msg = False, f"positional mix-up inside the check: {r}"
            elif raise_error:
                if flagged and kind != "raise":
                    ok, msg = False, f"flows {sorted(flagged)} are NaN/negative and not excepted, raise_error=True, but the check ended with {kind}"
                if not flagged and kind != "ok":
                    ok, msg = False, f"no flow is to be flagged, but the check ended with {kind}: {getattr(r, 'msg', r)!s:.150}"
                if flagged and kind == "raise" and not any(n in r.msg for n in flagged):
                    ok, msg = False, f"the error names none of the flows to flag {sorted(flagged)}: {r.msg[:120]}"
            else:
                if kind != "ok":
                    ok, msg = False, f"raise_error=False but the check ended with {kind}: {getattr(r, 'msg', r)!s:.150}"
                else:
                    named = {n for n in fnames if any(_mentions(m, n, fnames) for m in warned)}
                    if named != flagged:
                        ok, msg = False, f"flags {sorted(named)} but exactly {sorted(flagged)} are NaN/negative and not excepted (exceptions {exc})"
            rep.oblige(rid, ok, where="MFASystem.check_flows", what=str(inp), distinct=(rid, gi, assign, exc_pat, raise_error))
            if not ok:
                note(fails, rid, "MFASystem.check_flows", inp, msg)


def _mentions(message, name, all_names):
    """the warning names flow `name` (and not merely a longer flow name containing it)"""
    if name not in message:
        return False
    longer = [n for n in all_names if n != name and name in n and n in message]
    return not longer or message.count(name) > sum(message.count(n) for n in longer)


def run(prog, rep):
    rep.rule("C02.balance-contributions", "per-process balance = +flows in - flows out - stock change (+ mirror on sysenv), summed by label to the common dims; total on empty collections")
    rep.rule("C02.balance-verdict", "check_mass_balance raises / warns exactly when a balance class is above tolerance or NaN; never success on NaN")
    rep.rule("C02.check-flows", "check_flows flags exactly the non-excepted flows containing NaN or an entry below -tolerance")
    for m in ("check_mass_balance", "check_flows"):
        prog.method("MFASystem", m)
    fails = {}
    balance_cases(prog, rep, fails)
    verbose_cases(prog, rep, fails)
    jobs = []
    graphs_v = [0, 2, 3, 5, 9] if rep.tier == "quick" else list(range(len(GRAPHS)))
    for gi in graphs_v:
        n = len(GRAPHS[gi][0])
        allp = list(itertools.product(("ok", "bad", "nan"), repeat=n))
        for chunk in [allp[i::4] for i in range(4)]:
            jobs.append((gi, chunk, "balance"))
    graphs_f = [0, 1, 3, 8] if rep.tier == "quick" else list(range(len(GRAPHS)))
    for gi in graphs_f:
        n = len(GRAPHS[gi][1])
        allp = list(itertools.product(("ok", "tiny", "neg", "nan"), repeat=min(n, 3)))
        allp = [a + ("ok",) * (n - len(a)) for a in allp]
        for chunk in [allp[i::4] for i in range(4)]:
            jobs.append((gi, chunk, "flows"))
    rep.rule("C02.verdict-follows-current-values", "on one system object checked, refilled and checked again, the second verdict and the default tolerance are those of the present values")
    hjobs = [(gi, second) for gi in range(len(GRAPHS)) for second in ("ok", "bad", "neg")] + [(gi, "second-system") for gi in (0, 1, 3)]
    for part in pmap(history_worker, hjobs, prog, rep):
        for k, (count, inp, msg) in part.items():
            c = fails.get(k)
            fails[k] = (c[0] + count, c[1], c[2]) if c else (count, inp, msg)
    for part in pmap(verdict_worker, jobs, prog, rep):
        for k, (count, inp, msg) in part.items():
            c = fails.get(k)
            fails[k] = (c[0] + count, c[1], c[2]) if c else (count, inp, msg)
    for (rule, qual), (count, inp, msg) in sorted(fails.items()):
        module, line, sig = _locate(prog, qual)
        rep.add(Finding("C02", rule, module, qual, sig, f"{msg} [{count} case(s)]", line=line, abstract_input=inp))
    rep.rules["C02.balance-contributions"]["floor"] = 20
    rep.rules["C02.balance-verdict"]["floor"] = 200
    rep.rules["C02.check-flows"]["floor"] = 200
    rep.rules["C02.verdict-follows-current-values"]["floor"] = 12
    rep.exhaustive = True
    rep.assumptions += ASSUMPTIONS + [
        "every ordered comparison with NaN is False, != is True; max()/min() of an empty iterable raise; sum([]) is the int 0",
        "magnitude classes {within, above, NaN} per process balance and {fine, below -tolerance, NaN} per flow abstract all values; "
        "a tolerance is NaN when np.max meets a NaN or Python's max() has a NaN FIRST argument (it keeps its first argument unless a later one compares greater)",
    ]


MUTANTS = [
    {"name": "D20-tolerance-nan-when-first-flow-has-nan", "path": MOD, "find": "[np.nanmax(np.abs(f.values), initial=0.0) for f in self.flows.values()]",
     "replace": "[np.max(np.abs(f.values)) for f in self.flows.values()]"},
    {"name": "D19-verbose-join-of-integer-items", "path": MOD, "find": '", ".join(str(item) for item in index)', "replace": '", ".join(index)'},
    {"name": "explicit-zero-tolerance-replaced-by-default", "path": MOD, "find": "        if tolerance is None:\n            tolerance = 100 * self._absolute_float_precision",
     "replace": "        tolerance = tolerance or 100 * self._absolute_float_precision"},
    {"name": "all-zero-flows-skipped", "path": MOD, "find": "        for flow in self.flows.values():\n            contributions[flow.from_process.name]",
     "replace": "        for flow in self.flows.values():\n            if not np.any(flow.values):\n                continue\n            contributions[flow.from_process.name]"},
    {"name": "tolerance-cached-on-first-check", "path": MOD, "find": "    @property\n    def _absolute_float_precision(self)", "replace": "    from functools import cached_property\n\n    @cached_property\n    def _absolute_float_precision(self)"},
    {"name": "D6-nan-reported-as-success", "path": MOD, "find": "if not e <= tolerance}", "replace": "if e > tolerance}"},
    {"name": "D7-max-over-empty-stocks", "path": MOD, "find": "for s in self.stocks.values()], default=0.0)", "replace": "for s in self.stocks.values()])"},
    {"name": "D8-sum-of-empty-contributions", "path": MOD, "find": "p_name: sum(parts) if parts else FlodymArray.scalar(0.0)", "replace": "p_name: sum(parts)"},
    {"name": "sign-flipped-at-target", "path": MOD, "find": "contributions[flow.to_process.name].append(flow)", "replace": "contributions[flow.to_process.name].append(-flow)"},
    {"name": "sysenv-mirror-dropped", "path": MOD, "find": '            contributions["sysenv"].append(stock_change)\n', "replace": ""},
    {"name": "stock-change-sign", "path": MOD, "find": "            stock_change = stock.inflow - stock.outflow", "replace": "            stock_change = stock.outflow - stock.inflow"},
    {"name": "threshold-strict (differs at tolerance=0 with an exactly balanced process)", "path": MOD, "find": "if not e <= tolerance}", "replace": "if not e < tolerance}"},
    {"name": "raise-switch-inverted", "path": MOD, "find": "        if raise_error:\n            raise ValueError(message)", "replace": "        if not raise_error:\n            raise ValueError(message)"},
    {"name": "failed-processes-not-reported-when-warning", "path": MOD, "find": "            self._error_or_warning(message, raise_error)\n        else:\n            logging.info(f\"Success",
     "replace": "            if raise_error:\n                self._error_or_warning(message, raise_error)\n        else:\n            logging.info(f\"Success"},
    {"name": "exceptions-by-substring", "path": MOD, "find": "flows = [f for f in self.flows.values() if f.name not in exceptions]",
     "replace": "flows = [f for f in self.flows.values() if not any(e in f.name for e in exceptions)]"},
    {"name": "negativity-without-tolerance-sign", "path": MOD, "find": "            if np.any(flow.values < -tolerance):", "replace": "            if np.any(flow.values < tolerance):"},
    {"name": "nan-scan-on-unfiltered-flows", "path": MOD, "find": "        # Check for NaN values\n        for flow in flows:", "replace": "        # Check for NaN values\n        for flow in self.flows.values():"},
    {"name": "endpoint-exception-only-source", "path": MOD, "find": "if f.from_process.name not in exceptions and f.to_process.name not in exceptions", "replace": "if f.from_process.name not in exceptions"},
    {"name": "stock-without-process-counted", "path": MOD, "find": "            if stock.process is None:  # not connected to a process\n                continue\n", "replace": ""},
]
