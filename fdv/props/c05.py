"""C05 - assignment into a declared array keeps its dims and sums the source by label."""
from __future__ import annotations

from .. import arrays as AR
from ._arr import run_array_property, ASSUMPTIONS

LEVEL = "other"
EXPLANATION = (
    "Abstract interpretation of FlodymArray.__setitem__ / set_values / SubArrayHandler on the labelled-tensor domain for every "
    "left-hand key (all selector kind-vectors up to 3 / 4 dimensions, keys by letter and name, tuple keys) and every kind of "
    "right-hand side: a number (fills the region), a FlodymArray over the region's dimensions in reversed order plus a surplus "
    "dimension (must be matched by label and summed over the surplus), a FlodymArray lacking a region dimension (must raise), an "
    "ndarray of the region's shape, and for whole-array assignment ndarrays of every wrong shape (transposed, missing/extra axis, "
    "other length: must raise). After each call the target's dims, axes and symbolic entry must be 'old entry updated on exactly "
    "the addressed labels', an assigned ndarray must not share memory with the target, and a refused call must leave the target as it was.")
TECHNIQUE = "static analysis: abstract interpretation of the assignment path on a labelled-tensor domain with buffer identities, exhaustive over key kinds x right-hand-side kinds"


def family(prog, name, tier, taint_mode):
    if name == "index":
        return AR.index_cases(prog, 3 if tier == "quick" else 4, taint_mode)
    if name == "misc":
        return AR.misc_index_cases(prog, taint_mode)
    if name == "patterns":
        return AR.pattern_mix_cases(prog, "concrete")
    if name == "illformed":
        return AR.illformed_cases(prog, taint_mode)
    if name == "permuted":
        return AR.permuted_storage_index_cases(prog, taint_mode)
    raise KeyError(name)


def run(prog, rep):
    rep.rule("C05.target-after-assignment", "dims unchanged; entry = old entry updated on exactly the addressed labels with the source matched and summed by label")
    rep.rule("C05.refusals", "a source lacking a region dimension and an ndarray not of the target's shape (whole-array) are refused")
    rep.rule("C05.ndarray-copied", "an assigned ndarray is copied")
    rep.rule("C05.refused-call-changes-nothing", "a refused assignment leaves the target as it was")
    aspects = {("setitem", "result"): "C05.target-after-assignment", ("setitem", "raises"): "C05.refusals",
               ("setitem-illformed", "raises"): "C05.refusals", ("setitem-illformed", "result"): "C05.target-after-assignment",
               ("setitem", "copied"): "C05.ndarray-copied", ("setitem", "atomic"): "C05.refused-call-changes-nothing",
               ("setitem-illformed", "atomic"): "C05.refused-call-changes-nothing", ("setitem", "invariant"): "C05.target-after-assignment",
               ("stack", "result"): "C05.target-after-assignment"}
    prog.method("FlodymArray", "__setitem__")
    prog.method("FlodymArray", "set_values")
    run_array_property(prog, rep, "C05", ["index", "misc", "illformed", "permuted", "patterns", "index@uniform", "permuted@uniform", "misc@uniform"], aspects)
    rep.rules["C05.target-after-assignment"]["floor"] = 300
    rep.rules["C05.refusals"]["floor"] = 40
    rep.rules["C05.ndarray-copied"]["floor"] = 60
    if rep.exhaustive is None:
        rep.exhaustive = True
    rep.assumptions += ASSUMPTIONS


FA = "flodym_arrays.py"
MUTANTS = [
    {"name": "setitem-no-sum-by-label", "path": FA, "find": "            self.values[slice_obj.ids] = item.sum_values_to(slice_obj.dim_letters)",
     "replace": "            self.values[slice_obj.ids] = item.values"},
    {"name": "setitem-skip-sum-when-shapes-equal", "path": FA, "find": "            self.values[slice_obj.ids] = item.sum_values_to(slice_obj.dim_letters)",
     "replace": "            if item.shape == slice_obj.dims_out.shape:\n                self.values[slice_obj.ids] = item.values\n            else:\n                self.values[slice_obj.ids] = item.sum_values_to(slice_obj.dim_letters)"},
    {"name": "setitem-ellipsis-without-copy", "path": FA, "find": "            self.set_values(copy(item))", "replace": "            self.set_values(item)"},
    {"name": "setitem-ellipsis-asarray", "path": FA, "find": "            self.set_values(copy(item))", "replace": "            self.set_values(np.asarray(item, dtype=self.values.dtype))"},
    {"name": "setitem-ellipsis-broadcasts", "path": FA, "find": "            self.set_values(copy(item))", "replace": "            self.values[...] = copy(item)"},
    {"name": "D4-set_values-commit-then-check", "path": FA,
     "find": "            previous_values = self.values\n            self.values = values\n            try:\n                self._check_value_format()\n            except ValueError:\n                self.values = previous_values\n                raise",
     "replace": "            self.values = values\n            self._check_value_format()"},
    {"name": "setitem-sums-to-target-letters", "path": FA, "find": "item.sum_values_to(slice_obj.dim_letters)", "replace": "item.sum_values_to(self.dims.letters)"},
    {"name": "setitem-partial-without-copy (equivalent)", "path": FA, "find": "            self.values[slice_obj.ids] = copy(item)", "replace": "            self.values[slice_obj.ids] = item",
     "expect": "survive"},
]
