"""C16 - dynamic stock models are causal, linear and independent across labels."""
from __future__ import annotations

from .. import stockcases as SC
from ._stk import run_stock_property, ASSUMPTIONS

LEVEL = "other"
ENGINE = "fdv-symbolic-grid-evaluator"
EXPLANATION = (
    "Dependence analysis on the exact symbolic results of the bounded-grid evaluation (all driver entries, parameters and time "
    "items are symbols): for the inflow-driven model, the stock-driven model (both solvers) and the flow-driven stock every entry "
    "of stock, inflow, outflow and both cohort tables must be (a) LINEAR - a polynomial whose every term has degree exactly 1 in "
    "the driver symbols, no driver symbol in a denominator (superposition and scaling for all real values); (b) CAUSAL - no "
    "driver symbol of a later time step; (c) LABEL-SEPARATE - only driver symbols, parameter symbols and survival-table symbols "
    "of its own label combination (parameters per cohort and label, also with all labels sharing the first cohort's parameters, a "
    "pattern under which label-grouping shortcuts misfire); (d) SHIFT-INVARIANT - identical when every time item is shifted by a "
    "symbolic constant; (e) the stock response to the inflow rate of one cohort is that cohort's survival column times its "
    "interval length; a prescribed stock handed over as an integer-dtype array is included (NumPy's cast-on-assignment is modelled as "
    "truncation, which is not linear). Exact on the enumerated grid shapes; numerical superposition error is not decided.")
TECHNIQUE = "static analysis: dependence/linearity analysis of the exact symbolic results of an abstract interpretation on bounded grids"


def run(prog, rep):
    rep.rule("C16.linear", "every result entry is homogeneous of degree 1 in the driver symbols")
    rep.rule("C16.causal", "no result entry depends on a driver symbol of a later time step")
    rep.rule("C16.label-separate", "every result entry depends only on driver / parameter / table symbols of its own label combination")
    rep.rule("C16.shift-invariant", "results are unchanged by a symbolic shift of all time items")
    rep.rule("C16.impulse-response", "stock = sum over cohorts of inflow rate x interval length x survival share")
    jobs = [("inflow", c) for c in SC.dsm_configs(rep.tier)]
    jobs += [("stockdriven", dict(c, both_generic=True)) for c in SC.dsm_configs(rep.tier) if c["n_pts"] == 1 and c["n_t"] <= 4]
    jobs += [("simple", c) for c in SC.simple_configs(rep.tier)]
    jobs += [("stockdriven", c) for c in SC.int_driver_configs(rep.tier) + SC.layout_configs(rep.tier)]
    run_stock_property(prog, rep, "C16", jobs, {"linear": "C16.linear", "causal": "C16.causal", "label-separate": "C16.label-separate",
                                                "shift-invariant": "C16.shift-invariant", "impulse": "C16.impulse-response"})
    rep.rules["C16.linear"]["floor"] = 100
    rep.rules["C16.label-separate"]["floor"] = 100
    rep.exhaustive = True
    rep.assumptions += ASSUMPTIONS


ST = "stocks.py"
LM = "lifetime_models.py"
MUTANTS = [
    {"name": "clip-negative-inflow (ODYM-style correction)", "path": ST,
     "find": "            inflow_whole_period[i, ...] = (stock_i - (sf_ij * inflow_j).sum(axis=0)) / sf_ii\n",
     "replace": "            inflow_whole_period[i, ...] = np.maximum((stock_i - (sf_ij * inflow_j).sum(axis=0)) / sf_ii, 0)\n"},
    {"name": "manual-solver-reads-next-row", "path": ST, "find": "            stock_i = self.stock.values[i, ...]", "replace": "            stock_i = self.stock.values[min(i + 1, self._n_t - 1), ...]"},
    {"name": "cohort-einsum-contracts-labels", "path": ST, "find": '"c...,tc...->tc...", inflow_per_period, self.lifetime_model.sf\n', "replace": '"c...,tc->tc...", inflow_per_period, self.lifetime_model.sf[..., 0] if self.lifetime_model.sf.ndim > 2 else self.lifetime_model.sf\n'},
    {"name": "lapack-one-matrix-for-all-labels", "path": ST, "find": "                sf[2 * slt + i], self.stock.values[slt + i], lower=True", "replace": "                sf[2 * slt + (0,) * len(i)], self.stock.values[slt + i], lower=True"},
    {"name": "ages-use-absolute-time", "path": LM, "find": "return self._tile(self._t.bounds[m + 1 :] - t)", "replace": "return self._tile(self._t.bounds[m + 1 :] - 0.001 * t)"},
    {"name": "outflow-smoothing-over-time", "path": ST, "find": "        self.outflow.values[...] = self._outflow_by_cohort.sum(axis=1)",
     "replace": "        self.outflow.values[...] = self._outflow_by_cohort.sum(axis=1)\n        self.outflow.values[:-1, ...] = 0.5 * (self.outflow.values[:-1, ...] + self.outflow.values[1:, ...])"},
    {"name": "stock-squared-guard", "path": ST, "find": "        self.stock.values[...] = self._stock_by_cohort.sum(axis=1)", "replace": "        self.stock.values[...] = self._stock_by_cohort.sum(axis=1) + 0 * self.inflow.values * self.inflow.values",
     "expect": "survive"},
]
