"""C17 - recomputing a stock reflects its current inputs only."""
from __future__ import annotations

import ast

from ..core import Finding, AnalysisError
from .. import stockcases as SC
from ._stk import run_stock_property, ASSUMPTIONS

LEVEL = "other"
ENGINE = "fdv-symbolic-grid-evaluator"
EXPLANATION = (
    "History enumeration on the abstract heap: ONE stock object (inflow-driven, stock-driven with either solver, flow-driven) is "
    "driven through every sequence (length <= 3 quick / <= 4 thorough) of {compute(), set_prms(B), replace the driver, set the "
    "driver to zero, read the survival / outflow tables} and through the failure histories {parameters not set -> compute() "
    "raises -> set_prms -> compute(); inadmissible (negative) parameters -> compute() raises -> set_prms -> compute(); tables read "
    "before the parameters are set}; every number is symbolic, parameter versions A/B are different symbols. After every "
    "successful compute() ALL results (stock, inflow, outflow, both cohort tables) must equal, as exact rational functions, those "
    "of a freshly built object holding the same driver and parameters, and a compute() on unset / inadmissible parameters must "
    "raise. In addition a structural cache rule: every lazily filled private cache (pattern `if self._x is None: fill`) is reset by "
    "every method that stores to one of the fields its fill reads. Stocks built from definitions are the same classes (C18). "
    "Histories also cover: an equidistant grid with parameters first shared by all cohorts and then varying over time (and the reverse), given via constructor or set_prms; a concrete unit grid with concrete fixed lifetimes, where the zero pattern of the tables changes with the parameters."
    ' Rule C17.cleanup-catches-every-failure: a handler that drops a cache stored before it was filled catches Exception or more.'
)
TECHNIQUE = "static analysis: typestate/history enumeration by abstract interpretation over symbolic forms (object vs. fresh object after every compute) + cache-invalidation rule"


def cleanup_breadth_rule(prog, rep):
    """a cache that is stored BEFORE it is filled (buffer allocated, then filled in place) is dropped again by an exception handler when
    the fill fails; that handler must catch every ordinary exception - a fill can fail with types the author did not list
    (FloatingPointError under np.errstate(all='raise'), errors of SciPy, TypeError from a mistyped setting) and a narrower handler
    leaves the half-filled table cached for the next compute()"""
    rid = rep.rule("C17.cleanup-catches-every-failure", "the handler that drops a half-filled cache catches Exception (or more), not a list of types", floor=0)
    n = 0
    for fn in prog.all_functions():
        if fn.cls is None:
            continue
        for t in ast.walk(fn.node):
            if not isinstance(t, ast.Try):
                continue
            for h in t.handlers:
                resets = [st for st in ast.walk(ast.Module(body=h.body, type_ignores=[])) if isinstance(st, ast.Assign) and isinstance(st.value, ast.Constant)
                          and st.value.value is None and any(isinstance(x, ast.Attribute) and ast.unparse(x.value) == "self" and x.attr.startswith("_") for x in st.targets)]
                reraises = any(isinstance(st, ast.Raise) and st.exc is None for st in h.body)
                if not resets or not reraises:
                    continue
                # the same private attribute is tested `is None` and stored just before the try in this function: the lazy-fill idiom
                attr = next(x.attr for st in resets for x in st.targets if isinstance(x, ast.Attribute))
                lazy = any(isinstance(c, ast.Compare) and isinstance(c.left, ast.Attribute) and c.left.attr == attr and isinstance(c.ops[0], ast.Is) for c in ast.walk(fn.node))
                if not lazy:
                    continue
                n += 1
                names = [] if h.type is None else [ast.unparse(x) for x in (h.type.elts if isinstance(h.type, ast.Tuple) else [h.type])]
                broad = h.type is None or any(x.split(".")[-1] in ("Exception", "BaseException") for x in names)
                rep.oblige(rid, broad, where=fn.qual, what=f"except {', '.join(names) or '<bare>'}: self.{attr} = None; raise")
                if not broad:
                    rep.add(Finding("C17", rid, fn.module, fn.qual, h,
                                    f"the handler that drops the half-filled cache `self.{attr}` catches only {', '.join(names)}: when the fill fails with any other "
                                    f"exception the zero-initialised table stays cached and the next compute() silently uses it instead of recomputing "
                                    f"(results then depend on an earlier, failed computation)", line=h.lineno))
    if n == 0:
        rep.notes.append("C17.cleanup-catches-every-failure: no 'store, fill in try, drop on failure' idiom found (nothing to check)")
    probe = ast.parse("class K:\n    def p(self):\n        if self._t is None:\n            self._t = 0\n            try:\n                self.fill()\n            except ValueError:\n                self._t = None\n                raise\n        return self._t\n")
    hs = [h for t in ast.walk(probe) if isinstance(t, ast.Try) for h in t.handlers]
    if len(hs) != 1 or ast.unparse(hs[0].type) != "ValueError":
        raise AnalysisError("C17 cleanup-breadth rule: positive control lost")


def cache_rule(prog, rep):
    """structural complement: caches discovered by pattern; their input fields; writers of inputs must reset them"""
    rid = rep.rule("C17.cache-reset-on-input-store", "a method storing to an input field of a lazily filled cache resets that cache on every path", floor=0)
    n_caches = 0
    for cls in prog.classes.values():
        caches = {}
        for f in cls.methods.values():
            if not f.is_property:
                continue
            for n in ast.walk(f.node):
                if isinstance(n, ast.If) and isinstance(n.test, ast.Compare) and isinstance(n.test.ops[0], ast.Is) \
                        and isinstance(n.test.left, ast.Attribute) and ast.unparse(n.test.left.value) == "self" \
                        and isinstance(n.test.comparators[0], ast.Constant) and n.test.comparators[0].value is None:
                    caches[n.test.left.attr] = f
        if not caches:
            continue
        for cname, prop in caches.items():
            n_caches += 1
            # fields read by the fill (through self-calls, depth 3)
            reads = set()

            def collect(fn, depth=0, seen=None):
                seen = seen if seen is not None else set()
                if fn.qual in seen or depth > 4:
                    return
                seen.add(fn.qual)
                for n in ast.walk(fn.node):
                    if isinstance(n, ast.Attribute) and isinstance(n.value, ast.Name) and n.value.id == "self":
                        reads.add(n.attr)
                        for sub in prog.subclasses(cls):
                            r = prog.find_attr(sub, n.attr)
                            if r and r[0] != "const":
                                collect(r[1], depth + 1, seen)
            collect(prop)
            fields = set()
            for sub in prog.subclasses(cls):
                fields |= {k for k in prog.model_fields(sub)}
            inputs = {r for r in reads if r in fields and not r.startswith("_")}
            dependents = {c for c, p in caches.items() if cname in {n.attr for n in ast.walk(p.node) if isinstance(n, ast.Attribute)} or prop.name in
                          {n.attr for n in ast.walk(p.node) if isinstance(n, ast.Attribute)}} | {cname}
            for sub in prog.subclasses(cls):
                for m in sub.methods.values():
                    if m.validator_kind or m.is_property or m.name.startswith("__"):
                        continue
                    stores = [n for n in ast.walk(m.node) if isinstance(n, (ast.Assign, ast.AugAssign)) for t in (n.targets if isinstance(n, ast.Assign) else [n.target])
                              if isinstance(t, ast.Attribute) and isinstance(t.value, ast.Name) and t.value.id == "self" and t.attr in inputs]
                    if not stores:
                        continue
                    # resets: direct `self._x = None` or a call to a self-method that does it
                    def resets(fn, depth=0):
                        out = set()
                        for n in ast.walk(fn.node):
                            if isinstance(n, ast.Assign) and isinstance(n.value, ast.Constant) and n.value.value is None:
                                for t in n.targets:
                                    if isinstance(t, ast.Attribute) and ast.unparse(t.value) == "self":
                                        out.add(t.attr)
                            if isinstance(n, ast.Call) and isinstance(n.func, ast.Attribute) and ast.unparse(n.func.value) == "self" and depth < 3:
                                r = prog.find_attr(sub, n.func.attr)
                                if r and r[0] == "method":
                                    out |= resets(r[1], depth + 1)
                        return out
                    rs = resets(m)
                    ok = dependents <= rs
                    rep.oblige(rid, ok, where=m.qual, what=f"stores {sorted({ast.unparse(t) for s in stores for t in (s.targets if isinstance(s, ast.Assign) else [s.target])})}; cache {cname}")
                    if not ok:
                        rep.add(Finding("C17", rid, m.module, m.qual, stores[0],
                                        f"stores to an input of the lazily filled cache `{cname}` (read by {prop.qual}) without resetting "
                                        f"{sorted(dependents - rs)}: a later read returns the table of the old inputs", line=stores[0].lineno))
    rep.extra["lazily_filled_caches"] = n_caches


def run(prog, rep):
    rep.rule("C17.recompute-equals-fresh", "after every compute() in every enumerated history the results equal those of a fresh object with the same inputs; compute() on unset/inadmissible parameters raises")
    for c, m in (("LifetimeModel", "sf"), ("LifetimeModel", "pdf"), ("InflowDrivenDSM", "compute"), ("StockDrivenDSM", "compute")):
        prog.method(c, m)
    jobs = []
    base = dict(n_t=3, labels=("a",), dist="NormalLifetime", over="all", n_pts=1, inflow_at="middle")
    cfgs = [base, dict(base, dist="FixedLifetime", over="number", labels=())]
    if rep.tier == "thorough":
        cfgs += [dict(base, dist=d) for d in SC.DISTS if d != "NormalLifetime"] + [dict(base, n_pts=2), dict(base, over="time", n_t=4)]
    for cfg in cfgs:
        for cls in ("InflowDrivenDSM", "StockDrivenDSM"):
            solvers = ("manual", "lapack") if cls == "StockDrivenDSM" else (None,)
            for sv in solvers:
                c2 = dict(cfg, **({"solver": sv} if sv else {}))
                for h in SC.histories(rep.tier, True):
                    if sv == "lapack" and len(h) > 3 and rep.tier == "quick":
                        continue
                    if cfg["n_pts"] > 1 and cls == "StockDrivenDSM" and h not in ("CPC", "CDC", "RPC"):
                        continue        # two-point quadrature in the stock-driven solvers: rational functions of sums; a few histories only
                    jobs.append(("history", c2, cls, h))
    # parameters handed to set_prms POSITIONALLY, in the order of the documented signature (two-parameter models)
    for dist in ("WeibullLifetime", "NormalLifetime"):
        jobs.append(("history", dict(n_t=3, labels=(), dist=dist, over="number", n_pts=1, inflow_at="middle", positional=True), "InflowDrivenDSM", "CPC"))
    if rep.tier == "quick":      # four time items: the smallest grid with different interval lengths
        for cls, sv in (("InflowDrivenDSM", None), ("StockDrivenDSM", "manual"), ("StockDrivenDSM", "lapack")):
            for h in ("CPC", "CDC", "CZDC"):
                jobs.append(("history", dict(n_t=4, labels=(), dist="NormalLifetime", over="number", n_pts=1, inflow_at="middle", **({"solver": sv} if sv else {})), cls, h))
    # equidistant grid + parameters that are first the same for all cohorts and then vary over time (a decision taken once, at
    # construction, on "all cohorts share one curve" is seen), and the reverse
    for dist in ("NormalLifetime", "FixedLifetime"):
        for over, over2 in (("number", "time"), ("time", "number"), ("number", "all")):
            for via in ("__init__", "set_prms"):
                eq = dict(n_t=3, labels=("a",) if over2 == "all" else (), dist=dist, over=over, over2=over2, n_pts=1, inflow_at="middle", grid="equidistant", via=via)
                for cls, sv in (("InflowDrivenDSM", None), ("StockDrivenDSM", "manual")):
                    for h in ("CPC", "PC", "RPC"):
                        jobs.append(("history", dict(eq, **({"solver": sv} if sv else {})), cls, h))
    # concrete unit grid and concrete fixed lifetimes: the survival table consists of exact zeros and ones, and WHICH entries are zero
    # changes with the parameters (stale entries of re-used buffers behind a "skip the zeros" shortcut are seen)
    from fractions import Fraction as _F
    for a, b in ((_F(17, 10), _F(7, 10)), (_F(7, 10), _F(17, 10)), (_F(27, 10), _F(7, 10))):
        fx = dict(n_t=3, labels=(), dist="FixedLifetime", over="number", n_pts=1, inflow_at="middle", grid="unit", prm_values={"A": a, "B": b})
        for cls, sv in (("InflowDrivenDSM", None), ("StockDrivenDSM", "manual"), ("StockDrivenDSM", "lapack")):
            for h in ("CPC", "CPDC"):
                jobs.append(("history", dict(fx, **({"solver": sv} if sv else {})), cls, h))
    # only ONE of two parameters changes between two computations
    for dist in ("NormalLifetime", "WeibullLifetime"):
        for over in ("number", "all"):
            for cls, sv in (("InflowDrivenDSM", None), ("StockDrivenDSM", "lapack")):
                jobs.append(("history", dict(n_t=3, labels=("a",) if over == "all" else (), dist=dist, over=over, n_pts=1, inflow_at="middle", **({"solver": sv} if sv else {})), cls, "ACMC"))
    # parameters edited in place and handed over again as the same objects
    for dist in ("NormalLifetime", "WeibullLifetime"):
        for cls, sv in (("InflowDrivenDSM", None), ("StockDrivenDSM", "manual")):
            jobs.append(("history", dict(n_t=3, labels=("a",), dist=dist, over="all", n_pts=1, inflow_at="middle", **({"solver": sv} if sv else {})), cls, "ACIC"))
    for dist in ("NormalLifetime", "FixedLifetime"):
        for which in ("sf", "pdf"):
            jobs.append(("setting-failure", dict(n_t=3, labels=(), dist=dist, over="number", read=which)))
    for h in SC.histories(rep.tier, False):
        jobs.append(("history", dict(n_t=3, labels=("a",), dist="NormalLifetime", over="all", n_pts=1, inflow_at="middle"), "SimpleFlowDrivenStock", h))
    run_stock_property(prog, rep, "C17", jobs, {"recompute": "C17.recompute-equals-fresh"})
    cache_rule(prog, rep)
    cleanup_breadth_rule(prog, rep)
    rep.rules["C17.recompute-equals-fresh"]["floor"] = 100
    rep.exhaustive = True
    rep.extra["histories"] = len(jobs)
    rep.assumptions += ASSUMPTIONS + ["direct attribute assignment of parameters by user code (bypassing set_prms) is outside the contract"]


ST = "stocks.py"
LM = "lifetime_models.py"
MUTANTS = [
    {"name": "cleanup-only-on-ValueError", "path": LM, "find": "                self.compute_survival_factor()\n            except Exception:", "replace": "                self.compute_survival_factor()\n            except ValueError:"},
    {"name": "D3-set_prms-without-cache-reset", "path": LM, "find": "        self.std = self.cast_any_to_np_array(std)\n        self._reset_cache()\n", "replace": "        self.std = self.cast_any_to_np_array(std)\n"},
    {"name": "D3-weibull-set_prms-without-reset", "path": LM, "find": "        self.weibull_scale = self.cast_any_to_np_array(weibull_scale)\n        self._reset_cache()\n",
     "replace": "        self.weibull_scale = self.cast_any_to_np_array(weibull_scale)\n"},
    {"name": "D17-zero-table-cached-on-failure", "path": LM,
     "find": "            try:\n                self.compute_survival_factor()\n            except Exception:\n                self._sf = None\n                raise\n", "replace": "            self.compute_survival_factor()\n"},
    {"name": "reset-only-sf-not-pdf", "path": LM, "find": "        self._sf = None\n        self._pdf = None\n\n    def cast_any", "replace": "        self._sf = None\n\n    def cast_any"},
    {"name": "reset-only-when-params-differ-much", "path": LM, "find": "        self.mean = self.cast_any_to_np_array(mean)\n        self._reset_cache()\n\n    def _survival_by_year_id(self, t, m):\n        # Example",
     "replace": "        new = self.cast_any_to_np_array(mean)\n        if self.mean is None or not np.allclose(new, self.mean):\n            self._reset_cache()\n        self.mean = new\n\n    def _survival_by_year_id(self, t, m):\n        # Example"},
    {"name": "compute-returns-early-for-zero-driver", "path": ST,
     "find": "        if np.allclose(self.inflow.values, np.zeros(self.shape)):\n            logging.warning(\"Inflow is zero. This will lead to a zero stock and outflow.\")\n\n    def compute(self):\n        \"\"\"Determine stocks and outflows and store values in the class instance.\"\"\"\n        self._check_needed_arrays()\n",
     "replace": "        if np.allclose(self.inflow.values, np.zeros(self.shape)):\n            logging.warning(\"Inflow is zero. This will lead to a zero stock and outflow.\")\n            return False\n        return True\n\n    def compute(self):\n        \"\"\"Determine stocks and outflows and store values in the class instance.\"\"\"\n        if not self._check_needed_arrays():\n            return\n"},
    {"name": "outflow-accumulates-across-computes", "path": ST, "find": "        self.outflow.values[...] = self._outflow_by_cohort.sum(axis=1)", "replace": "        self.outflow.values[...] += self._outflow_by_cohort.sum(axis=1)"},
    {"name": "stock-driven-keeps-old-cohort-table", "path": ST,
     "find": '        self._stock_by_cohort = np.einsum(\n            "c...,tc...->tc...", self._to_whole_period(self.inflow.values), self.lifetime_model.sf\n        )',
     "replace": '        if not np.any(self._stock_by_cohort):\n            self._stock_by_cohort = np.einsum(\n                "c...,tc...->tc...", self._to_whole_period(self.inflow.values), self.lifetime_model.sf\n            )'},
]
