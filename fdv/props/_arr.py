"""Shared driver for the properties decided on the labelled-tensor domain (C01 C04 C05 C06 C07 C13 C15)."""
from __future__ import annotations

from ..core import AnalysisError, Finding
from ..interp import TaintAbort, AnalysisAbort
from ..par import pmap
from .. import arrays as AR
from ..world import with_lengths

N_CHUNKS = 32


def _locate(prog, qual):
    """module, line, signature text of a qualified function"""
    if "." in qual:
        c, f = qual.split(".", 1)
        ci = prog.classes.get(c)
        if ci is not None:
            r = prog.find_attr(ci, f)
            if r and r[0] != "const":
                fn = r[1]
                return fn.module, fn.node.lineno, f"def {fn.name}({', '.join(a.arg for a in fn.node.args.args)})"
            return ci.module, ci.node.lineno, f"class {c}"
    for m in prog.modules.values():
        if qual in m.funcs:
            fn = m.funcs[qual]
            return fn.module, fn.node.lineno, f"def {fn.name}({', '.join(a.arg for a in fn.node.args.args)})"
    return "flodym_arrays.py", None, qual


def group_of(case):
    """the abstract input with every storage order forgotten"""
    d = dict(case.inp)
    if "selector_kinds" in d and "x_dims" in d:
        d["sel"] = tuple(sorted(zip(d.pop("x_dims"), d.pop("selector_kinds"))))
    for k in ("x_dims", "y_dims", "dims", "arg", "target_dims", "over", "items_from"):
        if k in d:
            d[k] = tuple(sorted(d[k]))
    return (case.family, case.op, tuple(sorted((k, str(v)) for k, v in d.items())))


def _worker(prog, rep, job):
    pid, families, aspects, idx, n, tier = job
    mod = __import__(f"fdv.props.{pid.lower()}", fromlist=["x"])
    fails = {}
    taints = {}
    groups = {}
    aborts = {}
    ncases = 0
    for fam in families:
        base, _, lmode = fam.partition("@")
        mk = (lambda tm: list(with_lengths(mod.family(prog, base, tier, tm), lmode))) if lmode else (lambda tm: list(mod.family(prog, base, tier, tm)))
        gen_abort = mk("abort")
        gen_conc = None
        for j, th in enumerate(gen_abort):
            if j % n != idx:
                continue
            try:
                case = th()
            except TaintAbort as e:
                if gen_conc is None:
                    gen_conc = mk("concrete")
                try:
                    case = gen_conc[j]()
                except AnalysisAbort as e2:
                    aborts[str(e2)[:300]] = aborts.get(str(e2)[:300], 0) + 1
                    continue
                taints[str(e)[:200]] = taints.get(str(e)[:200], 0) + 1
            except AnalysisAbort as e:
                # this abstract input leaves the modelled subset: no verdict for it.  The run goes on - a violation met on another
                # input is still a violation; without one the run ends as analysis-error (never as a pass)
                aborts[str(e)[:300]] = aborts.get(str(e)[:300], 0) + 1
                continue
            if case is None:
                continue
            ncases += 1
            rep.evaluations += 1
            for t in case.taint:
                taints[t[:200]] = taints.get(t[:200], 0) + 1
            if ("*", "order-independence") in aspects and case.canon is not None:
                groups.setdefault(group_of(case), {}).setdefault(case.canon, (case.qual, case.inp))
            for v in case.verdicts:
                rule = aspects.get((case.family, v.aspect)) or aspects.get(("*", v.aspect))
                if rule is None:
                    continue
                rep.oblige(rule, v.ok, where=case.qual, what=str(case.inp), distinct=(rule, case.qual, str(case.inp)),
                           sample={"rule": rule, "site": case.qual, "abstract_input": case.inp, "verdict": "ok" if v.ok else "VIOLATED"} if (ncases % 97 == 1) else None)
                if not v.ok:
                    k = (rule, case.qual)
                    c = fails.get(k)
                    fails[k] = (c[0] + 1, c[1], c[2]) if c else (1, case.inp, v.msg)
    return fails, taints, ncases, groups, aborts


def run_array_property(prog, rep, pid, families, aspects, floors=None):
    """families: names understood by the property module's `family(prog, name, tier, taint_mode)`;
    aspects: {(family|'*', aspect): rule id}"""
    jobs = [(pid, families, aspects, i, N_CHUNKS, rep.tier) for i in range(N_CHUNKS)]
    parts = pmap(_worker, jobs, prog, rep)
    fails, taints, total = {}, {}, 0
    groups = {}
    aborts = {}
    for f, t, n, g, ab in parts:
        for k, v in ab.items():
            aborts[k] = aborts.get(k, 0) + v
        for gk, canons in g.items():
            tgt = groups.setdefault(gk, {})
            for c, where in canons.items():
                tgt.setdefault(c, where)
        total += n
        for k, (count, inp, msg) in f.items():
            c = fails.get(k)
            fails[k] = (c[0] + count, c[1], c[2]) if c else (count, inp, msg)
        for k, v in t.items():
            taints[k] = taints.get(k, 0) + v
    rep.extra["abstract_evaluations"] = total
    rule_oi = aspects.get(("*", "order-independence"))
    if rule_oi:
        from .. import npmodel as NP
        for gk, canons in sorted(groups.items(), key=lambda kv: repr(kv[0])):
            ok = len(canons) == 1
            rep.oblige(rule_oi, ok, where=gk[1], what=str(gk[2]), distinct=(rule_oi, gk))
            if not ok:
                items = list(canons.items())
                (c1, (q1, i1)), (c2, (q2, i2)) = items[0], items[1]
                def sh(c):
                    return (f"entry {NP.show(c[2])} over {sorted(str(a) for a in c[1])[:4]}" if len(c) == 3 and isinstance(c[2], tuple) else str(c[1:]))
                k = (rule_oi, q1)
                msg = (f"the result depends on the storage order of the dimensions: input {i1} gives {sh(c1)[:300]} but the same "
                       f"labelled input stored as {i2} gives {sh(c2)[:300]}")
                cnt = fails.get(k)
                fails[k] = (cnt[0] + 1, cnt[1], cnt[2]) if cnt else (1, i1, msg)
    if aborts:
        if not fails:
            raise AnalysisAbort(sorted(aborts)[0] + (f" [{sum(aborts.values())} abstract input(s) without a verdict]" if sum(aborts.values()) > 1 else ""))
        rep.notes.append(f"{sum(aborts.values())} abstract input(s) left the modelled subset and have NO verdict (reported next to the violations "
                         "found on other inputs): " + "; ".join(f"{k} (x{v})" for k, v in sorted(aborts.items())[:4]))
        rep.exhaustive = False
    if taints:
        rep.notes.append("position/length-dependent control flow met in the analysed code; for those cases the verdict is "
                         "exhaustive over the enumerated representatives only (bounded), not for all lengths/positions: "
                         + "; ".join(f"{k} (x{v})" for k, v in sorted(taints.items())[:5]))
        rep.exhaustive = False
    for (rule, qual), (count, inp, msg) in sorted(fails.items()):
        module, line, sig = _locate(prog, qual)
        rep.add(Finding(pid, rule, module, qual, sig, f"{msg} [{count} abstract input(s)]", line=line, abstract_input=inp))
    for rid, n in (floors or {}).items():
        rep.rules.setdefault(rid, {"text": rid, "instances": 0, "floor": 0, "failed": 0})["floor"] = n
    return total


ASSUMPTIONS = [
    "pydantic v2: construction assigns fields (list/dict-typed fields get new containers, ndarrays are stored by reference), then "
    "runs the after-validators base-class first in definition order; model_copy(update) is a shallow copy without validation",
    "np.einsum aligns axes by subscript letter, an omitted letter is summed, a one-operand einsum without reduction may return a view",
    "NumPy indexing: basic indices give views; advanced indices separated by a slice put the broadcast axes first, otherwise in "
    "place; several index lists are zipped unless built by np.ix_ (model cross-checked against NumPy on 493 kind combinations at design time)",
    "freshness: arithmetic/ufunc results, np.tile, .copy(), np.array(x), zeros/ones/full(_like) are new arrays; x[basic index], .T, "
    "np.moveaxis, np.asarray(same dtype) alias their argument",
    "representatives: dimension lengths 5,7,11,13,17 and selections of 2,3,4,6,8 items are pairwise different, so two axes agree "
    "in length only if they are the same axis; lining up axes over different items is reported regardless of lengths",
]
