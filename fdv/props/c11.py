"""C11 - DataFrame import is faithful to labels under every supported layout."""
from __future__ import annotations

import ast

from ..core import AnalysisError, Finding
from ..par import pmap
from .. import dfcases as DC
from ._arr import _locate

LEVEL = "other"
ENGINE = "fdv-symbolic-grid-evaluator"
EXPLANATION = (
    "FlodymArray.to_df, from_df / set_values_from_df and the whole DataFrameToFlodymDataConverter (AST) are evaluated by the "
    "symbolic evaluator on small arrays (1-4 dimensions drawn from: typed int items, typed str items, untyped str items, untyped "
    "int items, a single-item dimension; every entry a distinct symbol, some exact zeros) with pandas replaced by a model of the "
    "operations in use (MultiIndex.from_product/from_arrays, set_index/reset_index naming, pivot with sorted labels, melt, map, "
    "isin, duplicated, fillna, CSV text with per-column type inference). (1) to_df in every layout (index or columns, long or one "
    "dimension spread over the columns by name or letter, dense or sparse, also on non-contiguous transposed views) must list "
    "every entry exactly once under its true labels (sparse: exactly the non-zero entries). (2) Each exported frame is re-imported "
    "as it is, with rows reversed / rotated, columns reversed, dimension columns headed by letter / mixed / recognisable only by "
    "their items, value column renamed, single-item dimension columns left out, and after a CSV text round trip: from_df must "
    "return the identical array, entry by entry (exact symbolic equality); the same after an earlier export/import, in the same "
    "process, of an array whose dimensions have the same names and items in another order (no state carried between calls). (3) No index array is cast to an integer type narrower "
    "than the platform index. The pandas model follows documented behaviour; pandas itself is trusted."
    ' The worlds include a dimension mixing text and number items, a dimension whose items are 0, 1, 2 (like default row labels) and two dimensions over the same items (columns identified only by their items must then be refused).'
)
TECHNIQUE = "static analysis: abstract interpretation of export/import code over symbolic cell values with a model of the pandas operations in use; round trips decided exactly"

ARRAYS_QUICK = [("a",), ("t", "a"), ("a", "t", "b"), ("s", "t"), ("n", "a"), ("b", "s", "a"), ("m", "a"), ("z",), ("z", "s"), ("p", "q")]
ARRAYS_THOROUGH = ARRAYS_QUICK + [("t",), ("b", "a"), ("a", "b", "t"), ("t", "b", "a", "n"), ("s",), ("n", "t", "s"), ("m",), ("t", "m", "s")]


def _worker(prog, rep, job):
    kind, letters, tier = job
    res = DC.case_to_df(prog, letters) if kind == "to_df" else DC.case_df_history(prog, letters) if kind == "hist" else \
        DC.case_same_item_sets(prog) if kind == "same-items" else DC.case_roundtrips(prog, letters, tier)
    fails = {}
    for inp, ok, msg, qual in res:
        rule = "C11.to_df-lists-every-entry" if kind == "to_df" else "C11.roundtrip-identical"
        if len(letters) == 1 and inp.get("dim_to_columns") is not None and not ok and "to_df ended with raise" in msg:
            rule = "C11.wide-layout-of-1d-array"
        if (not ok and "CSV" in str(inp.get("transformed")) and "from_df refuses" in msg and "contains items that are not in the dimension" in msg
                and any(len({type(x) for x in DC.DIMS[l][1]}) > 1 for l in letters)):
            # CSV text has one type per column: the numbers of a dimension mixing text and numbers come back as text and are refused (never misplaced)
            rule = "C11.csv-text-of-mixed-type-items"
        rep.oblige(rule, ok, where=qual, what=str(inp), distinct=(rule, str(inp)),
                   sample={"rule": rule, "case": inp, "verdict": "ok" if ok else "VIOLATED"} if rep.obligations % 41 == 0 else None)
        rep.evaluations += 1
        if not ok:
            k = (rule, qual)
            c = fails.get(k)
            fails[k] = (c[0] + 1, c[1], c[2]) if c else (1, inp, msg)
    return fails


NARROW = {"int8", "int16", "int32", "uint8", "uint16", "uint32", "short", "intc"}


def index_width(prog, rep):
    rid = rep.rule("C11.index-width", "no integer cast narrower than the platform index type in the importer", floor=1)
    mi = prog.modules.get("_df_to_flodym_array.py")
    if mi is None:
        raise AnalysisError("module _df_to_flodym_array.py not found")

    def narrow_casts(tree):
        out = []
        for n in ast.walk(tree):
            if isinstance(n, ast.Call) and isinstance(n.func, ast.Attribute) and n.func.attr in ("astype", "view") and n.args:
                a = ast.unparse(n.args[0]).strip("'\"")
                if a.split(".")[-1] in NARROW:
                    out.append(n)
            if isinstance(n, ast.Call) and ast.unparse(n.func).split(".")[-1] in NARROW and ast.unparse(n.func).startswith(("np.", "numpy.")):
                out.append(n)
            if isinstance(n, ast.keyword) and n.arg == "dtype" and ast.unparse(n.value).strip("'\"").split(".")[-1] in NARROW:
                out.append(n.value)
        return out
    hits = narrow_casts(mi.tree)
    casts = [n for n in ast.walk(mi.tree) if isinstance(n, ast.Call) and isinstance(n.func, ast.Attribute) and n.func.attr == "astype"]
    for n in casts:
        bad = n in hits
        rep.oblige(rid, not bad, where="_df_to_flodym_array.py", what=ast.unparse(n)[:80])
    for n in hits:
        fn = next((f for f in prog.all_functions() if f.module == "_df_to_flodym_array.py" and f.node.lineno <= n.lineno <= (f.node.end_lineno or 10 ** 9)), None)
        rep.add(Finding("C11", rid, "_df_to_flodym_array.py", fn.qual if fn else "module", n,
                        f"`{ast.unparse(n)[:70]}`: item positions are cast to a sized integer narrower than the index type; positions beyond its range wrap "
                        f"around and values are placed under wrong labels", line=n.lineno))
    if len(narrow_casts(ast.parse("fill = df.values.T.astype(np.int16)\n"))) != 1:
        raise AnalysisError("C11 index-width rule no longer recognises its positive control")


def run(prog, rep):
    rep.rule("C11.to_df-lists-every-entry", "to_df lists every entry once under its true labels; sparse: exactly the non-zero entries")
    rep.rule("C11.roundtrip-identical", "from_df(to_df(x) in any layout, permuted / re-headed / via CSV) is x")
    rep.rule("C11.wide-layout-of-1d-array", "to_df(dim_to_columns=d) works for a 1-dimensional array")
    rep.rule("C11.csv-text-of-mixed-type-items", "the CSV round trip also holds for a dimension whose items mix text and numbers")
    for c, m in (("FlodymArray", "to_df"), ("FlodymArray", "from_df"), ("FlodymArray", "set_values_from_df")):
        prog.method(c, m)
    prog.cls("DataFrameToFlodymDataConverter")
    arrays = ARRAYS_QUICK if rep.tier == "quick" else ARRAYS_THOROUGH
    jobs = [("to_df", l, rep.tier) for l in arrays] + [("rt", l, rep.tier) for l in arrays] + [("hist", l, rep.tier) for l in arrays] + [("same-items", ("o", "d"), rep.tier)]
    fails = {}
    for part in pmap(_worker, jobs, prog, rep):
        for k, (count, inp, msg) in part.items():
            c = fails.get(k)
            fails[k] = (c[0] + count, c[1], c[2]) if c else (count, inp, msg)
    index_width(prog, rep)
    for (rule, qual), (count, inp, msg) in sorted(fails.items()):
        module, line, sig = _locate(prog, qual)
        rep.add(Finding("C11", rule, module, qual, sig, f"{msg} [{count} case(s)]", line=line, abstract_input=inp))
    rep.rules["C11.roundtrip-identical"]["floor"] = 300
    rep.rules["C11.to_df-lists-every-entry"]["floor"] = 30
    rep.exhaustive = True
    rep.assumptions += [
        "pandas model (fdv/pdmodel.py): MultiIndex.from_product is the cartesian product in order; reset_index turns index levels into leading "
        "columns (unnamed levels -> 'index' / 'level_i'); pivot sorts index and column labels and fails on an empty index list; melt stacks the "
        "value columns in the given order; Series.map with a dict gives NaN for unknown keys; read_csv returns all columns with a RangeIndex and "
        "infers int / float / str per column; np.setdiff1d stringifies mixed str/int input",
        "cell values are distinct symbols: 'identical array' is exact equality of every entry, for all real values",
    ]


DF = "_df_to_flodym_array.py"
FA = "flodym_arrays.py"
MUTANTS = [
    {"name": "D21-sparse-items-through-np.array", "path": FA, "find": "return pd.Index(dim.items)[ids]", "replace": "return np.array(dim.items)[ids]"},
    {"name": "D14-index-cast-int16", "path": DF, "find": ".T.astype(np.intp)", "replace": ".T.astype(np.int16)"},
    {"name": "D18-value-columns-by-setdiff1d", "path": DF, "find": "value_cols = [c for c in self.df.columns if c not in self.dim_columns]", "replace": "value_cols = np.setdiff1d(list(self.df.columns), self.dim_columns)"},
    {"name": "sort-columns-dropped", "path": DF, "find": "        self._sort_columns()\n", "replace": ""},
    {"name": "to_df-ravel-memory-order", "path": FA, 'find': 'df = pd.DataFrame({"value": self.values.flatten()})\n            df = df.set_index(multiindex)\n        if dim_to_columns',
     "replace": 'df = pd.DataFrame({"value": self.values.ravel(order="K")})\n            df = df.set_index(multiindex)\n        if dim_to_columns'},
    {"name": "to_df-product-over-reversed-dims", "path": FA, "find": "                [d.items for d in self.dims], names=self.dims.names", "replace": "                [d.items for d in reversed(list(self.dims))], names=tuple(reversed(self.dims.names))"},
    {"name": "sparse-keeps-zero-rows", "path": FA, "find": "            non_zero_ids = np.nonzero(self.values)", "replace": "            non_zero_ids = np.nonzero(self.values + 1)", "expect": "kill"},
    {"name": "item-positions-from-sorted-items", "path": DF, "find": "self.df[dim.name].map({item: i for i, item in enumerate(dim.items)})", "replace": "self.df[dim.name].map({item: i for i, item in enumerate(sorted(dim.items))})"},
    {"name": "melt-uses-column-order-of-frame", "path": DF, "find": "            value_vars=value_cols,\n", "replace": "            value_vars=[c for c in self.df.columns if c in value_cols],\n", "expect": "survive"},
    {"name": "letters-not-renamed-to-names", "path": DF, "find": "                self.df.rename(columns={c: self.flodym_array.dims[c].name}, inplace=True)\n", "replace": "                pass\n", "expect": "survive"},
    {"name": "single-item-dimension-not-filled-in", "path": DF, "find": "            if len(self.flodym_array.dims[c].items) == 1:", "replace": "            if False:"},
    {"name": "consecutive-int-offset-shortcut", "path": DF,
     "find": "            self.df[dim.name] = self.df[dim.name].map({item: i for i, item in enumerate(dim.items)})",
     "replace": "            if dim.dtype is int and dim.items[-1] - dim.items[0] == len(dim.items) - 1:\n                self.df[dim.name] = self.df[dim.name] - dim.items[0]\n            else:\n                self.df[dim.name] = self.df[dim.name].map({item: i for i, item in enumerate(dim.items)})"},
]
