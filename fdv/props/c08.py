"""C08 - survival tables are valid and equal the declared lifetime distribution."""
from __future__ import annotations

import ast
from fractions import Fraction

from ..core import AnalysisError, Finding
from .. import stockcases as SC
from ._stk import run_stock_property, ASSUMPTIONS

LEVEL = "other"
ENGINE = "fdv-symbolic-grid-evaluator"
EXPLANATION = (
    "(a) The Gauss-Lobatto tables in gauss_lobatto.py are read from the AST as exact decimals and all 10 rules are checked in "
    "rational arithmetic: n nodes/weights, nodes increasing and antisymmetric, endpoints -1/+1, weights positive and symmetric, "
    "sum 2, exact integration of x^k for every k <= 2n-3, each within 1e-14 (exhaustive). (b) The repository's lifetime code (AST) "
    "is evaluated on small grids with ALL numbers symbolic and the scipy survival functions as uninterpreted function symbols, for "
    "all five distributions, parameters given as a number / per cohort and label / per label (also in reversed order) / per "
    "cohort / in permuted dimension order, via constructor and set_prms, inflow_at start/middle/end and 2..10 quadrature points: "
    "the survival table must equal, entry by entry and exactly, the documented quadrature average of the named distribution's "
    "survival function (scipy parametrisation; log-normal from its own mean and standard deviation) at age = end of year t minus "
    "inflow instant, with the parameters of that cohort and label; it must be zero for cohorts later than the year; the "
    "outflow-probability table must be the negative differences of the survival table and survival + cumulative outflow "
    "probability must be identically 1. Monotonicity and [0,1] then follow from scipy's survival functions (not decided). "
    "Also after re-parametrisation of a model whose tables had been read, with quadrature settings assigned as attributes, and on an equidistant grid (where 'all intervals equal' shortcuts are taken).")
TECHNIQUE = "static analysis: exact table check on AST constants + abstract interpretation of the lifetime code over symbolic rational forms with uninterpreted distribution symbols"


def dec(node) -> Fraction:
    if isinstance(node, ast.UnaryOp) and isinstance(node.op, ast.USub):
        return -dec(node.operand)
    if isinstance(node, ast.Constant) and isinstance(node.value, (int, float)):
        return Fraction(repr(node.value)) if isinstance(node.value, float) else Fraction(node.value)
    raise AnalysisError(f"non-literal entry in a quadrature table: {ast.unparse(node)}")


def read_table(prog, name):
    mi = prog.modules.get("gauss_lobatto.py")
    if mi is None or name not in mi.consts or not isinstance(mi.consts[name], ast.Dict):
        raise AnalysisError(f"literal table {name} not found in gauss_lobatto.py")
    d = mi.consts[name]
    out = {}
    for k, v in zip(d.keys, d.values):
        if not isinstance(v, (ast.List, ast.Tuple)):
            raise AnalysisError(f"{name}[{ast.unparse(k)}] is not a literal list")
        out[ast.literal_eval(k)] = ([dec(e) for e in v.elts], v.lineno)
    return out


def quadrature_tables(prog, rep):
    rid = rep.rule("C08.quadrature-table", "each of the 10 Gauss-Lobatto rules is the n-point rule: structure + exactness to degree 2n-3", floor=10)
    nodes, weights = read_table(prog, "gl_nodes"), read_table(prog, "gl_weights")
    TOL = Fraction(1, 10 ** 14)
    for n in range(1, 11):
        if n not in nodes or n not in weights:
            rep.oblige(rid, False, where="gauss_lobatto.py", what=f"n={n}")
            rep.add(Finding("C08", rid, "gauss_lobatto.py", "gl_nodes", f"gl_nodes[{n}]", f"no {n}-point rule in the tables (1..10 are documented)"))
            continue
        (x, ln), (w, lw) = nodes[n], weights[n]
        probs = []
        if len(x) != n or len(w) != n:
            probs.append(f"{len(x)} nodes / {len(w)} weights for the {n}-point rule")
        else:
            if any(x[i] >= x[i + 1] for i in range(n - 1)):
                probs.append("nodes are not strictly increasing")
            if any(abs(x[i] + x[n - 1 - i]) > TOL for i in range(n)):
                probs.append("nodes are not antisymmetric")
            if n >= 2 and (x[0] != -1 or x[-1] != 1):
                probs.append("end nodes are not -1 and +1")
            if any(wi <= 0 for wi in w):
                probs.append("a weight is not positive")
            if any(abs(w[i] - w[n - 1 - i]) > TOL for i in range(n)):
                probs.append("weights are not symmetric")
            if abs(sum(w) - 2) > TOL:
                probs.append(f"weights sum to {float(sum(w))!r}, not 2")
            top = max(2 * n - 3, 1) if n >= 2 else 1
            for k in range(0, top + 1):
                exact = Fraction(2, k + 1) if k % 2 == 0 else Fraction(0)
                got = sum(wi * xi ** k for wi, xi in zip(w, x))
                if abs(got - exact) > TOL:
                    probs.append(f"does not integrate x^{k} exactly (error {float(got - exact):.3e})")
                    break
        rep.oblige(rid, not probs, where="gauss_lobatto.py", what=f"{n}-point rule", sample={"rule": rid, "n": n, "nodes": [str(v) for v in x[:3]], "verdict": "ok" if not probs else "VIOLATED"})
        if probs:
            rep.add(Finding("C08", rid, "gauss_lobatto.py", f"{n}-point rule", f"gl_nodes[{n}] / gl_weights[{n}]",
                            f"the {n}-point entry is not the Gauss-Lobatto rule: " + "; ".join(probs), line=ln, abstract_input={"n": n}))


def run(prog, rep):
    rep.rule("C08.table-equals-distribution", "survival table = documented quadrature average of the named distribution at the documented ages, per cohort and label")
    rep.rule("C08.table-validity", "zero for cohorts later than the year; outflow probabilities = negative differences; survival + cumulative outflow = 1")
    quadrature_tables(prog, rep)
    for c in SC.DISTS:
        prog.cls(c)
    prog.method("LifetimeModel", "sf")
    prog.method("LifetimeModel", "pdf")
    jobs = [("tables", cfg) for cfg in SC.table_configs(rep.tier)]
    run_stock_property(prog, rep, "C08", jobs, {"sf-oracle": "C08.table-equals-distribution", "pdf-oracle": "C08.table-validity", "sf-valid": "C08.table-validity"})
    rep.rules["C08.table-equals-distribution"]["floor"] = 60
    rep.exhaustive = True
    rep.assumptions += ASSUMPTIONS + ["scipy parametrisation: norm(loc,scale), foldnorm(c,loc,scale) with c = mean/std, lognorm(s,loc,scale) with scale = exp(mu), weibull_min(c,loc,scale)"]


LM = "lifetime_models.py"
GL = "gauss_lobatto.py"
MUTANTS = [
    {"name": "gl-digit-transposition-n9", "path": GL, "find": "0.67718627951073762", "replace": "0.67178627951073762", "count": 2},
    {"name": "gl-weight-n4", "path": GL, "find": "0.8333333333333333", "replace": "0.8333333333334333", "count": 2},
    {"name": "ages-from-start-of-year", "path": LM, "find": "return self._tile(self._t.bounds[m + 1 :] - t)", "replace": "return self._tile(self._t.bounds[m:-1] - t)"},
    {"name": "eta-weights-swapped", "path": LM, "find": "t = eta * self._t.bounds[m + 1] + (1 - eta) * self._t.bounds[m]", "replace": "t = (1 - eta) * self._t.bounds[m + 1] + eta * self._t.bounds[m]"},
    {"name": "quad-nodes-not-mapped", "path": LM, "find": "nodes = [(x + 1) / 2 for x in gl_nodes[self.n_pts_per_interval]]", "replace": "nodes = [x for x in gl_nodes[self.n_pts_per_interval]]"},
    {"name": "middle-is-start", "path": LM, "find": "                return [0.5], [1]", "replace": "                return [0.0], [1]"},
    {"name": "params-by-year-not-cohort", "path": LM, "find": "            loc=self.mean[m, ...],\n            scale=self.std[m, ...],", "replace": "            loc=self.mean,\n            scale=self.std,"},
    {"name": "foldnorm-shape-is-mean", "path": LM, "find": "            self.mean[m, ...] / self.std[m, ...],\n            0,", "replace": "            self.mean[m, ...],\n            0,"},
    {"name": "lognormal-wrong-sigma", "path": LM, "find": "new_std = np.sqrt(np.log(1 + std_square / mean_square))", "replace": "new_std = np.sqrt(np.log(1 + std_square / mean_square**2))"},
    {"name": "weibull-params-swapped", "path": LM, "find": "            c=self.weibull_shape[m, ...],\n            loc=0,\n            scale=self.weibull_scale[m, ...],",
     "replace": "            c=self.weibull_scale[m, ...],\n            loc=0,\n            scale=self.weibull_shape[m, ...],"},
    {"name": "pdf-diagonal-missing", "path": LM, "find": "        self._pdf[t_diag_indices] = 1.0 - np.moveaxis(self.sf.diagonal(0, 0, 1), -1, 0)\n", "replace": ""},
    {"name": "pdf-sign", "path": LM, "find": "= -1 * np.diff(self.sf[m:, m, ...], axis=0)", "replace": "= np.diff(self.sf[m:, m, ...], axis=0)"},
    {"name": "param-broadcast-not-cast", "path": LM, "find": "            prm_out = prm_in.cast_to(target_dims=self.dims).values",
     "replace": "            prm_out = np.ndarray(self.shape)\n            prm_out[...] = prm_in.values"},
    {"name": "fixed-lifetime-le", "path": LM, "find": "return (t < self.mean[m, ...]).astype(int)", "replace": "return (t <= self.mean[m, ...]).astype(int)"},
]
