"""C07 - summing, casting and shares conserve totals and act by label."""
from __future__ import annotations

from .. import arrays as AR
from ._arr import run_array_property, ASSUMPTIONS

LEVEL = "other"
EXPLANATION = (
    "Abstract interpretation of sum_to / sum_over / sum_values_to / sum_values_over / sum_values / cast_to / cast_values_to / "
    "get_shares_over / cumsum on the labelled-tensor domain for every ordered dimension list over the alphabet, every ordered "
    "subset to keep / sum / add, with dimensions named by letter, by name, by Dimension object or mixed: result dims, axes and "
    "the symbolic entry must be the marginal sum by label in the requested order, the entry replicated along the added "
    "dimensions in the target's order, entry / (sum over the given dimensions), the running sum along the named dimension in "
    "item order; unknown dimensions and cast targets lacking a source dimension must be refused. The linear identities of the "
    "property (totals preserved, shares add to one) follow from these symbolic entries; their floating-point evaluation is not decided."
    " Also evaluated in a world in which all dimensions carry one name (only letters identify them) and with Dimension objects that are equal to, but not the same objects as, the array's own."
)
TECHNIQUE = "static analysis: abstract interpretation of the reduction/cast methods' AST on a labelled-tensor domain, exhaustive over dimension lists and subsets"


def family(prog, name, tier, taint_mode):
    alpha = "abc" if tier == "quick" else "abcd"
    if name == "reduce":
        return AR.reduce_cases(prog, alpha, None, taint_mode)
    raise KeyError(name)


def run(prog, rep):
    rep.rule("C07.by-label", "sums / casts / shares / cumsum return the documented dims, axes and entry")
    rep.rule("C07.refusals", "unknown dimensions and cast targets lacking a source dimension are refused")
    aspects = {("sum", "result"): "C07.by-label", ("cast", "result"): "C07.by-label", ("shares", "result"): "C07.by-label",
               ("cumsum", "result"): "C07.by-label", ("sum", "raises"): "C07.refusals", ("cast", "raises"): "C07.refusals",
               ("shares", "raises"): "C07.refusals", ("cumsum", "raises"): "C07.refusals"}
    for a in ("sum_to", "sum_over", "cast_to", "cast_values_to", "get_shares_over", "cumsum"):
        prog.method("FlodymArray", a)
    run_array_property(prog, rep, "C07", ["reduce", "reduce@uniform", "reduce@uniform+samenames"], aspects)
    rep.rules["C07.by-label"]["floor"] = 500
    rep.rules["C07.refusals"]["floor"] = 60
    if rep.exhaustive is None:
        rep.exhaustive = True
    rep.assumptions += ASSUMPTIONS


FA = "flodym_arrays.py"
MUTANTS = [
    {"name": "cast-without-reorder", "path": FA,
     "find": "        values = np.einsum(\n            f\"{self.dims.string}->{''.join([d for d in target_dims.letters if d in self.dims.letters])}\",\n            self.values,\n        )\n",
     "replace": "        values = self.values\n"},
    {"name": "cast-tile-multiples-over-self-dims", "path": FA,
     "find": "multiple = tuple([1 if d.letter in self.dims.letters else d.len for d in target_dims])",
     "replace": "multiple = tuple([1 if d.letter in target_dims.letters else d.len for d in self.dims])"},
    {"name": "sum_to-dims-in-array-order", "path": FA,
     "find": "        return FlodymArray(\n            dims=self.dims.get_subset(result_dims),\n            values=self.sum_values_to(result_dims),",
     "replace": "        return FlodymArray(\n            dims=self.dims.get_subset(tuple(l for l in self.dims.letters if l in result_dims)),\n            values=self.sum_values_to(result_dims),"},
    {"name": "cumsum-literal-axis", "path": FA, "find": "        i_axis = self.dims.letters.index(dim_letter)", "replace": "        i_axis = 0"},
    {"name": "shares-divide-by-total", "path": FA, "find": "        return self / self.sum_over(sum_over_dims=dim_letters)", "replace": "        return self / self.sum_values()"},
    {"name": "sum_over-keeps-summed", "path": FA, "find": "result_dims = tuple([d for d in self.dims.letters if d not in sum_over_dims])\n        return FlodymArray(",
     "replace": "result_dims = tuple([d for d in self.dims.letters if d in sum_over_dims])\n        return FlodymArray("},
    {"name": "get_dim_letter-accepts-unknown", "path": FA,
     "find": "        else:\n            raise KeyError(f\"Dimension {dim} not found in FlodymArray dims.\")",
     "replace": "        else:\n            return dim"},
    {"name": "cast-transpose-inverse-permutation", "path": FA,
     "find": "        values = np.einsum(\n            f\"{self.dims.string}->{''.join([d for d in target_dims.letters if d in self.dims.letters])}\",\n            self.values,\n        )\n",
     "replace": "        order = [d for d in target_dims.letters if d in self.dims.letters]\n        values = np.transpose(self.values, [order.index(d) for d in self.dims.letters])\n"},
    {"name": "cast-transpose-correct (equivalent)", "path": FA,
     "find": "        values = np.einsum(\n            f\"{self.dims.string}->{''.join([d for d in target_dims.letters if d in self.dims.letters])}\",\n            self.values,\n        )\n",
     "replace": "        order = [d for d in target_dims.letters if d in self.dims.letters]\n        values = np.transpose(self.values, [self.dims.letters.index(d) for d in order])\n",
     "expect": "survive"},
]
