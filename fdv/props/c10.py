"""C10 - inflow-driven and stock-driven models are inverse; both solvers agree."""
from __future__ import annotations

import ast

from ..core import Finding, AnalysisError
from .. import stockcases as SC
from ._stk import run_stock_property, ASSUMPTIONS

LEVEL = "other"
ENGINE = "fdv-symbolic-grid-evaluator"
EXPLANATION = (
    "Bounded-grid symbolic evaluation (all numbers symbolic, survival entries as symbols - hence any lifetime model with "
    "non-vanishing first-interval survival, any spacing): the stock computed by the inflow-driven model is fed, as exact rational "
    "functions, into the stock-driven model with the same lifetime model; returned inflow, outflow and both cohort tables must "
    "equal the originals identically, for the 'manual' and the 'lapack' solver (the latter as exact forward substitution), and the "
    "two solvers must agree; conversely the inflow found for a generic prescribed stock drives an inflow-driven model back to that "
    "stock. Also: the solver names accepted by the validators are exactly the branches of the dispatch. Decides exact (real-number) "
    "inverse-ness on the enumerated grid shapes; floating-point agreement of the two solvers is not decided. "
    "Also the zero driver, column-major (non-contiguous) stock arrays, parameters varying along one label dimension only; solver names: the sets accepted by StockDrivenDSM and StockDefinition coincide, contain manual and lapack, and every accepted name computes (decided by evaluating every candidate literal).")
TECHNIQUE = "static analysis: abstract interpretation over exact symbolic rational forms (forward substitution on symbols) on bounded grids + dispatch exhaustiveness rule"


def dispatch_exhaustive(prog, rep):
    """the solver names accepted by the StockDrivenDSM validator and by StockDefinition are the same set, contain 'manual' and
    'lapack', and compute() runs for every accepted name (decided by evaluating constructor / validators / compute on a small
    grid for every candidate name: every string literal of stocks.py and mfa_definition.py plus a nonsense name)"""
    from ..stockworld import SW, make_lifetime
    from ..stockcases import build_stock
    from ..interp import Interp, run_guarded
    rid = rep.rule("C10.solver-dispatch", "solver names accepted by StockDrivenDSM = names accepted by StockDefinition >= {manual, lapack}; every accepted name computes", floor=4)
    cands = {"manual", "lapack", "no-such-solver", ""}
    for mod in ("stocks.py", "mfa_definition.py"):
        mi = prog.modules.get(mod)
        if mi is None:
            raise AnalysisError(f"module {mod} not found")
        for n in ast.walk(mi.tree):
            if isinstance(n, ast.Constant) and isinstance(n.value, str) and 0 < len(n.value) <= 12 and n.value.isidentifier():
                cands.add(n.value)
    sd_cls = prog.cls("StockDrivenDSM")
    accepted_sd, accepted_def, runs = set(), set(), set()
    for name in sorted(cands):
        sw = SW(prog, 3, ())

        def mk(name=name, sw=sw):
            lm, _, _ = make_lifetime(sw, "NormalLifetime", "number")
            return build_stock(sw, "StockDrivenDSM", lm, stock=sw.driver("st"), solver=name)
        kind, st = run_guarded(mk)
        if kind == "ok":
            accepted_sd.add(name)
            k2, r2 = run_guarded(lambda: sw.it.call_method(st, "compute"))
            if k2 == "ok":
                runs.add(name)
        it = Interp(prog)
        kd, d = run_guarded(lambda: it.construct(prog.cls("StockDefinition"), [], dict(name="s", dim_letters=("t",), subclass=sd_cls,
                                                                                         lifetime_model_class=prog.cls("NormalLifetime"), solver=name)))
        if kd == "ok":
            accepted_def.add(name)
    checks = [
        ("StockDrivenDSM solver validator", {"manual", "lapack"} <= accepted_sd, f"StockDrivenDSM accepts {sorted(accepted_sd)}; 'manual' and 'lapack' must be among them"),
        ("StockDefinition solver validator", accepted_def == accepted_sd, f"StockDefinition accepts solvers {sorted(accepted_def)} but StockDrivenDSM accepts {sorted(accepted_sd)}"),
        ("StockDrivenDSM._compute_cohorts_and_inflow", runs == accepted_sd, f"accepted solver name(s) {sorted(accepted_sd - runs)} cannot be computed (no branch of the dispatch)"),
        ("candidates", len(cands) >= 4, "no candidate names"),
    ]
    for where, ok, msg in checks:
        rep.oblige(rid, ok, where=where, what=f"candidates {len(cands)}: accepted by the model {sorted(accepted_sd)}, by the definition {sorted(accepted_def)}, computable {sorted(runs)}")
        if not ok:
            f = prog.method("StockDrivenDSM", "compute")
            rep.add(Finding("C10", rid, f.module, where, where, msg, line=f.node.lineno))


def run(prog, rep):
    rep.rule("C10.inverse", "stock-driven(model of inflow-driven stock) returns the original inflow, outflow and cohort tables")
    rep.rule("C10.converse", "inflow-driven(inflow found by stock-driven) reproduces the prescribed stock")
    rep.rule("C10.solvers-agree", "'manual' and 'lapack' give identical results")
    dispatch_exhaustive(prog, rep)
    jobs = [("stockdriven", dict(c, both_generic=True)) for c in SC.dsm_configs(rep.tier) if c["n_pts"] == 1 and c["n_t"] <= 4]
    jobs += [("stockdriven", c) for c in SC.dsm_configs(rep.tier) if c["n_pts"] == 2 and c["n_t"] == 3 and not c["labels"]]
    jobs += [("stockdriven", c) for c in SC.int_driver_configs(rep.tier) + SC.layout_configs(rep.tier)]
    jobs += [("stockdriven", dict(n_t=3, labels=(), dist=d, over="number", n_pts=n, inflow_at=ia, via_to_stock_type=True))
             for d in ("NormalLifetime", "FixedLifetime") for n, ia in ((1, "middle"), (1, "start"), (2, "middle"))]
    # fixed lifetimes that get SHORTER for later cohorts on the concrete yearly grid: an older cohort outlives a younger one, the survival
    # table has exact zeros that are not in age order (every cohort still survives its first interval)
    from fractions import Fraction as _F
    for means in ([_F(7, 2), _F(7, 2), _F(3, 2), _F(3, 2)], [_F(9, 2), _F(3, 2), _F(5, 2), _F(3, 2), _F(3, 2)]):
        jobs += [("stockdriven", dict(n_t=len(means), labels=(), dist="FixedLifetime", over="time", n_pts=1, inflow_at="middle", grid="unit", prm_values={"A": means}))]
    # inflow at the END of the period (the diagonal of the survival table is the share surviving an age of zero) and two points with it
    jobs += [("stockdriven", dict(n_t=3, labels=(), dist=d, over="number", n_pts=n, inflow_at="end", both_generic=True))
             for d in ("NormalLifetime", "LogNormalLifetime") for n in (1, 2)]
    jobs += [("zero", c) for c in SC.dsm_configs(rep.tier) if c["n_pts"] == 1 and c["n_t"] == 3 and len(c["labels"]) <= 1 and c["over"] in ("number", "all")]
    run_stock_property(prog, rep, "C10", jobs, {"inverse": "C10.inverse", "converse": "C10.converse", "solvers-agree": "C10.solvers-agree"})
    rep.rules["C10.inverse"]["floor"] = 40
    rep.exhaustive = True
    rep.assumptions += ASSUMPTIONS


ST = "stocks.py"
MUTANTS = [
    {"name": "manual-uses-row-above", "path": ST, "find": "            sf_ij = self.lifetime_model.sf[i, :i, ...]", "replace": "            sf_ij = self.lifetime_model.sf[i - 1, :i, ...]"},
    {"name": "manual-diagonal-hoisted-transposed", "path": ST, "find": "            sf_ii = self.lifetime_model.sf[i, i, ...]",
     "replace": "            sf_ii = self.lifetime_model.sf.diagonal().T[i, ...]"},
    {"name": "lapack-upper-triangular", "path": ST, "find": "sf[2 * slt + i], self.stock.values[slt + i], lower=True", "replace": "sf[2 * slt + i], self.stock.values[slt + i], lower=False"},
    {"name": "lapack-one-matrix-for-all-labels", "path": ST, "find": "                sf[2 * slt + i], self.stock.values[slt + i], lower=True", "replace": "                sf[2 * slt + (0,) * len(i)], self.stock.values[slt + i], lower=True"},
    {"name": "lapack-no-annual-conversion", "path": ST,
     "find": "                sf[2 * slt + i], self.stock.values[slt + i], lower=True\n            )\n        self.inflow.values[...] = self._to_annual(inflow_whole_period)",
     "replace": "                sf[2 * slt + i], self.stock.values[slt + i], lower=True\n            )\n        self.inflow.values[...] = inflow_whole_period"},
    {"name": "validator-accepts-extra-solver", "path": ST, "find": '        if self.solver not in ["manual", "lapack"]:\n            raise ValueError("Solver must be either \'manual\' or \'lapack\'.")\n        return self\n\n    def _check_needed_arrays(self):\n        super()._check_needed_arrays()\n        if np.allclose(self.stock.values',
     "replace": '        if self.solver not in ["manual", "lapack", "numpy"]:\n            raise ValueError("Solver must be either \'manual\' or \'lapack\'.")\n        return self\n\n    def _check_needed_arrays(self):\n        super()._check_needed_arrays()\n        if np.allclose(self.stock.values'},
    {"name": "D12-stock-driven-cohorts-from-annual-inflow", "path": ST,
     "find": '"c...,tc...->tc...", self._to_whole_period(self.inflow.values), self.lifetime_model.sf', "replace": '"c...,tc...->tc...", self.inflow.values, self.lifetime_model.sf'},
]
