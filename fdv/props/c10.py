"""C10 - inflow-driven and stock-driven models are inverse; both solvers agree."""
from __future__ import annotations

import ast

from ..core import Finding, AnalysisError
from .. import stockcases as SC
from ._stk import run_stock_property, ASSUMPTIONS

LEVEL = "other"
ENGINE = "fdv-symbolic-grid-evaluator"
EXPLANATION = (
    "Bounded-grid symbolic evaluation (all numbers symbolic, survival entries as symbols - hence any lifetime model with "
    "non-vanishing first-interval survival, any spacing): the stock computed by the inflow-driven model is fed, as exact rational "
    "functions, into the stock-driven model with the same lifetime model; returned inflow, outflow and both cohort tables must "
    "equal the originals identically, for the 'manual' and the 'lapack' solver (the latter as exact forward substitution), and the "
    "two solvers must agree; conversely the inflow found for a generic prescribed stock drives an inflow-driven model back to that "
    "stock. Also: the solver names accepted by the validators are exactly the branches of the dispatch. Decides exact (real-number) "
    "inverse-ness on the enumerated grid shapes; floating-point agreement of the two solvers is not decided.")
TECHNIQUE = "static analysis: abstract interpretation over exact symbolic rational forms (forward substitution on symbols) on bounded grids + dispatch exhaustiveness rule"


def dispatch_exhaustive(prog, rep):
    rid = rep.rule("C10.solver-dispatch", "solver names accepted by the validators = branches of the dispatch in _compute_cohorts_and_inflow", floor=2)

    def literals_in(fn, varname):
        out = set()
        for n in ast.walk(fn.node):
            if isinstance(n, ast.Compare) and any(varname in ast.unparse(x) for x in [n.left] + n.comparators):
                for c in [n.left] + n.comparators:
                    for e in ast.walk(c):
                        if isinstance(e, ast.Constant) and isinstance(e.value, str):
                            out.add(e.value)
        return out
    sd = prog.cls("StockDrivenDSM")
    disp, val_by_cls = set(), {}
    for cls_name in ("StockDrivenDSM", "StockDefinition"):
        for c in prog.mro(prog.cls(cls_name)):
            for f in c.methods.values():
                lits = literals_in(f, "solver")
                if not lits:
                    continue
                if f.validator_kind:
                    val_by_cls.setdefault(cls_name, set()).update(lits)
                elif cls_name == "StockDrivenDSM":
                    disp |= lits
    if not disp or set(val_by_cls) != {"StockDrivenDSM", "StockDefinition"}:
        raise AnalysisError("solver dispatch / validators not found (no comparison of `solver` with string literals)")
    for cls in ("StockDrivenDSM", "StockDefinition"):
        val = val_by_cls[cls]
        ok = val == disp and len(val) >= 1
        rep.oblige(rid, ok, where=f"{cls} solver validator", what=f"accepted {sorted(val)} / dispatched {sorted(disp)}")
        if not ok:
            f = next(m for c in prog.mro(prog.cls(cls)) for m in c.methods.values() if m.validator_kind and literals_in(m, "solver"))
            rep.add(Finding("C10", rid, f.module, f.qual, f"def {f.name}", f"{cls} accepts solvers {sorted(val)} but the stock-driven model dispatches on {sorted(disp)}", line=f.node.lineno))


def run(prog, rep):
    rep.rule("C10.inverse", "stock-driven(model of inflow-driven stock) returns the original inflow, outflow and cohort tables")
    rep.rule("C10.converse", "inflow-driven(inflow found by stock-driven) reproduces the prescribed stock")
    rep.rule("C10.solvers-agree", "'manual' and 'lapack' give identical results")
    dispatch_exhaustive(prog, rep)
    jobs = [("stockdriven", dict(c, both_generic=True)) for c in SC.dsm_configs(rep.tier) if c["n_pts"] == 1 and c["n_t"] <= 4]
    jobs += [("stockdriven", c) for c in SC.dsm_configs(rep.tier) if c["n_pts"] == 2 and c["n_t"] == 3 and not c["labels"]]
    jobs += [("stockdriven", c) for c in SC.int_driver_configs(rep.tier) + SC.layout_configs(rep.tier)]
    jobs += [("zero", c) for c in SC.dsm_configs(rep.tier) if c["n_pts"] == 1 and c["n_t"] == 3 and len(c["labels"]) <= 1 and c["over"] in ("number", "all")]
    run_stock_property(prog, rep, "C10", jobs, {"inverse": "C10.inverse", "converse": "C10.converse", "solvers-agree": "C10.solvers-agree"})
    rep.rules["C10.inverse"]["floor"] = 40
    rep.exhaustive = True
    rep.assumptions += ASSUMPTIONS


ST = "stocks.py"
MUTANTS = [
    {"name": "manual-uses-row-above", "path": ST, "find": "            sf_ij = self.lifetime_model.sf[i, :i, ...]", "replace": "            sf_ij = self.lifetime_model.sf[i - 1, :i, ...]"},
    {"name": "manual-diagonal-hoisted-transposed", "path": ST, "find": "            sf_ii = self.lifetime_model.sf[i, i, ...]",
     "replace": "            sf_ii = self.lifetime_model.sf.diagonal().T[i, ...]"},
    {"name": "lapack-upper-triangular", "path": ST, "find": "sf[2 * slt + i], self.stock.values[slt + i], lower=True", "replace": "sf[2 * slt + i], self.stock.values[slt + i], lower=False"},
    {"name": "lapack-one-matrix-for-all-labels", "path": ST, "find": "                sf[2 * slt + i], self.stock.values[slt + i], lower=True", "replace": "                sf[2 * slt + (0,) * len(i)], self.stock.values[slt + i], lower=True"},
    {"name": "lapack-no-annual-conversion", "path": ST,
     "find": "                sf[2 * slt + i], self.stock.values[slt + i], lower=True\n            )\n        self.inflow.values[...] = self._to_annual(inflow_whole_period)",
     "replace": "                sf[2 * slt + i], self.stock.values[slt + i], lower=True\n            )\n        self.inflow.values[...] = inflow_whole_period"},
    {"name": "validator-accepts-extra-solver", "path": ST, "find": '        if self.solver not in ["manual", "lapack"]:\n            raise ValueError("Solver must be either \'manual\' or \'lapack\'.")\n        return self\n\n    def _check_needed_arrays(self):\n        super()._check_needed_arrays()\n        if np.allclose(self.stock.values',
     "replace": '        if self.solver not in ["manual", "lapack", "numpy"]:\n            raise ValueError("Solver must be either \'manual\' or \'lapack\'.")\n        return self\n\n    def _check_needed_arrays(self):\n        super()._check_needed_arrays()\n        if np.allclose(self.stock.values'},
    {"name": "D12-stock-driven-cohorts-from-annual-inflow", "path": ST,
     "find": '"c...,tc...->tc...", self._to_whole_period(self.inflow.values), self.lifetime_model.sf', "replace": '"c...,tc...->tc...", self.inflow.values, self.lifetime_model.sf'},
]
