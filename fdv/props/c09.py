"""C09 - cohort tables add up to the totals and each cohort is conserved."""
from __future__ import annotations

from .. import stockcases as SC
from ._stk import run_stock_property, ASSUMPTIONS

LEVEL = "other"
ENGINE = "fdv-symbolic-grid-evaluator"
EXPLANATION = (
    "Same bounded-grid symbolic evaluation as C03 (all numbers symbolic, any spacing of the time items). After compute() of the "
    "inflow-driven and of the stock-driven model (both solvers) the exact identities of the property are checked: stock = sum over "
    "cohorts of get_stock_by_cohort(), outflow = sum over cohorts of get_outflow_by_cohort(); both tables identically zero for "
    "cohorts later than the year; every cohort's stock = its inflow rate x its interval length x its survival share; entered = still "
    "in stock + left so far (outflow rates x their interval lengths) for every cohort, label and year. 'Never increases for "
    "non-negative inflow' follows from the share identity and C08 (survival non-increasing with age), not decided separately. "
    "The identities are also checked on re-used objects (driver / parameters / quadrature setting changed between two compute() calls), for column-major (non-contiguous) stock arrays and on an equidistant grid.")
TECHNIQUE = "static analysis: abstract interpretation over exact symbolic rational forms on bounded grids; cohort identities as polynomial identities"


def run(prog, rep):
    rep.rule("C09.totals-are-cohort-sums", "stock / outflow equal the sums over the cohort axis of the two cohort tables")
    rep.rule("C09.zero-for-later-cohorts", "cohort tables vanish for cohorts later than the year")
    rep.rule("C09.cohort-share", "stock by cohort = inflow rate x interval length x survival share")
    rep.rule("C09.cohort-conservation", "entered = in stock + left so far, for every cohort")
    for c, m in (("DynamicStockModel", "get_stock_by_cohort"), ("DynamicStockModel", "get_outflow_by_cohort")):
        prog.method(c, m)
    jobs = [("inflow", c) for c in SC.dsm_configs(rep.tier)]
    jobs += [("stockdriven", dict(c, both_generic=True)) for c in SC.dsm_configs(rep.tier) if c["n_pts"] == 1 and c["n_t"] <= 4]
    jobs += [("stockdriven", c) for c in SC.int_driver_configs(rep.tier) + SC.layout_configs(rep.tier)]
    # the cohort identities also hold on a re-used object: driver / parameters / quadrature setting changed between two compute() calls
    for dist in ("NormalLifetime", "FixedLifetime"):
        cfg = dict(n_t=3, labels=("a",), dist=dist, over="all", n_pts=1, inflow_at="middle")
        for cls in ("InflowDrivenDSM", "StockDrivenDSM"):
            for solver in (("manual", "lapack") if cls == "StockDrivenDSM" else ("manual",)):
                hs = ("CQC", "QC", "CQDC", "CPC", "CDC", "CZC", "CZDC") if rep.tier == "thorough" else (("CQC", "CZDC") if dist == "FixedLifetime" else ("CQC", "QC", "CPC"))
                for h in hs:
                    jobs.append(("history", dict(cfg, solver=solver), cls, h))
    run_stock_property(prog, rep, "C09", jobs, {"cohort-sums": "C09.totals-are-cohort-sums", "cohort-zero-above": "C09.zero-for-later-cohorts",
                                                "cohort-share": "C09.cohort-share", "cohort-conservation": "C09.cohort-conservation"})
    rep.rules["C09.totals-are-cohort-sums"]["floor"] = 30
    rep.exhaustive = True
    rep.assumptions += ASSUMPTIONS


ST = "stocks.py"
MUTANTS = [
    {"name": "D12-stock-driven-cohorts-from-annual-inflow", "path": ST,
     "find": '"c...,tc...->tc...", self._to_whole_period(self.inflow.values), self.lifetime_model.sf', "replace": '"c...,tc...->tc...", self.inflow.values, self.lifetime_model.sf'},
    {"name": "D11-outflow-without-interval-conversion", "path": ST,
     "find": "        self._outflow_by_cohort = self._to_annual(outflow_by_cohort_per_period)\n", "replace": "        self._outflow_by_cohort = outflow_by_cohort_per_period\n"},
    {"name": "accessors-swapped", "path": ST, "find": '        """Outflow by cohort, i.e. the outflow of each production year at each time step."""\n        return self._outflow_by_cohort',
     "replace": '        """Outflow by cohort, i.e. the outflow of each production year at each time step."""\n        return self._stock_by_cohort'},
    {"name": "outflow-summed-over-time-axis", "path": ST, "find": "        self.outflow.values[...] = self._outflow_by_cohort.sum(axis=1)", "replace": "        self.outflow.values[...] = self._outflow_by_cohort.sum(axis=0)"},
    {"name": "stock-driven-cohorts-not-rebuilt", "path": ST,
     "find": '        self._stock_by_cohort = np.einsum(\n            "c...,tc...->tc...", self._to_whole_period(self.inflow.values), self.lifetime_model.sf\n        )', "replace": "        pass"},
    {"name": "cohort-einsum-transposed-table", "path": ST, "find": '"c...,tc...->tc...", inflow_per_period, self.lifetime_model.sf\n', "replace": '"c...,ct...->tc...", inflow_per_period, self.lifetime_model.sf\n'},
]
