"""C06 - indexing by item labels reads and writes exactly the addressed entries."""
from __future__ import annotations

from .. import arrays as AR
from .. import wherecases as WH
from ..core import Finding
from ..par import pmap
from ._arr import run_array_property, ASSUMPTIONS, _locate

LEVEL = "other"
EXPLANATION = (
    "Abstract interpretation of SubArrayHandler / __getitem__ / __setitem__ / split on the labelled-tensor domain for EVERY "
    "vector of per-dimension selector kinds {absent, single item, subset Dimension (permuted, proper), list of items} up to "
    "3 (quick) / 5 (thorough) dimensions, keys by letter and by name, tuple keys, and every ordered selection of 2-4 of 5 items: "
    "the NumPy index tuple the code assembles is evaluated by NumPy's documented indexing rule and the resulting axes and "
    "symbolic entries must be exactly the labelled region in the remaining dimensions' order and requested item order (lists "
    "combined as an outer product); reads with lists, slices, unknown items, ambiguous items and non-subset Dimensions must raise. "
    "items_where is evaluated on the exact array domain for 1-3 (4) dimensional arrays in every memory layout (axis permutation of "
    "the buffer) and six condition patterns; the reported rows must be the label tuples of exactly the entries meeting the condition.")
TECHNIQUE = "static analysis: abstract interpretation of the index-assembly code over an index-kind domain, exhaustive over selector kind-vectors"


def family(prog, name, tier, taint_mode):
    if name == "index":
        return AR.index_cases(prog, 3 if tier == "quick" else 5, taint_mode)
    if name == "orders":
        return AR.selection_order_cases(prog, "concrete")
    if name == "misc":
        return AR.misc_index_cases(prog, taint_mode)
    if name == "patterns":
        return AR.pattern_mix_cases(prog, "concrete")
    raise KeyError(name)


def _where_worker(prog, rep, job):
    fails = {}
    for j in job:
        case = WH.case_items_where(prog, *j)
        rep.evaluations += 1
        for aspect, ok, msg, qual in case.verdicts:
            rep.oblige("C06.items-where", ok, where=qual, what=str(case.inp), distinct=("C06.items-where", str(case.inp)))
            if not ok:
                c = fails.get(qual)
                fails[qual] = (c[0] + 1, c[1], c[2]) if c else (1, case.inp, msg)
    return fails


def run_where(prog, rep):
    rep.rule("C06.items-where", "items_where reports exactly the label tuples of the entries meeting the condition, for every memory layout of the values")
    prog.method("FlodymArray", "items_where")
    jobs = WH.where_jobs(rep.tier)
    fails = {}
    for part in pmap(_where_worker, [jobs[i::16] for i in range(16)], prog, rep):
        for q, (n, inp, msg) in part.items():
            c = fails.get(q)
            fails[q] = (c[0] + n, c[1], c[2]) if c else (n, inp, msg)
    for q, (n, inp, msg) in sorted(fails.items()):
        module, line, sig = _locate(prog, q)
        rep.add(Finding("C06", "C06.items-where", module, q, sig, f"{msg} [{n} configuration(s)]", line=line, abstract_input=inp))
    rep.rules["C06.items-where"]["floor"] = 150


def _exact_worker(prog, rep, job):
    fails = {}
    for j in job:
        case = WH.case_index_exact(prog, *j)
        rep.evaluations += 1
        for aspect, ok, msg, qual in case.verdicts:
            rep.oblige("C06.unusual-labels", ok, where=qual, what=str(case.inp), distinct=("C06.unusual-labels", str(case.inp)))
            if not ok:
                c = fails.get(qual)
                fails[qual] = (c[0] + 1, c[1], c[2]) if c else (1, case.inp, msg)
    return fails


def run_exact_index(prog, rep):
    rep.rule("C06.unusual-labels", "reads and writes by dict / tuple / item keys address exactly the labelled entries also when two dimensions hold the same items, "
                                   "labels are 0 or the empty string, or items are typed numbers (a label that is not an item is refused)")
    jobs = WH.index_exact_jobs(rep.tier)
    fails = {}
    for part in pmap(_exact_worker, [jobs[i::16] for i in range(16)], prog, rep):
        for q, (n, inp, msg) in part.items():
            c = fails.get(q)
            fails[q] = (c[0] + n, c[1], c[2]) if c else (n, inp, msg)
    for q, (n, inp, msg) in sorted(fails.items()):
        module, line, sig = _locate(prog, q)
        rep.add(Finding("C06", "C06.unusual-labels", module, q, sig, f"{msg} [{n} case(s)]", line=line, abstract_input=inp))
    rep.rules["C06.unusual-labels"]["floor"] = 90


def run(prog, rep):
    rep.rule("C06.read-region", "x[key] returns exactly the labelled entries, kept dimensions in order, requested item order")
    rep.rule("C06.write-region", "x[key] = v changes exactly the labelled entries")
    rep.rule("C06.refusals", "slices, unknown / ambiguous items, non-subset Dimensions, list reads are refused")
    rep.rule("C06.split", "split reports each part under its true item")
    aspects = {("getitem", "result"): "C06.read-region", ("setitem", "result"): "C06.write-region",
               ("getitem", "raises"): "C06.refusals", ("getitem-illformed", "raises"): "C06.refusals", ("setitem-illformed", "raises"): "C06.refusals",
               ("split", "result"): "C06.split", ("stack", "result"): "C06.write-region"}
    prog.cls("SubArrayHandler")
    prog.method("FlodymArray", "__getitem__")
    run_array_property(prog, rep, "C06", ["index", "orders", "misc", "patterns", "index@uniform", "misc@uniform"], aspects)
    run_where(prog, rep)
    run_exact_index(prog, rep)
    rep.rules["C06.read-region"]["floor"] = 85 if rep.tier == "quick" else 1000
    rep.rules["C06.write-region"]["floor"] = 85 if rep.tier == "quick" else 1365
    if rep.exhaustive is None:
        rep.exhaustive = True
    rep.extra["max_dims"] = 3 if rep.tier == "quick" else 5
    rep.assumptions += ASSUMPTIONS


FA = "flodym_arrays.py"
MUTANTS = [
    {"name": "items_where-columns-by-reversed-letters", "path": FA, "find": "            for i, letter in enumerate(self.dims.letters)\n        ]\n        return np.array(items).transpose()",
     "replace": "            for i, letter in enumerate(reversed(self.dims.letters))\n        ]\n        return np.array(items).transpose()"},
    {"name": "items_where-flat-search-in-memory-order", "path": FA, "find": "        indices = np.argwhere(condition(self.values))\n",
     "replace": "        mask = condition(self.values)\n        indices = np.array(np.unravel_index(np.flatnonzero(mask.ravel(order=\"K\")), mask.shape)).transpose()\n"},
    {"name": "items_where-condition-negated", "path": FA, "find": "        indices = np.argwhere(condition(self.values))\n", "replace": "        indices = np.argwhere(~condition(self.values))\n"},
    {"name": "D5-mesh-guard-counts-lists-only", "path": FA,
     "find": "        requires_conversion = n_lists > 0 and n_lists + n_ints > 1\n",
     "replace": "        requires_conversion = n_lists > 1\n"},
    {"name": "dims_out-keeps-single-selection", "path": FA,
     "find": "            elif not _is_iterable(value):\n                self.dims_out.drop(letter, inplace=True)", "replace": "            elif False:\n                pass"},
    {"name": "item-id-from-dims_out", "path": FA,
     "find": "        return self.flodym_array.dims[dim_letter].items.index(item_name)",
     "replace": "        return sorted(self.flodym_array.dims[dim_letter].items).index(item_name)"},
    {"name": "subset-items-in-parent-order", "path": FA,
     "find": "                    self._get_single_item_id(dim_letter, item) for item in item_or_items.items\n",
     "replace": "                    self._get_single_item_id(dim_letter, item) for item in self.flodym_array.dims[dim_letter].items if item in item_or_items.items\n"},
    {"name": "no-mesh-at-all", "path": FA, "find": "        self._convert_lists_to_meshgrid()\n\n    def _convert", "replace": "\n    def _convert"},
    {"name": "ambiguity-not-detected", "path": FA,
     "find": "                if key is not None:\n                    raise ValueError(\n                        f\"Ambiguous slicing",
     "replace": "                if False:\n                    raise ValueError(\n                        f\"Ambiguous slicing"},
    {"name": "slice-key-accepted", "path": FA, "find": "        if isinstance(item, slice):\n            raise ValueError(",
     "replace": "        if False:\n            raise ValueError(", "expect": "survive"},
    {"name": "non-subset-accepted", "path": FA, "find": "            if item_or_items.is_subset(self.flodym_array.dims[dim_letter]):", "replace": "            if True:", "expect": "survive"},
    {"name": "ids-position-by-letters-of-dims_out", "path": FA,
     "find": "        self._ids_all_dims[self.flodym_array.dims.index(dim_letter)] = items_ids",
     "replace": "        self._ids_all_dims[list(self.def_dict.keys()).index(dim_letter)] = items_ids"},
    {"name": "list-read-allowed", "path": FA, "find": "        if self.invalid_flodym_array:\n            raise ValueError(", "replace": "        if False:\n            raise ValueError(", "expect": "survive"},
]
