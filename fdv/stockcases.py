"""Judgements on the bounded-grid symbolic evaluation of the stock kernels (shared by C03 C08 C09 C10 C16 C17)."""
from __future__ import annotations

import itertools
import re

from .core import AnalysisError
from .interp import Obj, PyRaise, run_guarded, AnalysisAbort
from . import symnum as S
from .symnum import SArr, Rat, rat
from .stockworld import SW, DISTS, LABEL_SIZES, make_lifetime, expected_sf, expected_pdf, arr_eq, first_diff, values


class SCase:
    def __init__(self, family, qual, inp):
        self.family, self.qual, self.inp = family, qual, inp
        self.verdicts = []      # (aspect, ok, msg, qual)
        self.notes = []

    def v(self, aspect, ok, msg="", qual=None):
        self.verdicts.append((aspect, bool(ok), msg, qual or self.qual))


# ------------------------------------------------------------------ helpers on symbolic results
DRV = re.compile(r"^(in|st|out)\d*_(\d+(?:_\d+)*)$")


def driver_syms(arr: SArr):
    s = set()
    for x in arr.data:
        s |= x.symbols()
    return {n for n in s if DRV.match(n)}


def sym_time(n):
    return int(DRV.match(n).group(2).split("_")[0])


def sym_label(n):
    return tuple(int(x) for x in DRV.match(n).group(2).split("_")[1:])


def label_refs(name, labels):
    """label indices mentioned by a (possibly nested function-) symbol name: {'a': {0}, ...}"""
    out = {}
    for l in labels:
        for m in re.finditer(r"(?<![A-Za-z_])" + l + r"(\d+)(?![\w])", name):
            out.setdefault(l, set()).add(int(m.group(1)))
    return out


def check_linear(case, arr: SArr, drivers, what, qual):
    for idx, x in zip(arr.indices(), arr.data):
        if x.d.symbols() & drivers:
            case.v("linear", False, f"{what}{list(idx)} has the driver in a denominator: {str(x)[:140]}", qual)
            return
        for mono, c in x.n.t.items():
            deg = sum(p for n, p in mono if n in drivers)
            if deg != 1:
                case.v("linear", False, f"{what}{list(idx)} is not linear in the driver (a term of degree {deg}): {str(x)[:140]}", qual)
                return
    case.v("linear", True, "", qual)


def check_causal(case, arr: SArr, drivers, what, qual, cohort_axis=False):
    for idx, x in zip(arr.indices(), arr.data):
        t = idx[0]
        late = [n for n in x.symbols() & drivers if sym_time(n) > t]
        if late:
            case.v("causal", False, f"{what}{list(idx)} depends on the driver at a later time step ({sorted(late)[0]})", qual)
            return
    case.v("causal", True, "", qual)


def check_label_separate(case, arr: SArr, drivers, labels, what, qual, n_lead):
    for idx, x in zip(arr.indices(), arr.data):
        l = idx[n_lead:]
        for n in x.symbols():
            if n in drivers:
                if sym_label(n) != tuple(l):
                    case.v("label-separate", False, f"{what}{list(idx)} depends on the driver of another label combination ({n})", qual)
                    return
            else:
                refs = label_refs(n, labels)
                for k, lab in enumerate(labels):
                    if lab in refs and refs[lab] != {l[k]}:
                        case.v("label-separate", False, f"{what}{list(idx)} uses a lifetime parameter / table entry of another label: {n[:100]}", qual)
                        return
    case.v("label-separate", True, "", qual)


def zero_above_diagonal(arr: SArr):
    for idx, x in zip(arr.indices(), arr.data):
        if idx[1] > idx[0] and not x.is_zero():
            return f"entry {list(idx)} (cohort later than the year) is {str(x)[:100]}"
    return None


def sum_axis1(a: SArr):
    return S.reduce_sum(a, 1)


def cfg_desc(cfg):
    return {k: (list(v) if isinstance(v, tuple) else v) for k, v in cfg.items()}


def build_stock(sw: SW, cls_name, lm, **arrays):
    kw = dict(dims=sw.dims, time_letter="t", name="s")
    if lm is not None:
        kw["lifetime_model"] = lm
    for k, v in arrays.items():
        if k == "solver":
            kw["solver"] = v
        else:
            kw[k] = sw.stock_array(k, v)
    if sw.layout == "F":        # all three arrays are given, each a non-contiguous view
        for k in ("stock", "inflow", "outflow"):
            if k not in kw:
                kw[k] = sw.stock_array(k, None)
    return sw.it.construct(sw.prog.cls(cls_name), [], kw)


def results(st: Obj):
    out = {k: values(st.f[k]) for k in ("stock", "inflow", "outflow")}
    for k in ("_stock_by_cohort", "_outflow_by_cohort"):
        if isinstance(st.f.get(k), SArr):
            out[k] = st.f[k]
    return out


def copy_res(r):
    return {k: v.copy() for k, v in r.items()}


# ------------------------------------------------------------------ one configuration, all aspects
def case_tables(prog, cfg):
    """C08: survival / outflow-probability tables against the documented formula, and their validity identities"""
    sw = SW(prog, cfg["n_t"], cfg["labels"], grid=cfg.get("grid"))
    sw.prm_values = cfg.get("prm_values")
    sw.zero_prm = cfg.get("zero_prm")
    sw.layout = cfg.get("layout")
    dist = cfg["dist"]
    case = SCase("tables", f"{dist}._survival_by_year_id", cfg_desc(cfg))
    via = cfg.get("via", "set_prms")
    if via == "attributes":
        # the documented way to configure an existing model (howtos/06_stocks): built with the defaults, settings assigned, then parametrised
        def build():
            lm, prms, at = make_lifetime(sw, dist, cfg["over"], via="set_prms", set_params=False)
            sw.it.set_attr(lm, "inflow_at", cfg["inflow_at"], None)
            sw.it.set_attr(lm, "n_pts_per_interval", cfg["n_pts"], None)
            sw.it.call_method(lm, "set_prms", **prms)
            return lm, prms, at
        kind, r = run_guarded(build)
    else:
        kind, r = run_guarded(lambda: make_lifetime(sw, dist, cfg["over"], via="set_prms" if via == "set_prms-twice" else via, inflow_at=cfg["inflow_at"], n_pts=cfg["n_pts"]))
    if kind != "ok":
        case.v("sf-oracle", False, f"building the lifetime model ended with {kind}: {r}", "LifetimeModel.cast_any_to_np_array")
        return case
    lm, prms, at = r
    if via == "set_prms-twice":
        # history: the tables have been read for a first parameter set; then the model is re-parametrised
        run_guarded(lambda: sw.it.get_attr(lm, "sf"))
        run_guarded(lambda: sw.it.get_attr(lm, "pdf"))
        prms, at = {}, {}
        for nm in DISTS[dist]:
            prms[nm], at[nm] = sw.param(nm, cfg["over"], "B", sign="pos")
        kind, r = run_guarded(lambda: sw.it.call_method(lm, "set_prms", **prms))
        if kind != "ok":
            case.v("sf-oracle", False, f"set_prms on a model whose tables had been read ended with {kind}: {r}", "LifetimeModel.set_prms")
            return case
    kind, sf = run_guarded(lambda: sw.it.get_attr(lm, "sf"))
    if kind != "ok" or not isinstance(sf, SArr):
        case.v("sf-oracle", False, f"reading sf ended with {kind}: {sf}", "LifetimeModel.compute_survival_factor")
        return case
    exp = expected_sf(sw, dist, at, cfg["inflow_at"], cfg["n_pts"])
    d = first_diff(sf, exp)
    case.v("sf-oracle", d is None, f"survival table differs from <documented quadrature average of the {dist} survival function at "
                                   f"age = end of year - inflow instant, parameters of that cohort and label>: {d}", "LifetimeModel.compute_survival_factor")
    z = zero_above_diagonal(sf)
    case.v("sf-valid", z is None, f"survival table: {z}", "LifetimeModel.compute_survival_factor")
    kind, pdf = run_guarded(lambda: sw.it.get_attr(lm, "pdf"))
    if kind != "ok" or not isinstance(pdf, SArr):
        case.v("pdf-oracle", False, f"reading pdf ended with {kind}: {pdf}", "LifetimeModel.compute_outflow_pdf")
        return case
    d = first_diff(pdf, expected_pdf(sw, sf))
    case.v("pdf-oracle", d is None, f"outflow probabilities are not the negative differences of the survival table: {d}", "LifetimeModel.compute_outflow_pdf")
    z = zero_above_diagonal(pdf)
    bad = z
    if bad is None:     # survival + cumulative outflow probability = 1
        cum = S.cumsum(pdf, 0)
        for idx in sf.indices():
            if idx[0] >= idx[1] and not (sf.get(idx) + cum.get(idx) == rat(1)):
                bad = f"survival + cumulative outflow probability at {list(idx)} is {str(sf.get(idx) + cum.get(idx))[:100]}, not 1"
                break
    case.v("sf-valid", bad is None, f"outflow-probability table: {bad}", "LifetimeModel.compute_outflow_pdf")
    return case


def inflow_driven(sw, dist, cfg, drv="in"):
    lm, prms, at = make_lifetime(sw, dist, cfg["over"], inflow_at=cfg["inflow_at"], n_pts=cfg["n_pts"])
    st = build_stock(sw, "InflowDrivenDSM", lm, inflow=sw.driver(drv))
    sw.it.call_method(st, "compute")
    return st, lm, at


def case_inflow_driven(prog, cfg):
    sw = SW(prog, cfg["n_t"], cfg["labels"], grid=cfg.get("grid"))
    sw.prm_values = cfg.get("prm_values")
    sw.zero_prm = cfg.get("zero_prm")
    sw.layout = cfg.get("layout")
    sw.tiny_label = bool(cfg.get("tiny_label"))
    dist = cfg["dist"]
    case = SCase("inflow-driven", "InflowDrivenDSM.compute", cfg_desc(cfg))
    kind, r = run_guarded(lambda: inflow_driven(sw, dist, cfg))
    if kind != "ok":
        case.v("balance", False, f"compute() ended with {kind}: {r}")
        return case
    st, lm, at = r
    judge_stock(case, sw, st, "in", "InflowDrivenDSM")
    judge_cohorts(case, sw, st, lm, "InflowDrivenDSM")
    res = results(st)
    drivers = driver_syms(sw.driver("in"))
    for k, qual in (("stock", "InflowDrivenDSM._compute_stock"), ("outflow", "DynamicStockModel._compute_outflow"),
                    ("_stock_by_cohort", "InflowDrivenDSM._compute_stock"), ("_outflow_by_cohort", "DynamicStockModel._compute_outflow")):
        check_linear(case, res[k], drivers, k, qual)
        check_causal(case, res[k], drivers, k, qual)
        check_label_separate(case, res[k], drivers, sw.labels, k, qual, 2 if k.startswith("_") else 1)
    # unit impulse response: coefficient of in[c] in stock[t] is sf[t,c] * dt[c]
    sf = sw.it.get_attr(lm, "sf")
    dt = sw.dt()
    drv_in = sw.driver("in")
    ok, msg = True, ""
    for t in range(sw.n_t):
        for l in sw.label_indices():
            exp = rat(0)
            for c in range(sw.n_t):
                exp = exp + drv_in.get((c,) + l) * dt[c] * sf.get((t, c) + l)
            if not (res["stock"].get((t,) + l) == exp):
                ok, msg = False, f"stock{[t, *l]} is not the sum over cohorts of inflow rate x interval length x survival share"
    case.v("impulse", ok, msg, "InflowDrivenDSM._compute_stock")
    # calendar shift
    sw2 = SW(prog, cfg["n_t"], cfg["labels"], shift=Rat.sym("shift"), grid=cfg.get("grid"))
    sw2.prm_values = cfg.get("prm_values")
    sw2.layout = cfg.get("layout")
    sw2.tiny_label = sw.tiny_label
    sw2.zero_prm = sw.zero_prm
    kind, r2 = run_guarded(lambda: inflow_driven(sw2, dist, cfg))
    if kind == "ok":
        res2 = results(r2[0])
        bad = None
        for k in res:
            d = first_diff(res[k], res2[k])
            if d:
                bad = f"{k} changes when every time item is shifted by a constant: {d}"
                break
        case.v("shift-invariant", bad is None, bad or "", "UnevenTimeDim.compute_t_bounds")
    else:
        case.v("shift-invariant", False, f"shifted run ended with {kind}: {r2}", "UnevenTimeDim.compute_t_bounds")
    return case


def judge_stock(case, sw, st, drv, cls_name):
    """C03 on a computed stock object"""
    res = results(st)
    dt = sw.dt()
    kind, il = run_guarded(lambda: sw.it.get_attr(st.f["_t"], "interval_lengths"))
    ok = kind == "ok" and isinstance(il, SArr) and il.shape == (sw.n_t,) and all(a == b for a, b in zip(il.data, dt))
    case.v("dt-formula", ok, "interval lengths differ from the documented ones (bounds at the midpoints between consecutive time items, "
                             f"first and last interval mirroring their neighbour): got {il.data if kind == 'ok' and isinstance(il, SArr) else il}, "
                             f"documented {dt}", "UnevenTimeDim.compute_t_bounds")
    bad = None
    S_, I_, O_ = res["stock"], res["inflow"], res["outflow"]
    for idx in S_.indices():
        t = idx[0]
        prev = S_.get((t - 1,) + idx[1:]) if t > 0 else rat(0)
        lhs = S_.get(idx) - prev
        rhs = dt[t] * (I_.get(idx) - O_.get(idx))
        if not (lhs == rhs):
            bad = f"at {list(idx)}: stock change {str(lhs)[:120]} != dt*(inflow-outflow) {str(rhs)[:120]}"
            break
    case.v("balance", bad is None, f"{cls_name}: stock(t)-stock(t-1) = dt(t)*(inflow(t)-outflow(t)) is violated {bad}", f"{cls_name}.compute")
    kind, bal = run_guarded(lambda: sw.it.call_method(st, "get_stock_balance"))
    ok = kind == "ok" and isinstance(bal, SArr) and all(x.is_zero() for x in bal.data)
    case.v("self-check", ok, f"get_stock_balance() of a freshly computed {cls_name} is not identically zero "
                             f"({first_nonzero(bal) if kind == 'ok' and isinstance(bal, SArr) else bal})", "Stock.get_stock_balance")


def first_nonzero(a):
    for idx, x in zip(a.indices(), a.data):
        if not x.is_zero():
            return f"at {list(idx)}: {str(x)[:120]}"
    return None


def judge_cohorts(case, sw, st, lm, cls_name):
    """C09 on a computed dynamic stock model"""
    res = results(st)
    kind, sbc = run_guarded(lambda: sw.it.call_method(st, "get_stock_by_cohort"))
    kind2, obc = run_guarded(lambda: sw.it.call_method(st, "get_outflow_by_cohort"))
    if kind != "ok" or kind2 != "ok" or not isinstance(sbc, SArr) or not isinstance(obc, SArr):
        case.v("cohort-sums", False, f"cohort accessors ended with {kind}/{kind2}", f"{cls_name}.compute")
        return
    d = first_diff(res["stock"], sum_axis1(sbc))
    case.v("cohort-sums", d is None, f"{cls_name}: stock is not the sum over cohorts of the stock-by-cohort table: {d}", f"{cls_name}.compute")
    d = first_diff(res["outflow"], sum_axis1(obc))
    case.v("cohort-sums", d is None, f"{cls_name}: outflow is not the sum over cohorts of the outflow-by-cohort table: {d}", "DynamicStockModel._compute_outflow")
    z = zero_above_diagonal(sbc) or zero_above_diagonal(obc)
    case.v("cohort-zero-above", z is None, f"{cls_name}: cohort table {z}", f"{cls_name}.compute")
    sf = sw.it.get_attr(lm, "sf")
    dt = sw.dt()
    I_ = res["inflow"]
    bad = None
    for idx in sbc.indices():
        t, c, l = idx[0], idx[1], idx[2:]
        if c > t:
            continue
        if not (sbc.get(idx) == I_.get((c,) + l) * dt[c] * sf.get(idx)):
            bad = f"at {list(idx)}: {str(sbc.get(idx))[:100]} != inflow rate x interval length x survival share"
            break
    case.v("cohort-share", bad is None, f"{cls_name}: stock by cohort {bad}", f"{cls_name}.compute")
    bad = None
    for c in range(sw.n_t):
        for l in sw.label_indices():
            left = rat(0)
            for t in range(c, sw.n_t):
                left = left + obc.get((t, c) + l) * dt[t]
                if not (I_.get((c,) + l) * dt[c] == sbc.get((t, c) + l) + left):
                    bad = f"cohort {c}, label {list(l)}, year {t}: entered != still in stock + left so far"
                    break
            if bad:
                break
        if bad:
            break
    case.v("cohort-conservation", bad is None, f"{cls_name}: {bad}", "DynamicStockModel._compute_outflow")


def case_stock_driven(prog, cfg):
    """C10 (+C03/C09/C16 for the stock-driven model)"""
    sw = SW(prog, cfg["n_t"], cfg["labels"], grid=cfg.get("grid"))
    sw.prm_values = cfg.get("prm_values")
    sw.zero_prm = cfg.get("zero_prm")
    sw.layout = cfg.get("layout")
    sw.tiny_label = bool(cfg.get("tiny_label"))
    sw.cancel_first = bool(cfg.get("cancel_first"))
    dist = cfg["dist"]
    case = SCase("stock-driven", "StockDrivenDSM.compute", cfg_desc(cfg))
    kind, r = run_guarded(lambda: inflow_driven(sw, dist, cfg))
    if kind != "ok":
        case.v("inverse", False, f"inflow-driven compute() ended with {kind}: {r}", "InflowDrivenDSM.compute")
        return case
    st_id, lm, at = r
    res_id = copy_res(results(st_id))
    per_solver = {}
    for solver in ("manual", "lapack"):
        def sd(solver=solver):
            lm2, _, _ = make_lifetime(sw, dist, cfg["over"], inflow_at=cfg["inflow_at"], n_pts=cfg["n_pts"])
            s2 = build_stock(sw, "StockDrivenDSM", lm2, stock=res_id["stock"].copy(), solver=solver)
            sw.it.call_method(s2, "compute")
            return s2
        kind, s2 = run_guarded(sd)
        meth = f"StockDrivenDSM._compute_inflow_{solver}"
        if kind != "ok":
            case.v("inverse", False, f"stock-driven ({solver}) compute() on the stock of the inflow-driven model ended with {kind}: {s2}", meth)
            continue
        r2 = results(s2)
        per_solver[solver] = copy_res(r2)
        for k, what in (("inflow", "the original inflow"), ("outflow", "the same outflow"), ("_stock_by_cohort", "the same stock-by-cohort table"),
                        ("_outflow_by_cohort", "the same outflow-by-cohort table")):
            d = first_diff(r2[k], res_id[k])
            q = meth if k == "inflow" else ("StockDrivenDSM._compute_cohorts_and_inflow" if k == "_stock_by_cohort" else "DynamicStockModel._compute_outflow")
            case.v("inverse", d is None, f"feeding the inflow-driven stock into the stock-driven model ({solver}) does not return {what}: {d}", q)
    # the documented hand-over: the inflow-driven object converted with to_stock_type (same lifetime model, same settings)
    if cfg.get("via_to_stock_type"):
        for solver in ("manual", "lapack"):
            def conv(solver=solver):
                st0, _, _ = inflow_driven(sw, dist, cfg)
                s2 = sw.it.call_method(st0, "to_stock_type", sw.prog.cls("StockDrivenDSM"), solver=solver)
                sw.it.call_method(s2, "compute")
                return s2
            kind, s2 = run_guarded(conv)
            meth = "Stock.to_stock_type"
            if kind != "ok":
                case.v("inverse", False, f"to_stock_type(StockDrivenDSM, solver={solver!r}) + compute() ended with {kind}: {s2}", meth)
                continue
            r2 = results(s2)
            for k, what in (("inflow", "the original inflow"), ("outflow", "the same outflow"), ("_stock_by_cohort", "the same stock-by-cohort table")):
                d = first_diff(r2.get(k), res_id[k])
                case.v("inverse", d is None, f"inflow-driven model converted with to_stock_type to the stock-driven model ({solver}) does not return {what}: {d}", meth)
    if len(per_solver) == 2:
        bad = None
        for k in per_solver["manual"]:
            d = first_diff(per_solver["manual"][k], per_solver["lapack"][k])
            if d:
                bad = f"{k}: {d}"
                break
        case.v("solvers-agree", bad is None, f"'manual' and 'lapack' differ: {bad}", "StockDrivenDSM._compute_cohorts_and_inflow")
    # generic prescribed stock: C03 / C09 / C16 for the stock-driven model and the converse round trip
    for solver in (("manual", "lapack") if cfg.get("both_generic") else ("manual",)):
        def sdg(solver=solver):
            lm3, _, _ = make_lifetime(sw, dist, cfg["over"], inflow_at=cfg["inflow_at"], n_pts=cfg["n_pts"])
            s3 = build_stock(sw, "StockDrivenDSM", lm3, stock=sw.driver("st", dtype=cfg.get("driver_dtype", "float")), solver=solver)
            sw.it.call_method(s3, "compute")
            return s3, lm3
        kind, r3 = run_guarded(sdg)
        meth = f"StockDrivenDSM._compute_inflow_{solver}"
        if kind != "ok":
            case.v("balance", False, f"stock-driven ({solver}) compute() ended with {kind}: {r3}", meth)
            continue
        s3, lm3 = r3
        judge_stock(case, sw, s3, "st", "StockDrivenDSM")
        judge_cohorts(case, sw, s3, lm3, "StockDrivenDSM")
        res3 = results(s3)
        drivers = driver_syms(sw.driver("st"))
        for k, qual in (("inflow", meth), ("outflow", "DynamicStockModel._compute_outflow"),
                        ("_stock_by_cohort", "StockDrivenDSM._compute_cohorts_and_inflow"), ("_outflow_by_cohort", "DynamicStockModel._compute_outflow")):
            check_linear(case, res3[k], drivers, k, qual)
            check_causal(case, res3[k], drivers, k, qual)
            if not cfg.get("cancel_first"):      # the two labels are tied on purpose there
                check_label_separate(case, res3[k], drivers, sw.labels, k, qual, 2 if k.startswith("_") else 1)

        def back():
            lm4, _, _ = make_lifetime(sw, dist, cfg["over"], inflow_at=cfg["inflow_at"], n_pts=cfg["n_pts"])
            s4 = build_stock(sw, "InflowDrivenDSM", lm4, inflow=res3["inflow"].copy())
            sw.it.call_method(s4, "compute")
            return s4
        kind, s4 = run_guarded(back)
        if kind != "ok":
            case.v("converse", False, f"inflow-driven compute() on the inflow found by the stock-driven model ended with {kind}: {s4}", "InflowDrivenDSM.compute")
        else:
            d = first_diff(results(s4)["stock"], sw.driver("st"))
            case.v("converse", d is None, f"driving an inflow-driven model with the inflow found by the stock-driven model ({solver}) does not "
                                          f"reproduce the prescribed stock: {d}", meth)
    return case


def case_zero_roundtrip(prog, cfg):
    """C10 at the zero driver: the round trip must return zero flows AND the (zero) cohort tables, like for any other driver"""
    sw = SW(prog, cfg["n_t"], cfg["labels"], grid=cfg.get("grid"))
    sw.prm_values = cfg.get("prm_values")
    sw.zero_prm = cfg.get("zero_prm")
    sw.layout = cfg.get("layout")
    dist = cfg["dist"]
    case = SCase("zero-roundtrip", "StockDrivenDSM.compute", dict(cfg_desc(cfg), driver="identically zero"))
    zero = SArr.full(sw.shape, 0)
    tshape = (sw.n_t,) + tuple(sw.shape)
    for cls_name, drv, solvers in (("InflowDrivenDSM", "inflow", (None,)), ("StockDrivenDSM", "stock", ("manual", "lapack"))):
        for solver in solvers:
            def go():
                lm, _, _ = make_lifetime(sw, dist, cfg["over"], inflow_at=cfg["inflow_at"], n_pts=cfg["n_pts"])
                st = build_stock(sw, cls_name, lm, **{drv: zero.copy()}, **({"solver": solver} if solver else {}))
                sw.it.call_method(st, "compute")
                return st
            kind, st = run_guarded(go)
            qual = f"{cls_name}.compute"
            if kind != "ok":
                case.v("inverse", False, f"{cls_name} ({solver or 'n/a'}) compute() on a zero {drv} ended with {kind}: {st}", qual)
                continue
            for k in ("stock", "inflow", "outflow"):
                v = values(st.f[k])
                case.v("inverse", all(x.is_zero() for x in v.data), f"{cls_name} ({solver or 'n/a'}) on a zero {drv}: {k} is not zero ({first_nonzero(v)})", qual)
            for k in ("_stock_by_cohort", "_outflow_by_cohort"):
                t = st.f.get(k)
                ok = isinstance(t, SArr) and t.shape == tshape and all(x.is_zero() for x in t.data)
                case.v("inverse", ok, f"{cls_name} ({solver or 'n/a'}) on a zero {drv}: the {k.strip('_').replace('_', '-')} table is "
                                      f"{'not the zero table of shape ' + str(tshape) if isinstance(t, SArr) else 'not there (' + type(t).__name__ + ')'}; the round trip must "
                                      f"return the same cohort tables as the other model (zeros)", qual)
    return case


PERTURBATIONS = {
    # name -> list of (array, time index, amount): all amounts far beyond the threshold of 1
    "one-inflow-value": [("inflow", 1, 10)],
    "one-interior-stock-value": [("stock", 1, 10)],               # raises the change at t=1 and lowers it at t=2: the errors cancel over time
    "inflow-moved-between-steps": [("inflow", 0, 10), ("inflow", 2, -10)],
    "outflow-moved-between-steps": [("outflow", 1, 10), ("outflow", 2, -10)],
    "last-stock-value": [("stock", -1, -10)],
    "stock-value-by-4-on-a-ten-year-grid": [("stock", -1, 4)],      # beyond the threshold of 1, but below the interval length
}


def case_balance_check(prog, cfg):
    """C03: check_stock_balance accepts the computed stock (symbolic values: the balance is identically zero) and rejects it
    after its arrays were perturbed by 10 (threshold 1), also when the perturbation's errors cancel over time"""
    grid = "ten-year" if "ten-year" in cfg["perturbation"] else "unit"
    sw = SW(prog, cfg["n_t"], cfg["labels"], grid=grid)
    cls_name = cfg["cls"]
    case = SCase("balance-check", "Stock.check_stock_balance", dict(cfg_desc(cfg), grid=grid, perturbation=cfg["perturbation"]))

    def go():
        if cls_name == "SimpleFlowDrivenStock":
            st = build_stock(sw, cls_name, None, inflow=sw.driver("in"), outflow=sw.driver("out"))
        else:
            lm, _, _ = make_lifetime(sw, "NormalLifetime", "number")
            st = build_stock(sw, cls_name, lm, inflow=sw.driver("in"))
        sw.it.call_method(st, "compute")
        return st
    kind, st = run_guarded(go)
    if kind != "ok":
        return case
    qual = "Stock.check_stock_balance"
    if cfg["perturbation"] == "none":
        kind, r = run_guarded(lambda: sw.it.call_method(st, "check_stock_balance"))
        case.v("self-check", kind == "ok", f"check_stock_balance() refuses a freshly computed {cls_name} ({kind}: {getattr(r, 'msg', r)!s:.100})", qual)
        return case
    for arr, t, amount in PERTURBATIONS[cfg["perturbation"]]:
        v = values(st.f[arr])
        tt = t % sw.n_t
        for idx in v.indices():
            if idx[0] == tt and all(i == 0 for i in idx[1:]):
                v.set(idx, v.get(idx) + rat(amount))
    kind, r = run_guarded(lambda: sw.it.call_method(st, "check_stock_balance"))
    case.v("self-check", kind == "raise", f"check_stock_balance() accepts a {cls_name} whose arrays were perturbed by 10 ({cfg['perturbation']}); the threshold is 1", qual)
    return case


def case_failed_compute(prog, cfg):
    """C13 on stocks: a compute() that raises (here: scipy refusing a NaN in a later label's prescribed stock) leaves every array of
    the stock as it was.  Whether compute() raises at all is not demanded (the manual solver propagates the NaN)."""
    sw = SW(prog, cfg["n_t"], cfg["labels"], grid=cfg.get("grid"))
    sw.prm_values = cfg.get("prm_values")
    sw.zero_prm = cfg.get("zero_prm")
    sw.layout = cfg.get("layout")
    dist, solver = cfg["dist"], cfg["solver"]
    case = SCase("failed-compute", "StockDrivenDSM.compute", dict(cfg_desc(cfg), solver=solver,
                                                                   history=["compute()", "stock := new values with NaN at the LAST label", "compute()"]))
    def start():
        lm, _, _ = make_lifetime(sw, dist, cfg["over"], inflow_at=cfg["inflow_at"], n_pts=cfg["n_pts"])
        st = build_stock(sw, "StockDrivenDSM", lm, stock=sw.driver("st"), solver=solver)
        sw.it.call_method(st, "compute")
        return st
    kind, st = run_guarded(start)
    if kind != "ok":
        return case
    d2 = sw.driver("st2")
    nan = Rat.sym("nan")
    bad = d2.copy()
    for idx in bad.indices():
        if idx[1:] and idx[-1] == sw.shape[-1] - 1 and idx[0] == 1:
            bad.set(idx, nan)
    kind, r = run_guarded(lambda: sw.it.call_method(st.f["stock"], "__setitem__", Ellipsis, bad.copy()))
    if kind != "ok":
        return case
    before = {k: (st.f[k].f["values"], list(st.f[k].f["values"].data)) for k in ("stock", "inflow", "outflow")}
    tabs = {k: (st.f.get(k), list(st.f[k].data) if isinstance(st.f.get(k), SArr) else None) for k in ("_stock_by_cohort", "_outflow_by_cohort")}
    kind, r = run_guarded(lambda: sw.it.call_method(st, "compute"))
    if kind != "raise":
        return case
    changed = []
    for k, (obj, data) in before.items():
        v = st.f[k].f["values"]
        if v is not obj or any(not (x == y) for x, y in zip(v.data, data)):
            changed.append(k)
    for k, (obj, data) in tabs.items():
        v = st.f.get(k)
        if (v is not obj) or (isinstance(v, SArr) and any(not (x == y) for x, y in zip(v.data, data))):
            changed.append(k.strip("_"))
    case.v("atomic", not changed, f"compute() raised ({getattr(r, 'exc_name', '')}: {getattr(r, 'msg', '')[:60]}) but left {', '.join(changed)} changed: the "
                                  f"stock object is half-updated by a failed call")
    return case


def case_setting_failure(prog, cfg):
    """C17: a table read that FAILS because of an inadmissible setting (more quadrature points than the tables provide), the setting then
    corrected by assignment (the documented way to configure a model), compute(): the results are those of a stock built with the
    corrected setting - nothing of the failed read is kept"""
    sw = SW(prog, cfg["n_t"], cfg["labels"], grid=cfg.get("grid"))
    dist, which = cfg["dist"], cfg["read"]
    case = SCase("setting-failure", "InflowDrivenDSM.compute", dict(cfg_desc(cfg), history=[f"n_pts_per_interval = 12; read {which} (refused)", "n_pts_per_interval = 2", "compute()"]))

    def go():
        lm, _, _ = make_lifetime(sw, dist, cfg["over"], inflow_at="middle", n_pts=12)
        k, r = run_guarded(lambda: sw.it.get_attr(lm, which))
        if k != "raise":
            return None
        sw.it.set_attr(lm, "n_pts_per_interval", 2, None)
        st = build_stock(sw, "InflowDrivenDSM", lm, inflow=sw.driver("in"))
        sw.it.call_method(st, "compute")
        return copy_res(results(st))

    def ref():
        lm, _, _ = make_lifetime(sw, dist, cfg["over"], inflow_at="middle", n_pts=2)
        st = build_stock(sw, "InflowDrivenDSM", lm, inflow=sw.driver("in"))
        sw.it.call_method(st, "compute")
        return copy_res(results(st))
    kind, got = run_guarded(go)
    if kind == "ok" and got is None:
        return case         # the read was not refused: nothing to judge here
    kind2, want = run_guarded(ref)
    if kind2 != "ok":
        raise AnalysisAbort(f"reference object could not be computed: {want}")
    if kind != "ok":
        case.v("recompute", False, f"after the setting was corrected compute() ended with {kind}: {got}", f"LifetimeModel.{which}")
        return case
    bad = None
    for k in want:
        d = first_diff(got.get(k), want[k])
        if d:
            bad = f"{k}: {d}"
            break
    case.v("recompute", bad is None, f"after a refused read of {which} (inadmissible quadrature setting) and the correction of the setting, compute() gives other results than "
                                     f"a freshly built stock with the corrected setting - {bad}", f"LifetimeModel.{which}")
    return case


def case_simple(prog, cfg):
    sw = SW(prog, cfg["n_t"], cfg["labels"], grid=cfg.get("grid"))
    sw.prm_values = cfg.get("prm_values")
    sw.zero_prm = cfg.get("zero_prm")
    sw.layout = cfg.get("layout")
    case = SCase("flow-driven", "SimpleFlowDrivenStock.compute", cfg_desc(cfg))

    def go():
        st = build_stock(sw, "SimpleFlowDrivenStock", None, inflow=sw.driver("in"), outflow=sw.driver("out"))
        sw.it.call_method(st, "compute")
        return st
    kind, st = run_guarded(go)
    if kind != "ok":
        case.v("balance", False, f"compute() ended with {kind}: {st}")
        return case
    judge_stock(case, sw, st, "in", "SimpleFlowDrivenStock")
    res = results(st)
    drivers = driver_syms(sw.driver("in")) | driver_syms(sw.driver("out"))
    check_linear(case, res["stock"], drivers, "stock", "SimpleFlowDrivenStock.compute")
    check_causal(case, res["stock"], drivers, "stock", "SimpleFlowDrivenStock.compute")
    check_label_separate(case, res["stock"], drivers, sw.labels, "stock", "SimpleFlowDrivenStock.compute", 1)
    return case


# ------------------------------------------------------------------ histories (C17)
STEPS = {
    "C": "compute()", "P": "set_prms(B)", "D": "driver := second driver", "Z": "driver := 0", "R": "read sf and pdf",
    "U": "(parameters not set yet)", "N": "set_prms(negative mean)", "A": "set_prms(A)",
    "E": "set_prms(A perturbed by less than any tolerance)", "T": "driver := driver scaled below any tolerance",
    "Q": "lifetime_model.inflow_at assigned another value",
    "M": "set_prms(first parameter as before, the others new)",
    "I": "the parameter arrays passed last time edited in place (values of B), then set_prms(the same objects)",
}


def case_history(prog, cfg, cls_name, hist):
    """run a history of steps on ONE stock object; after every successful compute() all results must equal those of a
    freshly built object holding the same driver and parameters"""
    sw = SW(prog, cfg["n_t"], cfg["labels"], grid=cfg.get("grid"))
    sw.prm_values = cfg.get("prm_values")
    sw.zero_prm = cfg.get("zero_prm")
    sw.layout = cfg.get("layout")
    dist = cfg["dist"]
    qual = f"{cls_name}.compute"
    case = SCase("history", qual, dict(cfg_desc(cfg), stock_class=cls_name, history=[STEPS[h] for h in hist]))
    drv_name = {"InflowDrivenDSM": "inflow", "StockDrivenDSM": "stock", "SimpleFlowDrivenStock": "inflow"}[cls_name]
    dsm = cls_name != "SimpleFlowDrivenStock"
    extra = {"solver": cfg.get("solver", "manual")} if cls_name == "StockDrivenDSM" else {}

    def fresh(version, driver):
        lm = None
        if dsm and version == "A+eps":
            lm, _, _ = make_lifetime(sw, dist, cfg["over"], version="A", inflow_at=cfg["inflow_at"], n_pts=cfg["n_pts"], set_params=False)
            prms = {}
            eps = Rat.sym("eps", "pos")
            for nm in DISTS[dist]:
                base, _ = sw.param(nm, cfg["over"], "A")
                if isinstance(base, Obj):
                    base.f["values"] = S.elementwise(lambda x: x + eps, base.f["values"])
                    prms[nm] = base
                else:
                    prms[nm] = base + eps
            sw.it.call_method(lm, "set_prms", **prms)
        elif dsm and version == "mixed":
            lm, _, _ = make_lifetime(sw, dist, cfg["over"], version="A", inflow_at=cfg["inflow_at"], n_pts=cfg["n_pts"], set_params=False)
            prms = {nm: sw.param(nm, cfg["over"], "A" if j == 0 else "B")[0] for j, nm in enumerate(DISTS[dist])}
            sw.it.call_method(lm, "set_prms", **prms)
        elif dsm:
            lm, _, _ = make_lifetime(sw, dist, cfg.get("over2", cfg["over"]) if version == "B" else cfg["over"], version=version, inflow_at=cfg["inflow_at"], n_pts=cfg["n_pts"])
        arrays = {drv_name: driver.copy()}
        if not dsm:
            arrays["outflow"] = sw.driver("out")
        st = build_stock(sw, cls_name, lm, **arrays, **extra)
        sw.it.call_method(st, "compute")
        return copy_res(results(st))
    d1, d2 = sw.driver("in"), sw.driver("in2")
    zero = SArr.full(sw.shape, 0)
    unset = hist[:1] == "U"

    def start():
        lm = None
        if dsm:
            lm, _, _ = make_lifetime(sw, dist, cfg["over"], version="A", via=cfg.get("via", "set_prms"), inflow_at=cfg["inflow_at"], n_pts=cfg["n_pts"], set_params=not unset)
        arrays = {drv_name: d1.copy()}
        if not dsm:
            arrays["outflow"] = sw.driver("out")
        return build_stock(sw, cls_name, lm, **arrays, **extra), lm
    kind, r = run_guarded(start)
    if kind != "ok":
        case.v("recompute", False, f"building the stock ended with {kind}: {r}")
        return case
    st, lm = r
    version, driver = (None if unset else "A"), d1
    quadrature_changed = False
    last_prms = None
    for i, step in enumerate(hist):
        if step == "U":
            continue
        if step in ("P", "A", "N", "E", "M"):
            if not dsm:
                continue
            if step == "M" and len(DISTS[dist]) < 2:
                continue
            v = {"P": "B", "A": "A", "N": "Neg", "E": "A+eps", "M": "mixed"}[step]
            prms = {}
            for nm in DISTS[dist]:
                if step == "E":     # the same parameters perturbed by less than any tolerance: close, but different
                    base, _ = sw.param(nm, cfg["over"], "A")
                    eps = Rat.sym("eps", "pos")
                    if isinstance(base, Obj):
                        base.f["values"] = S.elementwise(lambda x: x + eps, base.f["values"])
                        prms[nm] = base
                    else:
                        prms[nm] = base + eps
                    continue
                if step == "M":         # only the second (third ...) parameter changes, the first keeps its value
                    prms[nm], _ = sw.param(nm, cfg["over"], "A" if nm == DISTS[dist][0] else "B")
                    continue
                prms[nm], _ = sw.param(nm, cfg.get("over2", cfg["over"]) if step == "P" else cfg["over"], v,
                                       sign=("neg" if (step == "N" and nm in ("mean", "weibull_shape")) else "pos"))
            if cfg.get("positional"):
                kind, r = run_guarded(lambda: sw.it.call_method(lm, "set_prms", *[prms[nm] for nm in DISTS[dist]]))
            else:
                kind, r = run_guarded(lambda: sw.it.call_method(lm, "set_prms", **prms))
            if kind != "ok":
                case.v("recompute", False, f"step {i} set_prms ended with {kind}: {r}", f"{dist}.set_prms")
                return case
            version = v
            last_prms = prms
        elif step == "I":
            # the parameter arrays handed over last time are edited IN PLACE (a sensitivity loop writing into mfa.parameters[...]) and the
            # very same objects are handed to set_prms again
            if not dsm or not last_prms or not all(isinstance(x, Obj) for x in last_prms.values()):
                continue
            for nm, arr in last_prms.items():
                newv, _ = sw.param(nm, cfg["over"], "B")
                k_, r_ = run_guarded(lambda: sw.it.call_method(arr, "__setitem__", Ellipsis, values(newv).copy()))
                if k_ != "ok":
                    raise AnalysisAbort(f"in-place edit of a parameter array failed: {r_}")
            kind, r = run_guarded(lambda: sw.it.call_method(lm, "set_prms", **last_prms))
            if kind != "ok":
                case.v("recompute", False, f"step {i} set_prms ended with {kind}: {r}", f"{dist}.set_prms")
                return case
            version = "B"
        elif step in ("D", "Z", "T"):
            driver = d2 if step == "D" else (zero if step == "Z" else S.elementwise(lambda x: x * Rat.sym("eps", "pos"), d2))
            arr = st.f[drv_name]
            kind, r = run_guarded(lambda: sw.it.call_method(arr, "__setitem__", Ellipsis, driver.copy()))
            if kind != "ok":
                case.v("recompute", False, f"step {i} setting the driver ended with {kind}: {r}")
                return case
        elif step == "Q":
            if dsm:
                # documented way to configure a model (howtos/06_stocks): assign the attribute.  Whether tables computed before
                # follow the new setting is not part of any property; that all results stay mutually consistent is.
                cur = sw.it.get_attr(lm, "inflow_at")
                run_guarded(lambda: sw.it.set_attr(lm, "inflow_at", "start" if cur != "start" else "end", None))
                quadrature_changed = True
        elif step == "R":
            if dsm:
                run_guarded(lambda: sw.it.get_attr(lm, "sf"))
                run_guarded(lambda: sw.it.get_attr(lm, "pdf"))
        elif step == "C":
            kind, r = run_guarded(lambda: sw.it.call_method(st, "compute"))
            must_fail = dsm and (version is None or (version == "Neg" and dist in ("NormalLifetime", "FoldedNormalLifetime", "WeibullLifetime")))
            if must_fail:
                case.v("recompute", kind == "raise", f"step {i}: compute() with {'unset' if version is None else 'inadmissible'} parameters "
                                                    f"did not raise (ended with {kind})")
                continue
            if version == "Neg" and dist == "FixedLifetime" and cls_name == "StockDrivenDSM":
                continue        # a fixed lifetime below zero: nothing survives its first interval, the stock-driven model divides by an exact
                #                 zero (inf / nan in NumPy): outside what the properties quantify over; later steps are judged again
            if kind != "ok":
                case.v("recompute", False, f"step {i}: compute() ended with {kind}: {r}")
                return case
            got = results(st)
            judge_stock(case, sw, st, drv_name, cls_name)
            if dsm:
                judge_cohorts(case, sw, st, lm, cls_name)
            if quadrature_changed:
                continue        # no reference object: which quadrature the tables follow is not decided here
            kind2, ref = run_guarded(lambda: fresh(version, driver))
            if kind2 != "ok":
                raise AnalysisAbort(f"reference object could not be computed: {ref}")
            bad = None
            for k in ref:
                d = first_diff(got.get(k), ref[k])
                if d:
                    bad = f"{k.strip('_')}: {d}"
                    break
            case.v("recompute", bad is None, f"after the history {[STEPS[h] for h in hist[:i + 1]]} the results differ from those of a freshly "
                                             f"built {cls_name} with the same driver and parameters - {bad}")
    return case


# ------------------------------------------------------------------ configuration spaces
def table_configs(tier):
    out = []
    grids = [(3, ()), (3, ("a",))] if tier == "quick" else [(3, ()), (3, ("a",)), (4, ("a", "b")), (5, ("a",))]
    for n_t, labels in grids:
        for dist in DISTS:
            overs = ["number", "all"] + (["labels", "labels-reversed", "all-permuted"] if labels else []) + ["time"]
            if labels:
                overs += ["ndarray-full", "ndarray-cohort-column", "ndarray-last-label"]
            for over in overs:
                quads = [(1, "start"), (1, "middle"), (1, "end"), (2, "middle"), (3, "middle")]
                if over in ("number", "all") and not labels:
                    quads += [(2, "start"), (3, "end")]      # documented: inflow_at is ignored with more than one point
                if tier == "thorough" and n_t == 3 and over in ("number", "all"):
                    quads += [(k, "middle") for k in range(4, 11)]
                if tier == "quick" and over not in ("number", "all"):
                    quads = [(1, "middle"), (2, "middle")]
                for n_pts, ia in quads:
                    vias = ("set_prms", "__init__", "set_prms-twice", "set_prms-positional") if over in ("number", "all") and n_pts == 1 and ia == "middle" else ("set_prms",)
                    if over == "number" and (n_pts, ia) in ((1, "start"), (1, "end"), (2, "middle")):
                        vias += ("attributes",)
                    for via in vias:
                        out.append(dict(n_t=n_t, labels=labels, dist=dist, over=over, n_pts=n_pts, inflow_at=ia, via=via))
    for dist in (DISTS if tier == "thorough" else ("NormalLifetime", "FixedLifetime")):
        # plain NumPy parameters with a length-one axis (keepdims style) next to two label dimensions
        for over in ("ndarray-first-label-keepdims", "ndarray-cohort-column", "ndarray-last-label"):
            out.append(dict(n_t=3, labels=("a", "b"), dist=dist, over=over, n_pts=1, inflow_at="middle", via="set_prms"))
    # a fixed lifetime that coincides EXACTLY with an age of the table (concrete yearly grid): sf(age) is 1 for age < mean, 0 from age == mean on
    from fractions import Fraction
    for mean, n_pts, ia in ((1, 1, "start"), (1, 1, "end"), (2, 1, "end"), (0, 1, "end"), (Fraction(3, 2), 1, "middle"), (Fraction(1, 2), 1, "middle"),
                            (1, 2, "middle"), (2, 3, "middle")):
        out.append(dict(n_t=4, labels=(), dist="FixedLifetime", over="number", n_pts=n_pts, inflow_at=ia, via="set_prms", grid="unit", prm_values={"A": mean}))
    if tier == "quick":
        for dist in DISTS:      # four time items: the smallest grid whose interval lengths differ
            out.append(dict(n_t=4, labels=(), dist=dist, over="number", n_pts=1, inflow_at="middle", via="set_prms"))
            out.append(dict(n_t=4, labels=(), dist=dist, over="time", n_pts=2, inflow_at="middle", via="set_prms"))
    # a parameter that is exactly zero for one label next to generic values for the others (a special case taken for one label must
    # not spill over to the others)
    for dist, prm in (("NormalLifetime", "std"),):      # (folded normal: mean / 0 is an infinity, not modelled)
        for over in ("labels", "all"):
            out.append(dict(n_t=3, labels=("a",), dist=dist, over=over, n_pts=1, inflow_at="middle", via="set_prms", zero_prm=prm))
    # an equidistant grid (x0, x0+h, ...): shortcuts for "all intervals equally long" are taken there and only there
    for dist in DISTS:
        for labels in ((), ("a",)):
            for over in ["number", "time", "all"] + (["labels"] if labels else []):
                for via in ("set_prms", "__init__"):
                    out.append(dict(n_t=3, labels=labels, dist=dist, over=over, n_pts=1, inflow_at="middle", via=via, grid="equidistant"))
    return out


def dsm_configs(tier):
    out = []
    grids = [(3, ()), (3, ("a",)), (3, ("a", "b"))] if tier == "quick" else [(3, ()), (3, ("a",)), (4, ("a",)), (3, ("a", "b")), (4, ())]
    for n_t, labels in grids:
        for dist in DISTS:
            overs = ["number", "all"] if tier == "quick" else (["number", "all", "time"] + (["labels"] if labels else []))
            if labels:
                overs = overs + ["shared-first-cohort"]
            if len(labels) == 2:
                overs = overs + ["first-label", "last-label", "ndarray-first-label-keepdims"]
            for over in overs:
                if tier == "quick" and dist not in ("NormalLifetime", "FixedLifetime") and over != "all":
                    continue
                if tier == "quick" and len(labels) == 2 and (dist != "NormalLifetime" or over == "number"):
                    continue
                for n_pts, ia in ([(1, "middle")] if tier == "quick" or n_t > 3 else [(1, "middle"), (1, "start"), (2, "middle")]):
                    out.append(dict(n_t=n_t, labels=labels, dist=dist, over=over, n_pts=n_pts, inflow_at=ia))
    for dist in (DISTS if tier == "thorough" else ("NormalLifetime", "FixedLifetime")):
        for over in ("all", "time"):
            out.append(dict(n_t=3, labels=("a",), dist=dist, over=over, n_pts=1, inflow_at="middle", grid="equidistant"))
    if tier == "quick":
        # with three time items all interval lengths coincide (the outer intervals mirror the only inner one): four items are the
        # smallest grid with genuinely different interval lengths
        for dist in ("NormalLifetime", "FixedLifetime"):
            out.append(dict(n_t=4, labels=(), dist=dist, over="number", n_pts=1, inflow_at="middle"))
        out.append(dict(n_t=4, labels=("a",), dist="NormalLifetime", over="all", n_pts=1, inflow_at="middle"))
    for dist in ("NormalLifetime", "FixedLifetime"):
        out.append(dict(n_t=4, labels=(), dist=dist, over="number", n_pts=1, inflow_at="middle", grid="uneven-unit-span"))
    # one label smaller than the other by many orders of magnitude (factor eps^2): a threshold derived from the LARGEST value of the
    # whole array must not touch the small label
    for dist in ("NormalLifetime", "FixedLifetime") if tier == "quick" else DISTS:
        out.append(dict(n_t=3, labels=("a",), dist=dist, over="all", n_pts=1, inflow_at="middle", tiny_label=True))
    # two labels whose first-year values cancel exactly (a total over the labels is zero although neither label is)
    out.append(dict(n_t=3, labels=("a",), dist="NormalLifetime", over="number", n_pts=1, inflow_at="middle", cancel_first=True))
    return out


def layout_configs(tier):
    """stock arrays whose values are non-contiguous (column-major) views, with two label dimensions"""
    return [dict(n_t=3, labels=("a", "b"), dist="NormalLifetime", over=o, n_pts=1, inflow_at="middle", both_generic=True, layout="F") for o in ("all", "number")]


def int_driver_configs(tier):
    """a prescribed stock given as an integer-dtype array (whole numbers): results must not be truncated"""
    return [dict(n_t=3, labels=("a",), dist="NormalLifetime", over="all", n_pts=1, inflow_at="middle", both_generic=True, driver_dtype="int")]


def simple_configs(tier):
    return [dict(n_t=4, labels=(), grid="uneven-unit-span")] + [dict(n_t=n, labels=l) for n, l in ([(3, ()), (3, ("a",)), (4, ("a", "b"))] if tier == "quick" else [(3, ()), (3, ("a",)), (4, ("a", "b")), (5, ("a",)), (6, ())])]


def histories(tier, dsm=True):
    alpha = "CPDZR" if dsm else "CDZ"
    hs = set()
    maxlen = 3 if tier == "quick" else 4
    for n in range(1, maxlen):
        for p in itertools.product(alpha, repeat=n):
            h = "".join(p) + "C"
            if "C" in h[:-1] or tier == "thorough" or n == 1:
                hs.add(h)
    if tier == "quick":
        hs = {h for h in hs if len(h) <= 3 or h.count("C") >= 2}
    if dsm:
        hs |= {"UCAC", "URAC", "UCRAC", "NCAC", "NCRAC", "CNCAC", "RNCPC", "NCC", "NCRC", "CNCC", "CEC", "REC", "CTC", "ECPC"}
    else:
        hs |= {"CTC"}
    return sorted(hs)
