"""Enumerative-mode abstract evaluator for the Python subset the repository uses.

Function bodies are taken from the AST of the analysed sources and evaluated on *representatives* of
finite abstract classes: dimension letters and item labels are atoms, lengths/positions are tainted
ints (TInt), arrays are labelled tensors (npmodel.AArr), user numbers are symbolic scalars.  A branch
whose outcome would depend on a representative length aborts the analysis.  flodym / numpy / pandas /
pydantic / scipy are never imported: pydantic's construction protocol and the NumPy calls in use are
modelled here and in npmodel.
"""
from __future__ import annotations

import ast
import collections
import copy as _copy
import itertools

from .core import AnalysisError, ClassInfo, FuncInfo, Program, ModuleInfo
from . import npmodel as NP
from .npmodel import AArr, SymScalar, TInt, Mesh, ModelAbort, ModelViolation, NumpyRaise


class AnalysisAbort(AnalysisError):
    pass


class TaintAbort(AnalysisAbort):
    """control flow would depend on the representative lengths/positions"""


class PyRaise(Exception):
    """A Python exception raised by the analysed code (or by modelled library code)."""
    HIER = {
        "ValueError": "Exception", "TypeError": "Exception", "KeyError": "LookupError", "IndexError": "LookupError",
        "LookupError": "Exception", "AttributeError": "Exception", "AssertionError": "Exception",
        "RuntimeError": "Exception", "NotImplementedError": "RuntimeError", "ValidationError": "ValueError",
        "AxisError": "ValueError", "ZeroDivisionError": "ArithmeticError", "ArithmeticError": "Exception",
        "StopIteration": "Exception", "Exception": "BaseException", "FrozenInstanceError": "AttributeError",
    }

    def __init__(self, exc_name, node=None, msg="", where=""):
        self.exc_name, self.node, self.msg, self.where = exc_name, node, msg, where
        super().__init__(f"{exc_name}: {msg}")

    def isa(self, name):
        n = self.exc_name
        while n:
            if n == name:
                return True
            n = self.HIER.get(n)
        return name in ("BaseException",)


class _Return(Exception):
    def __init__(self, v):
        self.v = v


class _Break(Exception):
    pass


class _Continue(Exception):
    pass


class ItemList(list):
    """items of a Dimension: length and positions are tainted"""
    def copy(self):
        return ItemList(self)


class Obj:
    _ids = itertools.count(1)

    def __init__(self, cls: ClassInfo):
        self.cls, self.f, self.oid = cls, {}, next(Obj._ids)
        self.fields_set = set()        # pydantic: the fields given explicitly (constructor keywords, later assignments)

    def __repr__(self):
        return f"<{self.cls.name}#{self.oid}>"


class Bound:
    def __init__(self, obj, fn: FuncInfo):
        self.obj, self.fn = obj, fn


class ClsMethod:
    def __init__(self, cls: ClassInfo, fn: FuncInfo):
        self.cls, self.fn = cls, fn


class Closure:
    def __init__(self, node, env, module, owner, interp=None):
        self.node, self.env, self.module, self.owner, self.interp = node, env, module, owner, interp

    def __call__(self, *a, **k):      # so that host functions (list.sort(key=...)) can call analysed lambdas
        return self.interp.call_closure(self, list(a), k)


def einsum_sublists(spec, ops):
    """np.einsum(op0, sublist0, op1, sublist1, ..., [sublist_out]) -> the equivalent (subscripts string, operands)"""
    if isinstance(spec, str):
        return (spec,) + tuple(ops)
    seq = [spec] + list(ops)

    def letters(sub):
        out = ""
        for x in sub:
            if x is Ellipsis:
                out += "..."
            elif isinstance(x, int) and not isinstance(x, bool) and 0 <= int(x) < 52:
                out += "abcdefghijklmnopqrstuvwxyzABCDEFGHIJKLMNOPQRSTUVWXYZ"[int(x)]
            else:
                raise AnalysisAbort("np.einsum sublist entry that is neither a small integer nor Ellipsis")
        return out
    arrays, subs, i = [], [], 0
    while i + 1 < len(seq) or (i < len(seq) and False):
        arrays.append(seq[i])
        subs.append(letters(seq[i + 1]))
        i += 2
    spec_s = ",".join(subs)
    if i < len(seq):
        spec_s += "->" + letters(seq[i])
    return (spec_s,) + tuple(arrays)


class NTuple(tuple):
    """instance of a typing.NamedTuple class of the analysed program: a real tuple (iteration, indexing, unpacking, ==, hash) that
    also answers attribute access through its class (`cls`: ClassInfo)"""
    def __new__(cls, info, values):
        t = super().__new__(cls, values)
        t.cls = info
        return t


class CtxMgr:
    """the not-yet-entered result of calling a @contextmanager function"""
    def __init__(self, fn, args, kwargs, closure_env):
        self.fn, self.args, self.kwargs, self.closure_env = fn, args, kwargs, closure_env


class BT:
    """builtin type usable as constructor and in isinstance"""
    def __init__(self, name, pytypes, ctor):
        self.name, self.pytypes, self.ctor = name, pytypes, ctor

    def __call__(self, *a, **k):
        return self.ctor(*a, **k)

    def __repr__(self):
        return f"<type {self.name}>"


class TypeFn:
    """the builtin `type`: callable with one argument, usable in isinstance(x, type)"""
    def __init__(self, interp):
        self.interp = interp

    def __call__(self, v):
        return self.interp.builtin("type_")(v)


class Marker:
    def __init__(self, name):
        self.name = name

    def __repr__(self):
        return f"<{self.name}>"

    def __eq__(self, o):
        return isinstance(o, Marker) and o.name == self.name

    def __hash__(self):
        return hash(self.name)


NDARRAY, NUMBER, ITERABLE, CALLABLE = Marker("np.ndarray"), Marker("Number"), Marker("Iterable"), Marker("Callable")


class ExcClass:
    def __init__(self, name):
        self.name = name


class ExcValue:
    def __init__(self, name, args):
        self.name, self.args = name, args


class Opaque:
    """a value the model does not look into (a data frame, a log record ...)"""
    def __init__(self, what):
        self.what = what

    def __repr__(self):
        return f"Opaque({self.what})"


class KeyList(list):
    """dict.keys(): iterates like a list (snapshot), compares and combines like a set"""
    __hash__ = None

    def __eq__(self, other):
        return isinstance(other, (set, frozenset, KeyList)) and set(self) == set(other)

    def __ne__(self, other):
        return not self.__eq__(other)

    def __and__(self, o): return set(self) & set(o)
    def __or__(self, o): return set(self) | set(o)
    def __sub__(self, o): return set(self) - set(o)
    def __xor__(self, o): return set(self) ^ set(o)
    __rand__, __ror__, __rxor__ = __and__, __or__, __xor__
    def __rsub__(self, o): return set(o) - set(self)
    def isdisjoint(self, o): return set(self).isdisjoint(o)


class LazyIter:
    """an iterator that cannot be listed (itertools.count / cycle / repeat without a bound): only zip-like consumers take from it"""
    def __init__(self, it, what):
        self.it, self.what = it, what

    def __iter__(self):
        return self

    def __next__(self):
        return next(self.it)


class ROMap(dict):
    """types.MappingProxyType over a dict: reads like the dict, refuses writes"""
    __hash__ = None


class ExtModule:
    def __init__(self, name):
        self.name = name


class LabelIndex:
    """pandas.Index over a list of labels: position lookup (get_indexer returns -1 for a missing label, get_loc raises)"""
    def __init__(self, labels, interp):
        self.labels, self.interp = list(labels), interp
        self.tainted = isinstance(labels, ItemList)

    def _pos(self, x):
        for i, y in enumerate(self.labels):
            if y is x or self.interp.py_eq(y, x):
                return TInt(i) if self.tainted else i
        return None

    def get_indexer(self, target, **k):
        out = []
        for x in self.interp.iterate(target):
            p = self._pos(x)
            out.append(p if p is not None else -1)
        return NP.IdxArr(out)

    def get_loc(self, x):
        p = self._pos(x)
        if p is None:
            raise PyRaise("KeyError", None, repr(x))
        return p

    def isin(self, values):
        vals = self.interp.iterate(values)
        return NP.IdxArr([any(y is x or self.interp.py_eq(y, x) for x in vals) for y in self.labels])


class PyModel:
    """base class of hand-written models of library objects (an abstract data frame, a file content ...):
    attribute access and calls go straight to the python object"""


class StringBuf(PyModel):
    """io.StringIO: an in-memory text buffer (write / getvalue / use as a context manager)"""
    def __init__(self, initial=""):
        self.parts = [str(initial)] if initial else []
        self.closed = False

    def write(self, text):
        if self.closed:
            raise PyRaise("ValueError", None, "I/O operation on closed file")
        self.parts.append(str(text))
        return len(str(text))

    def getvalue(self):
        if self.closed:
            raise PyRaise("ValueError", None, "I/O operation on closed file")
        return "".join(self.parts)

    def close(self):
        self.closed = True

    def __enter__(self):
        return self

    def __exit__(self, *a):
        self.closed = True
        return False


class LogRecord:
    def __init__(self, level, msg):
        self.level, self.msg = level, msg


class Frame:
    __slots__ = ("env", "module", "owner", "fn", "self_obj")

    def __init__(self, env, module, owner, fn, self_obj=None):
        self.env, self.module, self.owner, self.fn, self.self_obj = env, module, owner, fn, self_obj


class Interp:
    def __init__(self, prog: Program, max_depth=60, max_steps=400000):
        self.p = prog
        self.depth, self.max_depth = 0, max_depth
        self.steps, self.max_steps = 0, max_steps
        self.log: list[LogRecord] = []
        self.stack: list[str] = []
        self.hooks = {}             # name -> python callable overriding a resolved external
        self._const_cache = {}
        self.method_hooks = {}      # qualified repo function -> python callable(interp, args, kwargs) replacing its body
        self.current_node = None
        self.handling: list[PyRaise] = []
        self.taint_mode = "abort"       # "abort": a position/length-dependent branch stops the analysis;
        self.taint_hits: list[str] = []  # "concrete": it is decided on the representative and recorded here
        self.length_compares: list[str] = []   # shape comparisons between different dimensions (covered by the uniform-length family)

    # ================================================================ objects
    def construct(self, cls: ClassInfo, args, kwargs, node=None):
        if cls.is_pydantic:
            if args:
                raise PyRaise("TypeError", node, f"{cls.name}() takes keyword arguments only")
            return self._construct_model(cls, dict(kwargs), node)
        kind = self.record_kind(cls)
        if kind:
            return self._construct_record(cls, kind, list(args), dict(kwargs), node)
        o = Obj(cls)
        r = self.p.find_attr(cls, "__init__")
        if r and r[0] == "method":
            self.call_fn(r[1], [o] + list(args), kwargs)
        elif args or kwargs:
            raise PyRaise("TypeError", node, f"{cls.name}() takes no arguments")
        return o

    def record_kind(self, cls):
        """'namedtuple' | 'dataclass' | None for a plain class; a base class or class decorator from a library that is not modelled
        stops the analysis (its constructor protocol is unknown)"""
        c = self.__dict__.setdefault("_record_kinds", {})
        if cls not in c:
            kinds = set()
            for k in self.p.mro(cls):
                for e in k.ext_bases:
                    if e.split("[")[0] not in k.KNOWN_EXT_BASES and e.split("[")[0].split(".")[-1] not in ("NamedTuple", "ABC", "Generic", "Protocol", "BaseModel", "object"):
                        raise AnalysisAbort(f"class {k.name} derives from {e}, which is not modelled")
                bad = [d for d in k.deco_names if d not in ("dataclass", "final", "runtime_checkable")]
                if bad:
                    raise AnalysisAbort(f"class decorator(s) {bad} on {k.name} are not modelled")
                if k.own_record_kind():
                    kinds.add(k.own_record_kind())
            if len(kinds) > 1:
                raise AnalysisAbort(f"class {cls.name} mixes record kinds {sorted(kinds)}")
            c[cls] = next(iter(kinds), None)
        return c[cls]

    def record_fields(self, cls):
        """[(name, annotation, default expr | None, owner)] in definition order, base classes first"""
        out = {}
        for k in reversed(self.p.mro(cls)):
            if not k.own_record_kind() and self.record_kind(cls) == "dataclass":
                continue
            for name, (ann, dflt) in k.fields.items():
                if ann is not None and "ClassVar" in ast.unparse(ann):
                    continue
                out[name] = (name, ann, dflt, k)
        return list(out.values())

    def _construct_record(self, cls, kind, args, kwargs, node):
        fields = self.record_fields(cls)
        names = [f[0] for f in fields]
        opts = cls.dataclass_options() if kind == "dataclass" else {}
        for o_ in opts:
            if o_ not in ("frozen", "eq", "slots", "repr", "order", "kw_only", "unsafe_hash", "init", "match_args"):
                raise AnalysisAbort(f"dataclass option {o_}")
        if opts.get("kw_only") and args:
            raise PyRaise("TypeError", node, f"{cls.name}.__init__() takes 1 positional argument but {len(args) + 1} were given")
        if kind == "dataclass" and self.p.find_attr(cls, "__init__") and self.p.find_attr(cls, "__init__")[1].cls is not None \
                and self.p.find_attr(cls, "__init__")[1].cls.own_record_kind() is None:
            raise AnalysisAbort("dataclass with a hand-written __init__ in a base class")
        if len(args) > len(names):
            raise PyRaise("TypeError", node, f"{cls.name}() takes {len(names)} positional arguments but {len(args)} were given")
        vals = {}
        for n_, a in zip(names, args):
            vals[n_] = a
        for k, v in kwargs.items():
            if k not in names:
                raise PyRaise("TypeError", node, f"{cls.name}() got an unexpected keyword argument '{k}'")
            if k in vals:
                raise PyRaise("TypeError", node, f"{cls.name}() got multiple values for argument '{k}'")
            vals[k] = v
        for name, ann, dflt, owner in fields:
            if name in vals:
                continue
            if dflt is None:
                raise PyRaise("TypeError", node, f"{cls.name}() missing required argument: '{name}'")
            fr0 = Frame({}, self.p.modules[owner.module], owner, None)
            if kind == "dataclass" and isinstance(dflt, ast.Call) and ast.unparse(dflt.func).split(".")[-1] == "field":
                kw = {k.arg: k.value for k in dflt.keywords}
                if set(kw) - {"default", "default_factory", "repr", "compare", "hash", "init", "kw_only"}:
                    raise AnalysisAbort(f"dataclasses.field options {sorted(kw)}")
                if "default_factory" in kw:
                    vals[name] = self.call(self.eval(kw["default_factory"], fr0), [], {})
                elif "default" in kw:
                    vals[name] = self.eval(kw["default"], fr0)
                else:
                    raise PyRaise("TypeError", node, f"{cls.name}() missing required argument: '{name}'")
            else:
                vals[name] = self.const_value(dflt, fr0)      # evaluated once, at class creation
        if kind == "namedtuple":
            return NTuple(cls, [vals[n_] for n_ in names])
        o = Obj(cls)
        for n_ in names:
            o.f[n_] = vals[n_]
        r = self.p.find_attr(cls, "__post_init__")
        if r and r[0] == "method":
            o.f["__constructing__"] = True
            try:
                self.call_fn(r[1], [o], {})
            finally:
                o.f.pop("__constructing__", None)
        return o

    ALIASES = {"dim_letter": "letter"}

    def _construct_model(self, cls, kwargs, node):
        o = Obj(cls)
        fields = self.p.model_fields(cls)
        mi = self.p.modules[cls.module]
        # validation aliases (AliasChoices) -- read from the Field(...) call
        for fname, (ann, dflt, owner) in fields.items():
            if isinstance(dflt, ast.Call) and ast.unparse(dflt.func).endswith("Field"):
                for kw in dflt.keywords:
                    if kw.arg == "validation_alias" and isinstance(kw.value, ast.Call):
                        for a in kw.value.args:
                            if isinstance(a, ast.Constant) and a.value in kwargs and a.value != fname and fname not in kwargs:
                                kwargs[fname] = kwargs.pop(a.value)
        extra_ok = "extra='allow'" in self.p.model_config_text(cls).replace('"', "'")
        for k in list(kwargs):
            if k not in fields:
                if extra_ok:
                    o.f[k] = kwargs.pop(k)
                else:
                    kwargs.pop(k)      # pydantic's default: extra keyword arguments are ignored
        for c in reversed(self.p.mro(cls)):
            for f in c.methods.values():
                if f.validator_kind == "field":
                    deco = next(d for d in f.node.decorator_list if ast.unparse(d).startswith("field_validator"))
                    names = [a.value for a in deco.args if isinstance(a, ast.Constant)] if isinstance(deco, ast.Call) else []
                    for fn_ in names:
                        if fn_ in kwargs:
                            kwargs[fn_] = self.call_fn(f, [cls, kwargs[fn_]], {})
        o.fields_set = {k for k in o.f} | {k for k in kwargs if k in fields and not k.startswith("_")}
        for fname, (ann, dflt, owner) in fields.items():
            private = fname.startswith("_")
            if fname in kwargs and not private:
                o.f[fname] = self._validate_field(cls, fname, ann, kwargs[fname], node, owner)
            else:
                o.f[fname] = self._field_default(cls, fname, dflt, node, owner)
        if isinstance(o.f.get("values"), AArr) and isinstance(o.f.get("dims"), Obj) and isinstance(o.f["dims"].f.get("dim_list"), list):
            try:
                NP.adopt_labels(o.f["values"], [tuple(d.f["items"]) for d in o.f["dims"].f["dim_list"]])
            except (KeyError, AttributeError, TypeError):
                pass
        for v in self.p.validators(cls):
            r = self.call_fn(v, [o], {})
            if r is not o and r is not None and isinstance(r, Obj):
                o = r
        return o

    def _field_default(self, cls, fname, dflt, node, owner):
        if dflt is None:
            if fname.startswith("_"):
                return None
            raise PyRaise("ValidationError", node, f"{cls.name}: field '{fname}' is required")
        if isinstance(dflt, ast.Call) and ast.unparse(dflt.func).endswith("PrivateAttr"):
            d = dflt.args[0] if dflt.args else None
            fac = None
            for kw in dflt.keywords:
                if kw.arg == "default":
                    d = kw.value
                if kw.arg == "default_factory":
                    fac = kw.value
            fr0 = Frame({}, self.p.modules[owner.module], owner, None)
            if fac is not None:
                return self.call(self.eval(fac, fr0), [], {})
            if d is None:
                return None
            v0 = self.eval(d, fr0)
            return _copy.copy(v0) if isinstance(v0, (list, dict, set)) else v0
        if isinstance(dflt, ast.Call) and ast.unparse(dflt.func).endswith("Field"):
            d = None
            if dflt.args:
                d = dflt.args[0]
            for kw in dflt.keywords:
                if kw.arg == "default":
                    d = kw.value
            if d is None or (isinstance(d, ast.Constant) and d.value is Ellipsis):
                raise PyRaise("ValidationError", node, f"{cls.name}: field '{fname}' is required")
            dflt = d
        fr = Frame({}, self.p.modules[owner.module], owner, None)
        v = self.eval(dflt, fr)
        if isinstance(v, (list, dict, set)):
            v = _copy.copy(v)       # pydantic copies mutable defaults per instance
        return v

    def _validate_field(self, cls, fname, ann, value, node, owner):
        """the part of pydantic's type validation the properties rely on"""
        a = ast.unparse(ann) if ann is not None else ""
        mi = self.p.modules[owner.module]
        head = a.split("[")[0].strip("'\"")
        if head in ("list", "List"):
            if not isinstance(value, (list, tuple)):
                raise PyRaise("ValidationError", node, f"{cls.name}.{fname}: a list is required")
            inner = a[a.index("[") + 1:-1].strip("'\" ") if "[" in a else None
            ic = self.p.resolve_name(mi, inner) if inner and inner.isidentifier() else None
            if isinstance(ic, ClassInfo):
                for x in value:
                    if not (isinstance(x, Obj) and ic in self.p.mro(x.cls)):
                        raise PyRaise("ValidationError", node, f"{cls.name}.{fname}: list items must be {ic.name}")
            if isinstance(value, ItemList) or (fname == "items" and any(c.name == "Dimension" for c in self.p.mro(cls))):
                return ItemList(value)      # the items of a dimension: their number and positions are abstract (tainted)
            return list(value)   # validation builds a new list
        if head in ("dict", "Dict"):
            if not isinstance(value, dict):
                raise PyRaise("ValidationError", node, f"{cls.name}.{fname}: a dict is required")
            return dict(value)
        if head == "tuple":
            if not isinstance(value, (list, tuple)):
                raise PyRaise("ValidationError", node, f"{cls.name}.{fname}: a tuple is required")
            return tuple(value)
        if head == "str" and a == "str":
            if not isinstance(value, str):
                raise PyRaise("ValidationError", node, f"{cls.name}.{fname}: a string is required")
            dfl = self.p.model_fields(cls)[fname][1]
            if isinstance(dfl, ast.Call):
                for kw in dfl.keywords:
                    if kw.arg == "min_length" and len(value) < kw.value.value:
                        raise PyRaise("ValidationError", node, f"{cls.name}.{fname}: string too short")
                    if kw.arg == "max_length" and len(value) > kw.value.value:
                        raise PyRaise("ValidationError", node, f"{cls.name}.{fname}: string too long")
            return value
        rc = self.p.resolve_name(mi, head) if head.isidentifier() else None
        if isinstance(rc, ClassInfo) and a == head:
            if not (isinstance(value, Obj) and rc in self.p.mro(value.cls)):
                raise PyRaise("ValidationError", node, f"{cls.name}.{fname}: an instance of {rc.name} is required, got {self.tname(value)}")
            return self._revalidate_instance(value, cls, fname, node)
        if "np.ndarray" in a and "Number" in a:      # Optional[Union[np.ndarray, Number]]
            if value is None or self.isinstance_(value, (NDARRAY, NUMBER)):
                return value
            raise PyRaise("ValidationError", node, f"{cls.name}.{fname}: ndarray or Number required, got {self.tname(value)}")
        if a.startswith("Optional[") and a[9:-1].isidentifier():
            rc = self.p.resolve_name(mi, a[9:-1])
            if isinstance(rc, ClassInfo) and value is not None:
                if not (isinstance(value, Obj) and rc in self.p.mro(value.cls)):
                    raise PyRaise("ValidationError", node, f"{cls.name}.{fname}: an instance of {rc.name} is required")
                return self._revalidate_instance(value, cls, fname, node)
        return value

    def _revalidate_instance(self, value, cls, fname, node):
        """pydantic v2 (revalidate_instances='never'): a model INSTANCE handed to a model-typed field keeps its fields unvalidated, but the
        after-validators of its class run again on it (a `model_validator(mode="after")` wraps the model schema); field validators do not"""
        if not (isinstance(value, Obj) and value.cls.is_pydantic):
            return value
        for v in self.p.validators(value.cls):
            try:
                r = self.call_fn(v, [value], {})
            except PyRaise as e:
                if e.isa("ValueError") or e.isa("AssertionError"):
                    raise PyRaise("ValidationError", node, f"{cls.name}.{fname}: {e.msg}", where=e.where)
                raise
            if r is not value and r is not None and isinstance(r, Obj):
                value = r
        return value

    def tname(self, v):
        if isinstance(v, Obj):
            return v.cls.name
        return type(v).__name__

    def model_copy(self, o: Obj, update=None):
        n = Obj(o.cls)
        n.f = dict(o.f)
        n.f.update(update or {})
        n.fields_set = set(o.fields_set) | set(update or {})
        return n

    def deepcopy(self, v, memo=None):
        memo = {} if memo is None else memo
        if id(v) in memo:
            return memo[id(v)]
        if isinstance(v, Obj):
            n = Obj(v.cls)
            memo[id(v)] = n
            n.f = {k: self.deepcopy(x, memo) for k, x in v.f.items()}
            n.fields_set = set(v.fields_set)
            return n
        if isinstance(v, ItemList):
            n = ItemList(self.deepcopy(x, memo) for x in v)
        elif isinstance(v, list):
            n = [self.deepcopy(x, memo) for x in v]
        elif isinstance(v, tuple):
            n = tuple(self.deepcopy(x, memo) for x in v)
        elif isinstance(v, dict):
            n = {k: self.deepcopy(x, memo) for k, x in v.items()}
        elif isinstance(v, AArr):
            n = NP.copy_arr(v, "deepcopy")
        else:
            return v
        memo[id(v)] = n
        return n

    def shallow_copy(self, v):
        if isinstance(v, Obj):
            return self.model_copy(v)
        if isinstance(v, AArr):
            return NP.copy_arr(v, "copy.copy")
        if isinstance(v, ItemList):
            return ItemList(v)
        if isinstance(v, (list, dict, set)):
            return _copy.copy(v)
        return v

    # ================================================================ calls
    def _memo_key(self, v):
        if isinstance(v, (str, int, float, bool, type(None), bytes)):
            return ("v", type(v).__name__, v)
        if isinstance(v, (tuple, frozenset)):
            return ("t", type(v).__name__, tuple(self._memo_key(x) for x in v))
        if isinstance(v, (list, dict, set)):
            raise PyRaise("TypeError", None, f"unhashable type: '{type(v).__name__}'")
        return ("id", id(v))

    def call_fn(self, fn: FuncInfo, args, kwargs, closure_env=None):
        if fn.qual in self.method_hooks:
            return self.method_hooks[fn.qual](self, list(args), dict(kwargs))
        if fn.decos:
            if fn.unknown_decorators:
                raise AnalysisAbort(f"decorator(s) {fn.unknown_decorators} on {fn.qual} are not modelled")
            if fn.is_contextmanager:
                return CtxMgr(fn, list(args), dict(kwargs), closure_env)
            if fn.dispatch_kind and not getattr(self, "_in_dispatch", None) == id(fn):
                impl = self.dispatch_target(fn, args)
                if impl is not fn:
                    return self.call_fn(impl, args, kwargs, closure_env)
                prev = getattr(self, "_in_dispatch", None)
                self._in_dispatch = id(fn)
                try:
                    return self.call_fn(fn, args, kwargs, closure_env)
                finally:
                    self._in_dispatch = prev
            if any(d.split("(")[0].split(".")[-1] == "register" for d in fn.decos) and not fn.dispatch_kind and False:
                pass
            if fn.is_memoised and not getattr(self, "_in_memo", None) == id(fn):
                # functools.lru_cache / cache: one evaluation per distinct argument tuple; the SAME result object is handed out again
                memo = self.__dict__.setdefault("_lru", {})
                key = (id(fn), tuple(self._memo_key(a) for a in args), tuple(sorted((k, self._memo_key(v)) for k, v in kwargs.items())))
                if key not in memo:
                    prev = getattr(self, "_in_memo", None)
                    self._in_memo = id(fn)
                    try:
                        memo[key] = (self.call_fn(fn, args, kwargs, closure_env), list(args))      # args kept alive: ids stay unique
                    finally:
                        self._in_memo = prev
                return memo[key][0]
        self.depth += 1
        if self.depth > self.max_depth:
            self.depth -= 1
            raise AnalysisAbort(f"inlining depth exceeded in {fn.qual}")
        self.stack.append(fn.qual)
        try:
            node = fn.node
            env = dict(closure_env) if closure_env else {}
            self.bind_args(node, args, dict(kwargs), env, fn)
            fr = Frame(env, self.p.modules[fn.module], fn.cls, fn, args[0] if args and fn.cls is not None else None)
            is_gen = self.is_generator(node)
            if is_gen:
                env["__yields__"] = []
            try:
                self.block(node.body, fr)
            except _Return as r:
                return env["__yields__"] if is_gen else r.v
            return env["__yields__"] if is_gen else None
        finally:
            self.stack.pop()
            self.depth -= 1

    def memoised(self, f):
        """functools.cache(f) used as a call: one evaluation per distinct argument tuple, the same result object afterwards"""
        memo = {}

        def wrapper(*a, **k):
            key = (tuple(self._memo_key(x) for x in a), tuple(sorted((kk, self._memo_key(v)) for kk, v in k.items())))
            if key not in memo:
                memo[key] = (self.call(f, list(a), dict(k)), list(a))
            return memo[key][0]
        return wrapper

    def dispatch_target(self, fn: FuncInfo, args):
        """functools.singledispatch / singledispatchmethod: the implementation registered for the most specific class of the first
        argument (after self for a method); registrations are the functions of the same scope decorated `@<name>.register(...)`"""
        scope = fn.cls.methods.values() if fn.cls is not None else self.p.modules[fn.module].funcs.values()
        regs = []
        all_funcs = []
        if fn.cls is not None:
            # methods with the same name shadow each other in ClassInfo.methods: walk the class body instead
            for st in fn.cls.node.body:
                if isinstance(st, ast.FunctionDef):
                    all_funcs.append(st)
        else:
            for st in self.p.modules[fn.module].tree.body:
                if isinstance(st, ast.FunctionDef):
                    all_funcs.append(st)
        mi = self.p.modules[fn.module]
        for node in all_funcs:
            for d in node.decorator_list:
                target = d.func if isinstance(d, ast.Call) else d
                if isinstance(target, ast.Attribute) and target.attr == "register" and isinstance(target.value, ast.Name) and target.value.id == fn.name:
                    if isinstance(d, ast.Call) and d.args:
                        types = [self.eval(a, Frame({}, mi, fn.cls, None)) for a in d.args]
                    else:
                        first = node.args.args[1 if fn.cls is not None else 0]
                        if first.annotation is None:
                            raise AnalysisAbort(f"{fn.name}.register without a type")
                        types = [self.eval(first.annotation, Frame({}, mi, fn.cls, None))]
                    if len(node.decorator_list) != 1:
                        raise AnalysisAbort(f"stacked decorators on a registration of {fn.name}")
                    fi = FuncInfo(node, fn.module, fn.cls)
                    fi.decos = []
                    for t in types:
                        for tt in (t if isinstance(t, tuple) else (t,)):
                            regs.append((tt, fi))
        subject = args[1] if fn.cls is not None else args[0]
        hits = [(t, f) for t, f in regs if self.isinstance_(subject, t)]
        if not hits:
            return fn
        if len(hits) > 1:
            # most specific: a repo class that derives from the other candidates, bool before int; otherwise not decided here
            def more_specific(a, b):
                if isinstance(a, ClassInfo) and isinstance(b, ClassInfo):
                    return b in self.p.mro(a) and a is not b
                if isinstance(a, BT) and isinstance(b, BT):
                    return (a.name, b.name) in (("bool", "int"),)
                return isinstance(a, (ClassInfo, BT)) and b in (ITERABLE, NUMBER, CALLABLE)
            best = [h for h in hits if all(h is o or h[1] is o[1] or more_specific(h[0], o[0]) for o in hits)]
            if len({id(h[1]) for h in best}) != 1:
                raise AnalysisAbort(f"singledispatch on {fn.name}: several registered types match {self.tname(subject)}")
            hits = best
        return hits[0][1]

    def is_generator(self, node):
        c = self.__dict__.setdefault("_gen_cache", {})
        if id(node) not in c:
            def has_yield(n, top=True):
                for ch in ast.iter_child_nodes(n):
                    if isinstance(ch, (ast.Yield, ast.YieldFrom)):
                        return True
                    if isinstance(ch, (ast.FunctionDef, ast.Lambda, ast.ClassDef)):
                        continue
                    if has_yield(ch, False):
                        return True
                return False
            c[id(node)] = has_yield(node)
        return c[id(node)]

    def e_Yield(self, n, fr):
        if "__cm_body__" in fr.env:
            fr.env["__cm_body__"](self.eval(n.value, fr) if n.value is not None else None)
            return None
        if "__yields__" not in fr.env:
            raise AnalysisAbort("yield outside a modelled generator")
        fr.env["__yields__"].append(self.eval(n.value, fr) if n.value is not None else None)
        return None

    def e_YieldFrom(self, n, fr):
        if "__yields__" not in fr.env:
            raise AnalysisAbort("yield from outside a modelled generator")
        fr.env["__yields__"].extend(self.iterate(self.eval(n.value, fr)))
        return None

    def bind_args(self, node, args, kwargs, env, fn=None):
        a = node.args
        params = [x.arg for x in a.posonlyargs + a.args]
        defaults = [None] * (len(params) - len(a.defaults)) + list(a.defaults)
        args = list(args)
        name = getattr(node, "name", "<lambda>")
        if len(args) > len(params) and not a.vararg:
            raise PyRaise("TypeError", None, f"{name}() takes {len(params)} positional arguments but {len(args)} were given")
        dfr = None
        for i, pn in enumerate(params):
            if i < len(args):
                if pn in kwargs:
                    raise PyRaise("TypeError", None, f"{name}() got multiple values for argument '{pn}'")
                env[pn] = args[i]
            elif pn in kwargs:
                env[pn] = kwargs.pop(pn)
            elif defaults[i] is not None:
                if dfr is None:
                    dfr = Frame({}, self.p.modules[fn.module] if fn else None, fn.cls if fn else None, fn)
                env[pn] = self.default_value(defaults[i], dfr)
            else:
                raise PyRaise("TypeError", None, f"{name}() missing required argument '{pn}'")
        if a.vararg:
            env[a.vararg.arg] = tuple(args[len(params):])
        for ko, kd in zip(a.kwonlyargs, a.kw_defaults):
            if ko.arg in kwargs:
                env[ko.arg] = kwargs.pop(ko.arg)
            elif kd is not None:
                if dfr is None:
                    dfr = Frame({}, self.p.modules[fn.module] if fn else None, fn.cls if fn else None, fn)
                env[ko.arg] = self.default_value(kd, dfr)
            else:
                raise PyRaise("TypeError", None, f"{name}() missing keyword-only argument '{ko.arg}'")
        if a.kwarg:
            env[a.kwarg.arg] = dict(kwargs)
        elif kwargs:
            raise PyRaise("TypeError", None, f"{name}() got an unexpected keyword argument '{next(iter(kwargs))}'")

    def default_value(self, node, fr):
        """a default argument is evaluated ONCE (at definition time): a mutable default is shared between calls"""
        c = self.__dict__.setdefault("_default_cache", {})
        if id(node) not in c:
            c[id(node)] = self.eval(node, fr)
        return c[id(node)]

    def call_method(self, obj: Obj, name: str, *args, **kwargs):
        r = self.p.find_attr(obj.cls, name)
        if not r or r[0] == "const":
            raise AnalysisAbort(f"{obj.cls.name} has no method {name}")
        if r[0] == "property":
            return self.call_fn(r[1], [obj], {})
        return self.call_fn(r[1], [obj] + list(args), kwargs)

    def get_attr(self, v, name, node=None):
        if isinstance(v, NTuple):
            names = [f[0] for f in self.record_fields(v.cls)]
            if name in names:
                return v[names.index(name)]
            if name == "_fields":
                return tuple(names)
            if name == "_asdict":
                return lambda: dict(zip(names, v))
            if name == "_replace":
                def _replace(**kw):
                    bad = [k for k in kw if k not in names]
                    if bad:
                        raise PyRaise("ValueError", node, f"Got unexpected field names: {bad!r}")
                    return NTuple(v.cls, [kw.get(n_, x) for n_, x in zip(names, v)])
                return _replace
            if name in ("count", "index"):
                return getattr(tuple(v), name)
            if name == "__class__":
                return v.cls
            r = self.p.find_attr(v.cls, name)
            if r and r[0] == "property":
                return self.call_fn(r[1], [v], {})
            if r and r[0] == "method":
                f = r[1]
                return f if f.is_staticmethod else ClsMethod(v.cls, f) if f.is_classmethod else Bound(v, f)
            if r:
                return self.const_value(r[1], Frame({}, self.p.modules[r[2].module], r[2], None))
            raise PyRaise("AttributeError", node, f"'{v.cls.name}' object has no attribute '{name}'")
        if isinstance(v, Obj):
            if name in v.f:
                return v.f[name]
            r = self.p.find_attr(v.cls, name)
            if r:
                if r[0] == "property":
                    val = self.call_fn(r[1], [v], {})
                    if r[1].is_cached_property:
                        v.f[name] = val         # functools.cached_property stores into the instance dict
                    return val
                if r[0] == "method":
                    f = r[1]
                    if f.is_staticmethod:
                        return f
                    if f.is_classmethod:
                        return ClsMethod(v.cls, f)
                    return Bound(v, f)
                return self.const_value(r[1], Frame({}, self.p.modules[r[2].module], r[2], None))
            if name == "__class__":
                return v.cls
            if name == "__dict__":
                return v.f
            if v.cls.is_pydantic:
                if name == "model_copy":
                    return lambda update=None, deep=False: self.model_copy(self.deepcopy(v) if self.truth(deep) else v, update)
                if name == "model_fields":
                    return {k: None for k in self.p.model_fields(v.cls) if not k.startswith("_")}
                if name == "model_dump":
                    return lambda **kw: self._dump(v, top=True, **kw)
                if name == "model_fields_set":
                    return set(v.fields_set)
            raise PyRaise("AttributeError", node, f"'{v.cls.name}' object has no attribute '{name}'")
        if isinstance(v, ClassInfo):
            r = self.p.find_attr(v, name)
            if r:
                if r[0] == "method":
                    f = r[1]
                    if f.is_classmethod:
                        return ClsMethod(v, f)
                    return f
                if r[0] == "const":
                    return self.const_value(r[1], Frame({}, self.p.modules[r[2].module], r[2], None))
            if name == "__name__":
                return v.name
            if name in ("_fields", "_make", "__match_args__") and not v.is_pydantic and self.record_kind(v):
                names = tuple(f[0] for f in self.record_fields(v))
                if name == "_make":
                    return lambda it: self.construct(v, list(self.iterate(it)), {})
                return names
            if name == "model_fields" and v.is_pydantic:
                return {k: None for k in self.p.model_fields(v) if not k.startswith("_")}
            raise PyRaise("AttributeError", node, f"type object '{v.name}' has no attribute '{name}'")
        if isinstance(v, AArr):
            return self.guard_kwargs(self.arr_attr(v, name, node), "ndarray." + name)
        if isinstance(v, SymScalar):
            if name in ("shape",):
                return ()
            if name == "ndim":
                return 0
            raise PyRaise("AttributeError", node, f"number has no attribute '{name}'")
        if isinstance(v, ExtModule):
            return self.ext_attr(v, name, node)
        if isinstance(v, (list, dict, str, tuple, set, bytes, frozenset)):
            if isinstance(v, list) and name == "index":
                def idx(x, _v=v):
                    for i, y in enumerate(_v):
                        if y is x or self.py_eq(y, x):
                            return TInt(i) if isinstance(_v, ItemList) else i
                    raise PyRaise("ValueError", node, f"{x!r} is not in list")
                return idx
            if isinstance(v, list) and name == "remove":
                def rem(x, _v=v):
                    for i, y in enumerate(_v):
                        if y is x or self.py_eq(y, x):
                            del _v[i]
                            return None
                    raise PyRaise("ValueError", node, "list.remove(x): x not in list")
                return rem
            if isinstance(v, list) and name == "copy":
                return lambda _v=v: ItemList(_v) if isinstance(_v, ItemList) else list(_v)
            if isinstance(v, list) and name == "insert":
                return lambda i, x, _v=v: _v.insert(int(i), x)
            if isinstance(v, str) and name == "join":
                def join(it, _v=v):
                    parts = self.iterate(it)
                    for i, x in enumerate(parts):
                        if not isinstance(x, str):
                            raise PyRaise("TypeError", node, f"sequence item {i}: expected str instance, {self.tname(x)} found")
                    return _v.join(parts)
                return join
            if isinstance(v, dict) and name == "get":
                return lambda k, d=None, _v=v: _v.get(k, d)
            if isinstance(v, collections.Counter) and name in ("most_common", "elements", "total", "subtract", "update"):
                return getattr(v, name)
            if isinstance(v, dict) and name == "keys":
                return lambda _v=v: KeyList(_v.keys())
            if isinstance(v, dict) and name in ("items", "values"):
                return lambda _v=v, _n=name: list(getattr(_v, _n)())
            try:
                return getattr(v, name)
            except AttributeError:
                raise PyRaise("AttributeError", node, f"'{type(v).__name__}' object has no attribute '{name}'")
        if isinstance(v, (int, float)) and not isinstance(v, bool):
            raise PyRaise("AttributeError", node, f"'{type(v).__name__}' object has no attribute '{name}'")
        if v is None:
            raise PyRaise("AttributeError", node, f"'NoneType' object has no attribute '{name}'")
        if isinstance(v, LabelIndex):
            if name in ("get_indexer", "get_loc", "isin"):
                return getattr(v, name)
            raise AnalysisAbort(f"pandas.Index.{name} is not modelled")
        if isinstance(v, (NP.IdxArr, Mesh)):
            if name in ("shape", "ndim"):
                return getattr(v, name)
            if name == "reshape" and isinstance(v, NP.IdxArr):
                return v.reshape
            if name == "size":
                return len(v.positions)
            if name == "astype":
                return lambda t, **k: v
            if name == "tolist":
                return lambda: list(v.positions)
            if name in ("all", "any") and isinstance(v, NP.IdxArr) and all(isinstance(x, bool) for x in v.positions):
                return lambda axis=None, **k: (all if name == "all" else any)(v.positions) if axis in (None, 0, -1) else (_ for _ in ()).throw(AnalysisAbort("axis of a vector"))
            if name in ("sum",) and isinstance(v, NP.IdxArr) and all(isinstance(x, bool) for x in v.positions):
                return lambda axis=None, **k: TInt(sum(v.positions))
            raise AnalysisAbort(f"index array attribute {name}")
        if isinstance(v, PyModel):
            try:
                return getattr(v, name)
            except AttributeError:
                if getattr(v, "CLOSED_WORLD", False):
                    raise PyRaise("AttributeError", node, f"'{type(v).__name__}' object has no attribute '{name}'")
                # a library object: what the model lacks is a gap of the model, not an error of the code under analysis
                raise AnalysisAbort(f"{type(v).__module__.split('.')[-1]}.{type(v).__name__}.{name} is not modelled")
        if isinstance(v, slice):
            if name in ("start", "stop", "step"):
                return getattr(v, name)
            if name == "indices":
                def indices(n, _v=v):
                    t = slice(*[None if x is None else int(x) for x in (_v.start, _v.stop, _v.step)]).indices(int(n))
                    return tuple(TInt(x) for x in t)
                return indices
        if isinstance(v, ExcValue) and name == "args":
            return tuple(v.args)
        if isinstance(v, (ExcValue, PyRaise)) and name == "with_traceback":
            return lambda tb=None: v
        if isinstance(v, (ExcValue, PyRaise)) and name in ("__traceback__", "__cause__", "__context__"):
            return None
        if isinstance(v, PyRaise) and name == "args":
            return (v.msg,)
        if callable(v) and name in getattr(v, "_ufunc", {}):
            return v._ufunc[name]
        if isinstance(v, BT) and name == "__name__":
            return v.name
        if isinstance(v, BT) and v.name == "dict" and name == "fromkeys":
            return lambda keys, value=None: {k: value for k in self.iterate(keys)}
        if isinstance(v, BT) and v.name == "str" and name == "join":
            return lambda sep, it: sep.join(str(x) for x in self.iterate(it))
        if isinstance(v, collections.deque) and name in ("pop", "popleft", "append", "appendleft", "extend", "clear", "maxlen", "count", "index"):
            return getattr(v, name)
        if isinstance(v, Marker) and v.name.startswith("dtype:") and name in ("kind", "name"):
            dt = v.name.split(":", 1)[1]
            if name == "name":
                return {"float": "float64", "int": "int64", "bool": "bool", "object": "object", "str": "str"}.get(dt, dt)
            kind = {"float": "f", "int": "i", "bool": "b", "object": "O", "str": "U"}.get(dt)
            if kind is None:
                raise AnalysisAbort(f"dtype.kind of {dt}")
            return kind
        if isinstance(v, Opaque):
            raise AnalysisAbort(f"attribute {name} of {v!r} is not modelled")
        raise AnalysisAbort(f"attribute {name} on {type(v).__name__} is not modelled (line {getattr(node, 'lineno', '?')})")

    def _dump(self, x, top=False, include=None, exclude=None, exclude_unset=False, exclude_none=False, **other):
        """BaseModel.model_dump: the fields as a dict, nested models dumped too; include / exclude (sets of names, top level),
        exclude_unset (only the fields given explicitly), exclude_none"""
        if other:
            raise AnalysisAbort(f"model_dump keyword(s) {sorted(other)} are not modelled")
        for sel in (include, exclude):
            if sel is not None and not (isinstance(sel, (set, frozenset, list, tuple, KeyList)) and all(isinstance(k, str) for k in sel)):
                raise AnalysisAbort("model_dump(include= / exclude=) other than a flat collection of field names")
        if isinstance(x, Obj):
            out = {}
            for k, y in x.f.items():
                if k.startswith("_"):
                    continue
                if top and ((include is not None and k not in include) or (exclude is not None and k in exclude)):
                    continue
                if exclude_unset and x.cls.is_pydantic and k not in x.fields_set:
                    continue
                if exclude_none and y is None:
                    continue
                out[k] = self._dump(y, exclude_unset=exclude_unset, exclude_none=exclude_none)
            return out
        if isinstance(x, list):
            return [self._dump(y, exclude_unset=exclude_unset, exclude_none=exclude_none) for y in x]
        return x

    def arr_attr(self, a: AArr, name, node):
        if name == "shape":
            return a.shape
        if name == "ndim":
            return a.ndim
        if name == "size":
            n = 1
            for s in a.shape:
                n = n * s
            return n
        if name == "T":
            return NP.transpose(a)
        if name == "dtype":
            return Marker("dtype:" + a.dtype)
        if name == "copy":
            return lambda order=None: NP.copy_arr(a, "ndarray.copy")
        if name == "sum":
            return lambda axis=None, **kw: NP.reduce_all(a) if axis is None else self._reduce_axes(a, axis)
        if name == "cumsum":
            return lambda axis=None: NP.cumsum(a, axis)
        if name == "transpose":
            return lambda *perm: NP.transpose(a, list(perm[0]) if len(perm) == 1 and isinstance(perm[0], (list, tuple)) else (list(perm) or None))
        if name == "astype":
            def astype(t, copy=True):
                tn = getattr(t, "name", None) or str(t)
                if isinstance(a.term, tuple) and a.term[:2] == ("in", "items") and a.dtype == "str" and any(k in tn for k in ("float", "int", "complex")):
                    # an array of text labels converted to numbers: works only when every label reads as a number - and then the
                    # entries are numbers, no longer the labels
                    for it_ in a.axes[0]:
                        try:
                            float(it_)
                        except (TypeError, ValueError):
                            raise NumpyRaise("ValueError", f"could not convert string to float: '{it_}'")
                    return AArr(a.axes, NP.t_fn("text_as_number", a.term), NP.Buf("astype"), dtype="float" if "float" in tn else "int")
                return NP.copy_arr(a, "astype")
            return astype
        if name == "reshape":
            return lambda *shape, **kw: NP.reshape(a, shape[0] if len(shape) == 1 and isinstance(shape[0], (tuple, list)) else shape)
        if name == "fill":
            def fill(v):
                NP.setitem(a, Ellipsis, v)
            return fill
        if name == "item":
            return lambda: SymScalar(a.term) if a.ndim == 0 else (_ for _ in ()).throw(AnalysisAbort("ndarray.item on n-d"))
        if name in ("max", "min"):
            return lambda axis=None: NP.reduce_all(a, name) if axis is None else (_ for _ in ()).throw(AnalysisAbort("axis max"))
        if name in ("any", "all"):
            return lambda axis=None, **k: NP.reduce_all(a, name) if axis is None else (_ for _ in ()).throw(AnalysisAbort(f"ndarray.{name} with axis"))
        if name == "squeeze":
            def sq(axis=None):
                if any(x == NP.ONE for x in a.axes):
                    return AArr([x for x in a.axes if x != NP.ONE], a.term, a.buf, view=True, origin=(a, None))
                return AArr(a.axes, a.term, a.buf, view=True, origin=(a, None))
            return sq
        raise AnalysisAbort(f"ndarray.{name} is not modelled")

    def _reduce_axes(self, a, axis):
        if isinstance(axis, (tuple, list)):
            for k in sorted((NP.norm_axis(a, x) for x in axis), reverse=True):
                a = NP.reduce_axis(a, k)
            return a
        return NP.reduce_axis(a, axis)

    # keyword arguments that change what a NumPy function computes: a model may use them only if it declares that it implements them
    RISKY_KW = ("keepdims", "where", "out", "order", "initial", "axes", "axis", "ddof", "side", "mode")
    HANDLED_KW = {
        "out": ("minimum", "maximum", "abs", "absolute", "sign", "sqrt", "exp", "log", "negative", "add", "subtract", "multiply", "divide", "true_divide", "power",
                "reciprocal", "square", "less", "less_equal", "greater", "greater_equal", "equal", "not_equal", "positive"),
        "where": ("add", "subtract", "multiply", "divide", "true_divide", "power", "negative", "square", "reciprocal", "positive", "less", "less_equal", "greater",
                  "greater_equal", "equal", "not_equal", "copyto"),
        "order": ("ravel", "flatten", "reshape", "unravel_index", "copy"),
        "initial": ("max", "min", "amax", "amin", "nanmax", "nanmin"),
        "axes": ("transpose",),
        "axis": ("sum", "cumsum", "max", "min", "amax", "amin", "nanmax", "nanmin", "any", "all", "expand_dims", "moveaxis", "diff", "take", "flip", "gradient",
                 "concatenate", "stack", "squeeze", "argmax", "argmin", "mean", "prod", "count_nonzero", "diagonal", "swapaxes", "apply_along_axis", "cumprod", "tile", "repeat", "insert", "delete", "unique"),
    }

    def guard_kwargs(self, f, what):
        if not callable(f) or isinstance(f, (BT, Marker, PyModel)):
            return f
        short = what.split(".")[-1]

        def guarded(*a, **k):
            bad = sorted(x for x in k if x in self.RISKY_KW and short not in self.HANDLED_KW.get(x, ()))
            if bad:
                raise AnalysisAbort(f"{what}: keyword(s) {bad} are not modelled")
            return f(*a, **k)
        if hasattr(f, "_ufunc"):
            guarded._ufunc = f._ufunc
        return guarded

    # ================================================================ external modules
    def ext_attr(self, m: ExtModule, name, node):
        full = f"{m.name}.{name}"
        if full in self.hooks:
            return self.hooks[full]
        if m.name == "numpy":
            return self.guard_kwargs(self.np_attr(name, node), "np." + name)
        if m.name == "logging":
            if name in ("debug", "info", "warning", "error", "critical"):
                def rec(msg="", *a, _lvl=name, **k):
                    self.log.append(LogRecord(_lvl.upper(), str(msg)))
                return rec
            if name in ("DEBUG", "INFO", "WARNING", "ERROR"):
                return name
            raise AnalysisAbort(f"logging.{name} not modelled")
        if m.name == "sys":
            if name == "exc_info":
                return lambda: (None, None, None)
        if m.name == "operator":
            ops = {"add": ast.Add, "sub": ast.Sub, "mul": ast.Mult, "truediv": ast.Div, "floordiv": ast.FloorDiv, "mod": ast.Mod, "pow": ast.Pow,
                   "and_": ast.BitAnd, "or_": ast.BitOr, "xor": ast.BitXor, "iadd": ast.Add, "isub": ast.Sub, "imul": ast.Mult}
            cmps = {"eq": ast.Eq, "ne": ast.NotEq, "lt": ast.Lt, "le": ast.LtE, "gt": ast.Gt, "ge": ast.GtE, "is_": ast.Is, "is_not": ast.IsNot, "contains": None}
            if name in ops:
                return lambda a, b, _o=ops[name]: self.binop(_o(), a, b, node)
            if name in cmps and cmps[name] is not None:
                return lambda a, b, _o=cmps[name]: self.compare(_o(), a, b, node or ast.Constant(value=0, lineno=0))
            if name == "contains":
                return lambda a, b: self.contains(a, b, node)
            if name == "neg":
                return lambda a: self.e_UnaryOp(ast.UnaryOp(op=ast.USub(), operand=ast.Constant(value=0)), None) if False else (self.call_method(a, "__neg__") if isinstance(a, Obj) else (NP.elementwise("neg", a) if isinstance(a, (AArr, SymScalar)) else -a))
            if name == "not_":
                return lambda a: not self.truth(a)
            if name == "truth":
                return lambda a: self.truth(a)
            if name == "attrgetter":
                def dotted(o, path):
                    for part in str(path).split("."):
                        o = self.get_attr(o, part)
                    return o
                return lambda *names: (lambda o: dotted(o, names[0]) if len(names) == 1 else tuple(dotted(o, n_) for n_ in names))
            if name == "itemgetter":
                return lambda *keys: (lambda o: self.get_item(o, keys[0], node) if len(keys) == 1 else tuple(self.get_item(o, k_, node) for k_ in keys))
            if name == "methodcaller":
                return lambda mname, *a, **k: (lambda o: self.call(self.get_attr(o, mname), list(a), k))
            raise AnalysisAbort(f"operator.{name} is not modelled")
        if m.name == "itertools" and name == "chain":
            I3 = self

            class _Chain(PyModel):
                def __call__(self_, *its):
                    return iter([x for it in its for x in I3.iterate(it)])

                def from_iterable(self_, its):
                    return iter([x for it in I3.iterate(its) for x in I3.iterate(it)])
            return _Chain()
        if m.name == "functools" and name == "reduce":
            def reduce_(f, it, *init):
                vals = self.iterate(it)
                if init:
                    acc = init[0]
                elif vals:
                    acc, vals = vals[0], vals[1:]
                else:
                    raise PyRaise("TypeError", node, "reduce() of empty iterable with no initial value")
                for x in vals:
                    acc = self.call(f, [acc, x], {})
                return acc
            return reduce_
        if m.name in ("math", "operator", "functools", "itertools", "string", "textwrap") and not (m.name == "itertools" and name in ("product", "count", "cycle", "repeat")) \
                and not (m.name == "functools" and name in ("lru_cache", "cache", "cached_property", "partial", "wraps")):
            import math as _m, operator as _o, functools as _f, itertools as _i, string as _s, textwrap as _t
            host = getattr({"math": _m, "operator": _o, "functools": _f, "itertools": _i, "string": _s, "textwrap": _t}[m.name], name, None)
            if host is None:
                raise PyRaise("AttributeError", node, f"module '{m.name}' has no attribute '{name}'")
            if not callable(host):
                return host
            I2 = self

            def wrapped(*a, **k):
                a2 = []
                for x in a:
                    if isinstance(x, (Bound, ClsMethod, Closure, FuncInfo, BT, ClassInfo)):
                        a2.append(lambda *aa, _x=x, **kk: I2.call(_x, list(aa), kk))
                    elif isinstance(x, (Obj, PyModel)) and m.name in ("itertools", "functools"):
                        a2.append(I2.iterate(x))
                    elif isinstance(x, TInt) and m.name == "math":
                        I2.tainted(f"math.{name} of a length-derived integer")
                        a2.append(int(x))
                    else:
                        a2.append(x)
                k = {kk: ((lambda *aa, _x=v, **kw2: I2.call(_x, list(aa), kw2)) if isinstance(v, (Bound, ClsMethod, Closure, FuncInfo, BT, ClassInfo)) else v)
                     for kk, v in k.items()}
                if m.name == "itertools" and name == "accumulate" and len(a2) == 1 and "func" not in k:
                    k["func"] = lambda x, y: I2.binop(ast.Add(), x, y, node)        # the default operator.add, on analysed values
                r = host(*a2, **k)
                if m.name == "itertools" and name == "groupby":
                    return [(key, list(grp)) for key, grp in r]
                if m.name == "itertools":
                    return iter(list(r))         # an iterator: consumed once
                return r
            return wrapped
        if m.name in ("re", "unicodedata"):        # pure standard-library text functions: evaluated as they are
            import re as _re, unicodedata as _ud
            return getattr({"re": _re, "unicodedata": _ud}[m.name], name)
        if m.name == "itertools" and name in ("count", "cycle", "repeat"):
            import itertools as _it2

            def lazy(*a, _n=name):
                if _n == "repeat" and len(a) == 2:
                    return [a[0]] * int(a[1])
                if _n == "cycle":
                    return LazyIter(_it2.cycle(self.iterate(a[0])), "itertools.cycle")
                return LazyIter(getattr(_it2, _n)(*a), f"itertools.{_n}")
            return lazy
        if m.name == "itertools" and name == "product":
            import itertools as _it
            return lambda *its, repeat=1: list(_it.product(*[self.iterate(i) for i in its], repeat=repeat))
        if m.name.split(".")[0] in ("scipy", "pandas", "os", "pickle", "matplotlib", "plotly", "warnings", "typing", "collections", "io", "types", "contextlib", "dataclasses"):
            return ExtModule(full)
        if m.name == "copy":
            if name == "copy":
                return self.shallow_copy
            if name == "deepcopy":
                return self.deepcopy
        raise AnalysisAbort(f"external {full} is not modelled")

    def np_attr(self, name, node):
        I = self
        el = NP.elementwise

        def wo(result, out, **k):
            return NP.with_out(result, out)

        def recip(a, out=None, **k):
            if isinstance(a, AArr) and a.dtype == "int":      # integer reciprocal is integer division
                return wo(el("trunc", el("div", 1, a)), out)
            return wo(el("div", 1, a), out)
        simple = {
            "minimum": lambda a, b, out=None, **k: wo(el("minimum", a, b), out), "maximum": lambda a, b, out=None, **k: wo(el("maximum", a, b), out),
            "abs": lambda a, out=None, **k: wo(el("abs", a), out), "absolute": lambda a, out=None, **k: wo(el("abs", a), out),
            "sign": lambda a, out=None, **k: wo(el("sign", a), out),
            "sqrt": lambda a, out=None, **k: wo(el("sqrt", a), out), "exp": lambda a, out=None, **k: wo(el("exp", a), out),
            "log": lambda a, out=None, **k: wo(el("log", a), out),
            "negative": lambda a, out=None, **k: wo(el("neg", a), out), "add": lambda a, b, out=None, **k: wo(el("add", a, b), out),
            "subtract": lambda a, b, out=None, **k: wo(el("sub", a, b), out),
            "multiply": lambda a, b, out=None, **k: wo(el("mul", a, b), out), "divide": lambda a, b, out=None, **k: wo(el("div", a, b), out),
            "true_divide": lambda a, b, out=None, **k: wo(el("div", a, b), out), "power": lambda a, b, out=None, **k: wo(el("pow", a, b), out),
            "reciprocal": recip, "square": lambda a, out=None, **k: wo(el("pow", a, 2), out),
            "isnan": lambda a: el("isnan", a), "isclose": lambda a, b, **k: el("isclose", a, b),
            "nan_to_num": lambda a, **k: el("nan_to_num", a), "where": lambda c, a, b: el("where", c, a, b),
            "clip": lambda a, lo, hi: el("clip", a, lo, hi), "isfinite": lambda a: el("isfinite", a),
            "float64": lambda a: a, "errstate": None,
        }
        if name == "errstate":
            return lambda **k: None
        if name in ("sqrt", "ceil", "floor", "log", "exp", "abs", "round", "rint"):
            import math
            hostf = {"sqrt": math.sqrt, "ceil": math.ceil, "floor": math.floor, "log": math.log, "exp": math.exp, "abs": abs, "round": round, "rint": round}[name]
            inner = simple.get(name)

            def numeric(a, *rest, **kw):
                if isinstance(a, (int, float)) and not isinstance(a, bool):
                    if isinstance(a, TInt):
                        self.tainted(f"np.{name} of a length-derived integer")
                    return hostf(float(a)) if name not in ("abs",) else hostf(a)
                if inner is None:
                    raise AnalysisAbort(f"np.{name} of {I.tname(a)} is not modelled")
                return inner(a, *rest, **kw)
            return numeric
        if name in simple and simple[name] is not None:
            f0 = simple[name]

            def strict(*a, _f=f0, **k):
                bad = sorted(x for x in k if x not in ("out", "dtype", "casting", "order", "subok", "axis", "keepdims"))
                if bad:
                    raise AnalysisAbort(f"np.{name}: keyword(s) {bad} are not modelled")
                return _f(*a, **k)
            return strict
        if name == "ndarray":
            return NDARRAY
        if name == "newaxis":
            return None
        if name in ("nan", "inf", "pi", "e"):
            return SymScalar(("sym", "np." + name))
        if name in ("int16", "int32", "int64", "intp", "float32", "float_"):
            return Marker("np." + name)
        if name == "einsum":
            return lambda spec, *ops, **kw: NP.einsum(*einsum_sublists(spec, ops))
        if name == "ix_":
            return lambda *lists: tuple(Mesh(k, len(lists), list(l)) for k, l in enumerate(lists))
        if name in ("zeros", "empty"):
            return lambda shape, dtype=None: NP.zeros(I.as_shape(shape), 0 if name == "zeros" else ("sym", "uninitialised") and SymScalar(("sym", "uninitialised")), "np." + name)
        if name == "ones":
            return lambda shape, dtype=None: NP.zeros(I.as_shape(shape), 1, "np.ones")
        if name == "full":
            def full(shape, fill_value, dtype=None):
                r = NP.full(I.as_shape(shape), fill_value)
                if dtype is not None:
                    tn = getattr(dtype, "name", str(dtype))
                    r.dtype = "float" if "float" in tn else "int" if "int" in tn else r.dtype
                return r
            return full
        if name in ("zeros_like", "ones_like", "full_like", "empty_like"):
            def like(a, fill_value=None, dtype=None, _n=name):
                fv = {"zeros_like": 0, "ones_like": 1, "empty_like": SymScalar(("sym", "uninitialised"))}.get(_n, fill_value)
                if not isinstance(a, AArr):
                    raise AnalysisAbort(f"np.{_n} of {I.tname(a)}")
                return NP.like(a, fv, "np." + _n)
            return like
        if name in ("array", "asarray", "asanyarray", "ascontiguousarray"):
            def array(x, dtype=None, copy=None, subok=False, order=None, ndmin=0, like=None, _n=name):
                if ndmin or like is not None:
                    raise AnalysisAbort(f"np.{_n} with ndmin / like")
                if isinstance(x, AArr) and _n == "ascontiguousarray" and x.ndim == 0:
                    # documented: "Return a contiguous array (ndim >= 1)": a 0-d array comes back with shape (1,)
                    return AArr((NP.ONE,), x.term, x.buf, view=True, dtype=x.dtype, origin=(x, None))
                if isinstance(x, (SymScalar, int, float)) and _n == "ascontiguousarray":
                    return AArr((NP.ONE,), NP.as_term(x), NP.Buf("np.ascontiguousarray"))
                if isinstance(x, AArr):
                    if _n == "array" and copy is not False:
                        return NP.copy_arr(x, "np.array")
                    if dtype is not None and not self.same_dtype(x, dtype):
                        return NP.copy_arr(x, "np.asarray(dtype)")
                    return x          # no copy: the very same array object
                if isinstance(x, (SymScalar, int, float)):
                    return AArr((), NP.as_term(x), NP.Buf("np.array"))
                if isinstance(x, ItemList):
                    kinds = {type(i) for i in x}
                    dt = "str" if kinds == {str} else "int" if kinds <= {int, TInt} else "float" if kinds <= {int, float} else "object"
                    if dt == "object" and str in kinds and dtype is None:
                        raise AnalysisAbort("np.array of items mixing text and numbers (NumPy turns them all into text)")
                    return AArr((tuple(x),), ("in", "items", ((NP.universe(x[0]), ("v", NP.vkey(x))),)), NP.Buf("np.array(items)"), dtype=dt)
                if isinstance(x, (list, tuple)) and all(isinstance(p, int) and not isinstance(p, bool) for p in x):
                    return NP.IdxArr(x)       # an integer array of positions (index array)
                if isinstance(x, (list, tuple)) and x and all(isinstance(p, bool) for p in x):
                    return NP.IdxArr(x)       # a boolean vector of item tests
                if isinstance(x, NP.IdxArr):
                    return x
                raise AnalysisAbort(f"np.{_n} of {I.tname(x)}")
            return array
        if name == "stack":
            return lambda arrays, axis=0, **k: NP.stack(I.iterate(arrays), axis)
        if name == "copyto":
            def copyto(dst, src, casting=None, where=True):
                if where is not True or not isinstance(dst, AArr):
                    raise AnalysisAbort("np.copyto with where= / a non-array destination")
                NP.setitem(dst, Ellipsis, src)
            return copyto
        if name == "arange":
            def arange(*a, dtype=None):
                t = any(isinstance(x, TInt) for x in a)
                return NP.IdxArr([TInt(i) if t else i for i in range(*[int(x) for x in a])])
            return arange
        if name == "fromiter":
            def fromiter(it, dtype=None, count=-1):
                vals = I.iterate(it)
                if all(isinstance(p, (int, bool)) for p in vals):
                    return NP.IdxArr(vals)
                raise AnalysisAbort("np.fromiter of other than integers / booleans")
            return fromiter
        if name == "copy":
            return lambda a: NP.copy_arr(a, "np.copy")
        if name == "tile":
            return lambda a, reps: NP.tile(a if isinstance(a, AArr) else AArr((), NP.as_term(a)), reps)
        if name == "sum":
            return lambda a, axis=None, **kw: (NP.reduce_all(a) if axis is None else I._reduce_axes(a, axis))
        if name in ("max", "min", "amax", "amin", "nanmax", "nanmin"):
            def extremum(a, axis=None, initial=None, **kw):
                if axis is not None:
                    raise AnalysisAbort(f"np.{name} with axis")
                r = NP.reduce_all(a, name)
                if initial is None:
                    return r
                t = a.term if isinstance(a, AArr) else None
                if "max" in name and isinstance(initial, (int, float)) and initial == 0 and isinstance(t, tuple) and t[0] == "fn" and t[1] == "abs":
                    return r            # the largest of non-negative numbers and 0
                return SymScalar(NP.t_fn("pymax" if "max" in name else "pymin", NP.as_term(r), NP.as_term(initial)))
            return extremum
        if name == "count_nonzero":
            def cnz(a, **k):
                if isinstance(a, NP.IdxArr):
                    return sum(1 for x in a.positions if x)
                if isinstance(a, (list, tuple)) and all(isinstance(x, (bool, int)) and not isinstance(x, TInt) for x in a):
                    return sum(1 for x in a if x)
                raise AnalysisAbort("np.count_nonzero of array data")
            return cnz
        if name in ("any", "all"):
            def anyall(a, axis=None, _n=name):
                if axis is not None:
                    raise AnalysisAbort(f"np.{_n} with axis")
                if isinstance(a, NP.IdxArr):
                    a = list(a.positions)
                if isinstance(a, (list, tuple)) and all(isinstance(x, (bool, int)) for x in a):
                    return any(a) if _n == "any" else all(a)
                return NP.reduce_all(a, _n)
            return anyall
        if name == "prod":
            def prod(t, **kw):
                if isinstance(t, AArr):
                    raise AnalysisAbort("np.prod of an array")
                r = 1
                for x in t:
                    r = r * x
                return r
            return prod
        if name == "cumsum":
            return lambda a, axis=None, out=None, **kw: NP.with_out(NP.cumsum(a, axis), out)
        if name == "transpose":
            return lambda a, axes=None: NP.transpose(a, axes)
        if name == "moveaxis":
            return lambda a, s, d: NP.moveaxis(a, s, d)
        if name == "swapaxes":
            def swap(a, i, j):
                p = list(range(a.ndim))
                p[i], p[j] = p[j], p[i]
                return NP.transpose(a, p)
            return swap
        if name == "expand_dims":
            return lambda a, axis: NP.expand_dims(a, axis)
        if name in ("isin", "in1d"):
            def isin(element, test_elements, **kw):
                if isinstance(element, AArr) or isinstance(test_elements, AArr):
                    raise AnalysisAbort("np.isin on array data")
                tests = I.iterate(test_elements)
                return NP.IdxArr([any(y is x or I.py_eq(y, x) for x in tests) for y in I.iterate(element)])
            return isin
        if name in ("flatnonzero", "nonzero", "argwhere"):
            def fnz(a):
                if not isinstance(a, NP.IdxArr) or not all(isinstance(x, bool) for x in a.positions):
                    raise AnalysisAbort(f"np.{name} of something else than a boolean vector of item tests")
                tainted = isinstance(getattr(a, "src", None), ItemList)
                pos = NP.IdxArr([TInt(i) for i, x in enumerate(a.positions) if x])
                return pos if name == "flatnonzero" else (pos,) if name == "nonzero" else (_ for _ in ()).throw(AnalysisAbort("np.argwhere of a vector"))
            return fnz
        if name == "reshape":
            return lambda a, shape, **kw: NP.reshape(a, shape if isinstance(shape, (tuple, list)) else (shape,)) if isinstance(a, AArr) else (_ for _ in ()).throw(AnalysisAbort("np.reshape of a non-array"))
        if name == "broadcast_to":
            def bto(a, shape, **kw):
                tgt = NP.zeros(I.as_shape(shape), 0)
                ax = NP.broadcast([tgt.axes, NP.axes_of(a)], "np.broadcast_to")
                if ax != tgt.axes:
                    raise NumpyRaise("ValueError", "broadcast_to: incompatible shapes")
                return AArr(ax, NP.as_term(a), a.buf if isinstance(a, AArr) else None, view=isinstance(a, AArr))
            return bto
        if name == "shape":
            return lambda a: a.shape if isinstance(a, AArr) else ()
        if name == "ndim":
            return lambda a: a.ndim if isinstance(a, AArr) else 0
        if name == "shares_memory":
            return lambda a, b: a.buf is b.buf
        if name == "finfo":
            return lambda dt: Opaque("finfo")
        if name == "squeeze":
            return lambda a, axis=None: I.arr_attr(a, "squeeze", None)(axis)
        if name == "resize":
            return lambda a, new_shape: NP.resize(a, I.as_shape(new_shape))
        cmp_ufuncs = {"greater": ast.Gt, "greater_equal": ast.GtE, "less": ast.Lt, "less_equal": ast.LtE, "equal": ast.Eq, "not_equal": ast.NotEq}
        if name in cmp_ufuncs:
            def cmp_ufunc(a, b, _op=cmp_ufuncs[name]):
                if isinstance(a, (list, tuple)) and not isinstance(b, (list, tuple, AArr)):
                    return [I.compare(_op(), x, b, None) for x in a]        # e.g. over a shape tuple
                if isinstance(b, (list, tuple)) and not isinstance(a, (list, tuple, AArr)):
                    return [I.compare(_op(), a, x, None) for x in b]
                if isinstance(a, (list, tuple)) or isinstance(b, (list, tuple)):
                    raise AnalysisAbort(f"np.{name} of two sequences")
                return I.compare(_op(), a, b, None)
            return cmp_ufunc
        if name == "count_nonzero":
            def count_nonzero(a, **k):
                if k or not isinstance(a, (list, tuple)):
                    raise AnalysisAbort("np.count_nonzero beyond a plain sequence")
                return sum(1 for x in a if I.truth(x))
            return count_nonzero
        raise AnalysisAbort(f"np.{name} is not modelled")

    def same_dtype(self, a: AArr, dtype):
        if isinstance(dtype, Marker) and dtype.name.startswith("dtype:"):
            return dtype.name == "dtype:" + a.dtype
        if isinstance(dtype, BT):
            return dtype.name == a.dtype
        return False

    def as_shape(self, s):
        if isinstance(s, AArr):
            raise AnalysisAbort("array used as shape")
        if isinstance(s, int):
            return (s,)
        return tuple(s)

    # ================================================================ builtins
    def builtin(self, name):
        if name in ("int", "str", "float", "bool", "list", "tuple", "dict", "set", "frozenset", "slice", "object"):
            c = self.__dict__.setdefault("_bt_cache", {})
            if name not in c:
                c[name] = self._builtin(name)
            return c[name]             # `dim.dtype is int` must see one and the same object
        return self._builtin(name)

    def _builtin(self, name):
        I = self
        if name == "isinstance":
            return self.isinstance_
        if name == "issubclass":
            def issubclass_(c, t):
                ts = t if isinstance(t, tuple) else (t,)
                if isinstance(c, ExcClass):
                    probe = PyRaise(c.name)
                    return any(isinstance(x, ExcClass) and probe.isa(x.name) for x in ts)
                if not isinstance(c, (ClassInfo, BT, ExcClass)):
                    raise AnalysisAbort(f"issubclass of {I.tname(c)}")
                return isinstance(c, ClassInfo) and any(isinstance(x, ClassInfo) and x in I.p.mro(c) for x in ts)
            return issubclass_
        if name == "len":
            def length(v):
                if isinstance(v, Obj):
                    r = I.p.find_attr(v.cls, "__len__")
                    if not r:
                        raise PyRaise("TypeError", None, f"object of type '{v.cls.name}' has no len()")
                    return I.call_fn(r[1], [v], {})
                if isinstance(v, AArr):
                    if not v.ndim:
                        raise PyRaise("TypeError", None, "len() of unsized object")
                    return v.shape[0]
                if isinstance(v, PyModel):
                    return len(v)
                if isinstance(v, NP.IdxArr):
                    return len(v.positions)
                if isinstance(v, ItemList):
                    return TInt(len(v), src=tuple(v))
                if isinstance(v, (SymScalar, int, float)) or v is None:
                    raise PyRaise("TypeError", None, f"object of type '{I.tname(v)}' has no len()")
                return len(v)
            return length
        if name == "range":
            def rng(*a):
                t = any(isinstance(x, TInt) for x in a)
                return [TInt(i) if t else i for i in range(*[int(x) for x in a])]
            return rng
        if name == "enumerate":
            return lambda it, start=0: iter([(i, x) for i, x in enumerate(I.iterate(it), start)])      # one-shot, like every iterator below
        if name == "zip":
            def zip_(*its, strict=False):
                fin = [I.iterate(i) for i in its if not isinstance(i, LazyIter)]
                if len(fin) == len(its):
                    return iter(list(zip(*fin)))
                if not fin:
                    raise AnalysisAbort("zip of unbounded iterators only")
                n = min(len(f) for f in fin)
                cols, k = [], 0
                for i in its:
                    if isinstance(i, LazyIter):
                        cols.append([next(i) for _ in range(n)])
                    else:
                        cols.append(fin[k][:n])
                        k += 1
                return iter(list(zip(*cols)))
            return zip_
        if name == "sum":
            def summ(it, start=0):
                tot = start
                for x in I.iterate(it):
                    tot = I.binop(ast.Add(), tot, x, None)
                return tot
            return summ
        if name in ("max", "min"):
            def mm(*args, default=Ellipsis, key=None, _n=name):
                vals = I.iterate(args[0]) if len(args) == 1 else list(args)
                if not vals:
                    if default is Ellipsis:
                        raise PyRaise("ValueError", None, f"{_n}() iterable argument is empty")
                    return default
                if all(isinstance(v, (int, float)) and not isinstance(v, TInt) for v in vals):
                    return (max if _n == "max" else min)(vals)
                if any(isinstance(v, TInt) for v in vals) and all(isinstance(v, (int, float)) for v in vals) and key is None:
                    I.tainted(f"{_n}() over length-derived integers")          # aborts unless lengths are concrete by construction
                    return TInt((max if _n == "max" else min)(int(v) if isinstance(v, TInt) else v for v in vals))
                if any(isinstance(v, TInt) for v in vals):
                    raise AnalysisAbort(f"{_n}() over tainted lengths")
                if len(vals) == 1:
                    return vals[0]
                return SymScalar(NP.t_fn("py" + _n, *[NP.as_term(v) for v in vals]))
            return mm
        if name == "abs":
            def ab(v):
                if isinstance(v, Obj):
                    return I.call_method(v, "__abs__")
                if isinstance(v, (AArr, SymScalar)):
                    return NP.elementwise("abs", v)
                return abs(v)
            return ab
        if name == "any":
            return lambda it: any(I.truth(x) for x in I.iterate(it))
        if name == "all":
            return lambda it: all(I.truth(x) for x in I.iterate(it))
        if name == "next":
            def nxt(it, default=Ellipsis):
                try:
                    if isinstance(it, (list, tuple)):
                        raise AnalysisAbort("next() of a list")
                    return next(it)
                except StopIteration:
                    if default is Ellipsis:
                        raise PyRaise("StopIteration", None, "")
                    return default
            return nxt
        if name == "iter":
            return lambda v: iter(I.iterate(v))
        if name == "sorted":
            def sorted_(it, key=None, reverse=False):
                vals = list(I.iterate(it))
                keys = vals if key is None else [I.call(key, [v], {}) for v in vals]
                try:
                    order = sorted(range(len(vals)), key=lambda i: keys[i], reverse=bool(reverse))
                except TypeError as e:       # e.g. text compared with a number: the analysed program's own exception
                    raise PyRaise("TypeError", None, str(e), where=I.stack[-1] if I.stack else "")
                return [vals[i] for i in order]
            return sorted_
        if name == "reversed":
            return lambda it: iter(list(reversed(I.iterate(it))))
        if name == "getattr":
            def ga(o, n, *d):
                try:
                    return I.get_attr(o, n)
                except PyRaise as e:
                    if d and e.exc_name == "AttributeError":
                        return d[0]
                    raise
            return ga
        if name == "hasattr":
            def ha(o, n):
                try:
                    I.get_attr(o, n)
                    return True
                except PyRaise:
                    return False
            return ha
        if name == "setattr":
            def sa(o, n, v):
                if not isinstance(o, Obj):
                    raise AnalysisAbort("setattr on non-object")
                o.f[n] = v
            return sa
        if name == "type":
            return TypeFn(self)
        if name == "type_":
            def ty(v):
                if isinstance(v, Obj):
                    return v.cls
                if isinstance(v, PyRaise):
                    return ExcClass(v.exc_name)
                if isinstance(v, ExcValue):
                    return ExcClass(v.name)
                if v is Ellipsis:
                    return BT("ellipsis", (type(Ellipsis),), None)
                if isinstance(v, SymScalar):
                    return BT("float", (float,), float)
                if isinstance(v, AArr):
                    return NDARRAY
                return I.builtin(type(v).__name__) if type(v).__name__ in ("int", "str", "float", "list", "tuple", "dict", "bool", "set") else BT(type(v).__name__, (type(v),), type(v))
            return ty
        if name == "map":
            return lambda f, *its: iter([I.call(f, list(xs), {}) for xs in zip(*[I.iterate(i) for i in its])])
        if name == "filter":
            return lambda f, it: iter([x for x in I.iterate(it) if (I.truth(I.call(f, [x], {})) if f is not None else I.truth(x))])
        if name == "divmod":
            def dm(a, b):
                if isinstance(a, TInt) or isinstance(b, TInt):
                    return (TInt(int(a) // int(b)), TInt(int(a) % int(b)))
                return divmod(a, b)
            return dm
        if name == "round":
            return lambda x, n=None: round(x) if n is None else round(x, n)
        if name == "pow":
            return lambda a, b: I.binop(ast.Pow(), a, b, None)
        if name in ("ord", "chr", "id", "hash", "format", "bin", "hex"):
            import builtins as _b
            return getattr(_b, name)
        if name == "callable":
            return lambda v: isinstance(v, (Bound, ClsMethod, Closure, FuncInfo, ClassInfo)) or callable(v)
        if name == "vars":
            def vars_(o):
                if isinstance(o, Obj):
                    return o.f          # the instance dictionary itself (writes through it reach the object)
                raise AnalysisAbort(f"vars() of {I.tname(o)}")
            return vars_
        if name == "print":
            def print_(*a, sep=" ", end="\n", file=None, flush=False):
                if file is None:
                    return None         # standard output is not part of any property
                if not isinstance(file, StringBuf):
                    raise AnalysisAbort("print(file=...) into something other than an io.StringIO")
                file.write((" " if sep is None else sep).join(I.to_str(x) for x in a) + ("\n" if end is None else end))
            return print_
        if name == "repr" or name == "str":
            if name == "str":
                return BT("str", (str,), lambda v="": I.to_str(v))
            return lambda v: I.to_str(v)
        if name == "tuple":
            return BT("tuple", (tuple,), lambda it=(): tuple(I.iterate(it)))
        if name == "list":
            return BT("list", (list,), lambda it=(): list(I.iterate(it)))
        if name == "set":
            return BT("set", (set, frozenset), lambda it=(): set(I.iterate(it)))
        if name == "frozenset":
            return BT("frozenset", (frozenset,), lambda it=(): frozenset(I.iterate(it)))
        if name == "dict":
            return BT("dict", (dict,), lambda *a, **k: dict(*[I.iterate(x) if not isinstance(x, dict) else x for x in a], **k))
        if name == "int":
            return BT("int", (int,), lambda v=0: int(v))
        if name == "float":
            return BT("float", (float,), lambda v=0.0: v if isinstance(v, SymScalar) else float(v))
        if name == "bool":
            return BT("bool", (bool,), lambda v=False: I.truth(v))
        if name == "slice":
            return BT("slice", (slice,), slice)
        if name == "object":
            return BT("object", (object,), object)
        if name == "Ellipsis":
            return Ellipsis
        if name == "NotImplemented":
            return NotImplemented
        if name == "super":
            return "super"
        if name in PyRaise.HIER or name in ("BaseException", "Warning", "UserWarning", "DeprecationWarning"):
            return ExcClass(name)
        return None

    def isinstance_(self, v, t):
        ts = t if isinstance(t, tuple) else (t,)
        for x in ts:
            if isinstance(x, ClassInfo):
                if isinstance(v, (Obj, NTuple)) and x in self.p.mro(v.cls):
                    return True
            elif x is ITERABLE:
                if isinstance(v, (list, tuple, dict, str, set, AArr)) or (isinstance(v, Obj) and self.p.find_attr(v.cls, "__iter__")):
                    return True
            elif x is NUMBER:
                if isinstance(v, (int, float, SymScalar)):
                    return True
            elif x is NDARRAY:
                if isinstance(v, (AArr, Mesh, NP.IdxArr)):
                    return True
            elif x is CALLABLE:
                if isinstance(v, (Bound, ClsMethod, Closure, FuncInfo)):
                    return True
            elif isinstance(x, BT):
                if x.name == "int" and isinstance(v, NP.NpInt):
                    continue        # a NumPy integer scalar is not a Python int
                if x.name == "int" and isinstance(v, bool):
                    return True
                if x.name == "float" and isinstance(v, SymScalar):
                    return True
                if isinstance(v, x.pytypes) and not isinstance(v, (Obj,)):
                    if x.name == "str" and not isinstance(v, str):
                        continue
                    if isinstance(v, KeyList) and x.name in ("list", "tuple", "set", "dict"):
                        continue        # a keys view is iterable, but it is not a list
                    return True
            elif isinstance(x, ExcClass):
                if isinstance(v, (PyRaise,)) and v.isa(x.name):
                    return True
            elif isinstance(x, TypeFn):
                if isinstance(v, (ClassInfo, BT, TypeFn)):
                    return True
            elif isinstance(x, PyModel) and hasattr(x, "isinstance_check"):
                if x.isinstance_check(v):
                    return True
            elif isinstance(x, Marker):
                continue
            else:
                raise AnalysisAbort(f"isinstance against {x!r} is not modelled")
        return False

    def to_str(self, v):
        if isinstance(v, Obj):
            r = self.p.find_attr(v.cls, "__str__")
            if r:
                try:
                    return str(self.call_fn(r[1], [v], {}))
                except (AnalysisAbort, ModelAbort):
                    return f"<{v.cls.name}>"
            return f"<{v.cls.name}>"
        if isinstance(v, PyRaise):
            return v.msg
        return str(v)

    def iterate(self, v):
        if isinstance(v, LazyIter):
            raise AnalysisAbort(f"{v.what} consumed without a bound")
        if isinstance(v, NP.IdxArr):
            return list(v.positions)
        if isinstance(v, PyModel):
            return list(iter(v))
        if isinstance(v, Obj):
            r = self.p.find_attr(v.cls, "__iter__")
            if not r:
                raise PyRaise("TypeError", None, f"'{v.cls.name}' object is not iterable")
            return list(self.call_fn(r[1], [v], {}))
        if isinstance(v, AArr):
            if v.ndim == 0:
                raise PyRaise("TypeError", None, "iteration over a 0-d array")
            n = NP.axis_len(v.axes[0])
            return [NP.getitem(v, i) for i in range(n)]
        if isinstance(v, (SymScalar, int, float)) and not isinstance(v, str) or v is None:
            raise PyRaise("TypeError", None, f"'{self.tname(v)}' object is not iterable")
        if isinstance(v, dict):
            return list(v.keys())
        return list(v)

    def truth(self, v):
        if isinstance(v, TInt):
            self.tainted(f"branch on a length/position-derived integer in {self.stack[-1] if self.stack else '?'}")
            return bool(int(v))
        if isinstance(v, Obj):
            r = self.p.find_attr(v.cls, "__bool__")
            if r:
                return self.truth(self.call_fn(r[1], [v], {}))
            r = self.p.find_attr(v.cls, "__len__")
            if r:
                return self.truth(self.call_fn(r[1], [v], {}) > 0)
            return True
        if isinstance(v, (AArr, SymScalar)):
            return self.data_truth(v)
        if isinstance(v, Opaque):
            raise AnalysisAbort(f"branch on {v!r}")
        return bool(v)

    def length_eq_taint(self, l, r, n):
        """lengths of two different axes compared: equal for some inputs, different for others"""
        if isinstance(l, TInt) and isinstance(r, TInt) and l.src is not None and r.src is not None and l.src != r.src:
            self.length_compares.append(f"lengths of different dimensions compared (line {n.lineno}) in {self.stack[-1] if self.stack else '?'}")
        elif isinstance(l, tuple) and isinstance(r, tuple) and len(l) == len(r):
            for a, b in zip(l, r):
                self.length_eq_taint(a, b, n)

    def tainted(self, what):
        """control flow depends on a representative length/position: outside the finite abstraction"""
        if self.taint_mode == "abort":
            raise TaintAbort(what)
        if what not in self.taint_hits:
            self.taint_hits.append(what)

    def data_truth(self, v):
        raise AnalysisAbort(f"branch on array data in {self.stack[-1] if self.stack else '?'}: {v!r}")

    def py_eq(self, a, b):
        for x, y in ((a, b), (b, a)):
            if isinstance(x, Obj):
                r = self.p.find_attr(x.cls, "__eq__")
                if r and r[0] == "method":           # the class defines its own equality
                    v = self.call_fn(r[1], [x, y], {})
                    if v is not NotImplemented:
                        return self.truth(v)
        if isinstance(a, Obj) and isinstance(b, Obj):
            if a is b:
                return True
            if a.cls is b.cls and self.record_kind(a.cls) == "dataclass" and a.cls.dataclass_options().get("eq", True):
                return all(self.py_eq(a.f[k], b.f[k]) for k, *_ in self.record_fields(a.cls))
            if a.cls is not b.cls or not a.cls.is_pydantic:
                return False
            ka = {k: v for k, v in a.f.items() if not k.startswith("_")}
            kb = {k: v for k, v in b.f.items() if not k.startswith("_")}
            return ka.keys() == kb.keys() and all(self.py_eq(ka[k], kb[k]) for k in ka)
        if isinstance(a, Obj) or isinstance(b, Obj):
            return False
        if isinstance(a, (AArr, SymScalar)) or isinstance(b, (AArr, SymScalar)):
            raise AnalysisAbort("== on array data")
        if isinstance(a, KeyList) or isinstance(b, KeyList):
            return a == b if isinstance(a, KeyList) else b == a
        if isinstance(a, (list, tuple)) and isinstance(b, (list, tuple)):
            if isinstance(a, tuple) != isinstance(b, tuple):
                return False
            return len(a) == len(b) and all(self.py_eq(x, y) for x, y in zip(a, b))
        return a == b

    # ================================================================ statements
    def block(self, stmts, fr):
        for s in stmts:
            self.stmt(s, fr)

    def tick(self, node):
        self.steps += 1
        self.current_node = node
        if self.steps > self.max_steps:
            raise AnalysisAbort("step budget exceeded")

    def assign(self, tgt, val, fr, node=None):
        if isinstance(tgt, ast.Name):
            if tgt.id in fr.env.get("__globals__", ()) and fr.module is not None:
                self.__dict__.setdefault("_module_globals", {})[(fr.module.path, tgt.id)] = val      # `global x; x = ...`
                return
            fr.env[tgt.id] = val
        elif isinstance(tgt, ast.Attribute):
            o = self.eval(tgt.value, fr)
            self.set_attr(o, tgt.attr, val, tgt)
        elif isinstance(tgt, ast.Subscript):
            o = self.eval(tgt.value, fr)
            k = self.eval(tgt.slice, fr)
            self.set_item(o, k, val, tgt)
        elif isinstance(tgt, (ast.Tuple, ast.List)):
            vals = self.iterate(val)
            stars = [i for i, t in enumerate(tgt.elts) if isinstance(t, ast.Starred)]
            if stars:
                k = stars[0]
                after = len(tgt.elts) - k - 1
                if len(stars) > 1 or len(vals) < k + after:
                    raise PyRaise("ValueError", tgt, "unpacking: not enough values")
                for t, v in zip(tgt.elts[:k], vals[:k]):
                    self.assign(t, v, fr)
                self.assign(tgt.elts[k].value, list(vals[k:len(vals) - after]), fr)
                for t, v in zip(tgt.elts[k + 1:], vals[len(vals) - after:] if after else []):
                    self.assign(t, v, fr)
                return
            if len(vals) != len(tgt.elts):
                raise PyRaise("ValueError", tgt, "unpacking: wrong number of values")
            for t, v in zip(tgt.elts, vals):
                self.assign(t, v, fr)
        else:
            raise AnalysisAbort(f"assignment target {type(tgt).__name__}")

    def set_attr(self, o, name, val, node):
        if isinstance(o, PyModel):
            setattr(o, name, val)
            return
        if isinstance(o, NTuple):
            raise PyRaise("AttributeError", node, "can't set attribute")
        if isinstance(o, Obj):
            if not o.cls.is_pydantic and self.record_kind(o.cls) == "dataclass" and o.cls.dataclass_options().get("frozen"):
                raise PyRaise("FrozenInstanceError", node, f"cannot assign to field '{name}'")
            o.f[name] = val
            if not name.startswith("_"):
                o.fields_set.add(name)
            self.on_attr_store(o, name, val, node)
        else:
            raise AnalysisAbort(f"attribute store on {self.tname(o)} (line {getattr(node, 'lineno', '?')})")

    def on_attr_store(self, o, name, val, node):
        pass

    def set_item(self, o, k, val, node):
        if isinstance(o, PyModel):
            o.__setitem__(k, val)
            return
        if isinstance(o, Obj):
            r = self.p.find_attr(o.cls, "__setitem__")
            if not r:
                raise PyRaise("TypeError", node, f"'{o.cls.name}' object does not support item assignment")
            self.call_fn(r[1], [o, k, val], {})
        elif isinstance(o, AArr):
            NP.setitem(o, k, val)
        elif isinstance(o, ROMap):
            raise PyRaise("TypeError", node, "'mappingproxy' object does not support item assignment")
        elif isinstance(o, (list, dict)):
            try:
                o[k] = val
            except (IndexError, KeyError, TypeError) as e:
                raise PyRaise(type(e).__name__, node, str(e))
        else:
            raise AnalysisAbort(f"item store on {self.tname(o)}")

    def stmt(self, s, fr):
        self.tick(s)
        if isinstance(s, ast.Expr):
            self.eval(s.value, fr)
        elif isinstance(s, ast.Assign):
            v = self.eval(s.value, fr)
            for t in s.targets:
                self.assign(t, v, fr, s)
        elif isinstance(s, ast.AnnAssign):
            if s.value is not None:
                self.assign(s.target, self.eval(s.value, fr), fr, s)
        elif isinstance(s, ast.AugAssign):
            if isinstance(s.target, ast.Name):
                cur = self.eval(ast.Name(id=s.target.id, ctx=ast.Load()), fr)
                new = self.aug(s.op, cur, self.eval(s.value, fr), s)
                fr.env[s.target.id] = new
            elif isinstance(s.target, ast.Attribute):
                o = self.eval(s.target.value, fr)
                cur = self.get_attr(o, s.target.attr, s)
                self.set_attr(o, s.target.attr, self.aug(s.op, cur, self.eval(s.value, fr), s), s)
            elif isinstance(s.target, ast.Subscript):
                o = self.eval(s.target.value, fr)
                k = self.eval(s.target.slice, fr)
                cur = self.get_item(o, k, s)
                self.set_item(o, k, self.binop(s.op, cur, self.eval(s.value, fr), s), s)
            else:
                raise AnalysisAbort("augmented assignment target")
        elif isinstance(s, ast.Return):
            raise _Return(self.eval(s.value, fr) if s.value is not None else None)
        elif isinstance(s, ast.If):
            self.block(s.body if self.truth(self.eval(s.test, fr)) else s.orelse, fr)
        elif isinstance(s, ast.For):
            broke = False
            for x in self.iterate(self.eval(s.iter, fr)):
                self.assign(s.target, x, fr)
                try:
                    self.block(s.body, fr)
                except _Break:
                    broke = True
                    break
                except _Continue:
                    continue
            if not broke and s.orelse:
                self.block(s.orelse, fr)
        elif isinstance(s, ast.While):
            n = 0
            while self.truth(self.eval(s.test, fr)):
                n += 1
                if n > 10000:
                    raise AnalysisAbort("while loop does not terminate in the abstraction")
                try:
                    self.block(s.body, fr)
                except _Break:
                    break
                except _Continue:
                    continue
        elif isinstance(s, ast.Raise):
            self.do_raise(s, fr)
        elif isinstance(s, ast.Try):
            self.do_try(s, fr)
        elif isinstance(s, ast.With):
            self.with_items(s, 0, fr)
        elif isinstance(s, ast.Match):
            subject = self.eval(s.subject, fr)
            for case in s.cases:
                binds = {}
                if self.match_pattern(case.pattern, subject, binds, fr):
                    saved = {k: fr.env[k] for k in binds if k in fr.env}
                    fr.env.update(binds)        # captures are bound before the guard runs (and stay bound, as in Python)
                    if case.guard is None or self.truth(self.eval(case.guard, fr)):
                        self.block(case.body, fr)
                        break
        elif isinstance(s, ast.Pass):
            pass
        elif isinstance(s, ast.Break):
            raise _Break()
        elif isinstance(s, ast.Continue):
            raise _Continue()
        elif isinstance(s, ast.Assert):
            if not self.truth(self.eval(s.test, fr)):
                raise PyRaise("AssertionError", s, "assertion failed", where=self.stack[-1] if self.stack else "")
        elif isinstance(s, ast.FunctionDef):
            if s.decorator_list:
                raise AnalysisAbort(f"decorator on the nested function {s.name} (line {s.lineno}) is not modelled")
            fr.env[s.name] = Closure(s, fr.env, fr.module, fr.owner, self)
        elif isinstance(s, ast.Delete):
            for t in s.targets:
                if isinstance(t, ast.Subscript):
                    o = self.eval(t.value, fr)
                    k = self.eval(t.slice, fr)
                    try:
                        del o[k]
                    except (KeyError, IndexError) as e:
                        raise PyRaise(type(e).__name__, s, str(e))
                elif isinstance(t, ast.Name):
                    fr.env.pop(t.id, None)
                else:
                    raise AnalysisAbort("del target")
        elif isinstance(s, ast.Import):
            for a in s.names:
                top = a.name if a.asname else a.name.split(".")[0]
                target = self.p.by_dotted.get(top)
                fr.env[(a.asname or a.name).split(".")[0]] = target if target is not None else self.resolved(("ext", top), top)
        elif isinstance(s, ast.ImportFrom):
            from .core import PKG
            base = s.module or ""
            if s.level and fr.module is not None:
                parts = (PKG + "/" + fr.module.path).split("/")[:-1]
                parts = parts[: len(parts) - (s.level - 1)]
                base = ".".join(parts + ([s.module] if s.module else []))
            target = self.p.by_dotted.get(base)
            for a in s.names:
                if target is not None:
                    r = self.p.resolve_name(target, a.name)
                    if r is None:
                        sub_ = self.p.by_dotted.get(base + "." + a.name)
                        if sub_ is None:
                            raise PyRaise("ImportError", s, f"cannot import name '{a.name}' from '{base}'")
                        fr.env[a.asname or a.name] = sub_
                    else:
                        fr.env[a.asname or a.name] = self.resolved(r, a.name)
                else:
                    fr.env[a.asname or a.name] = self.resolved(("ext", base + "." + a.name), a.name)
        elif isinstance(s, ast.Global):
            fr.env.setdefault("__globals__", set()).update(s.names)
        elif isinstance(s, ast.Nonlocal):
            raise AnalysisAbort("nonlocal is not modelled")
        else:
            raise AnalysisAbort(f"unsupported statement {type(s).__name__} (line {s.lineno})")

    # ---- with: plain context-manager objects and @contextmanager generator functions
    def with_items(self, s, i, fr):
        if i == len(s.items):
            self.block(s.body, fr)
            return
        item = s.items[i]
        cm = self.eval(item.context_expr, fr)
        if isinstance(cm, CtxMgr):
            def body(value):
                if item.optional_vars is not None:
                    self.assign(item.optional_vars, value, fr)
                self.with_items(s, i + 1, fr)
            self.run_contextmanager(cm, body)
            return
        val = cm
        entered = False
        if isinstance(cm, Obj) and self.p.find_attr(cm.cls, "__enter__"):
            val = self.call_method(cm, "__enter__")
            entered = True
        elif isinstance(cm, Obj):
            raise PyRaise("TypeError", s, f"'{cm.cls.name}' object does not support the context manager protocol")
        elif isinstance(cm, PyModel) and hasattr(cm, "__enter__"):
            val = cm.__enter__()
        if item.optional_vars is not None:
            self.assign(item.optional_vars, val, fr)
        try:
            self.with_items(s, i + 1, fr)
        except PyRaise as e:
            if entered and self.p.find_attr(cm.cls, "__exit__"):
                if self.truth(self.call_method(cm, "__exit__", ExcClass(e.exc_name), e, None)):
                    return          # __exit__ returned a true value: the exception is suppressed
            raise
        else:
            if entered and self.p.find_attr(cm.cls, "__exit__"):
                self.call_method(cm, "__exit__", None, None, None)
            elif isinstance(cm, PyModel) and hasattr(cm, "__exit__"):
                cm.__exit__(None, None, None)

    def run_contextmanager(self, cm: "CtxMgr", body):
        """contextlib.contextmanager: the generator function runs up to its yield, the with-body runs AT the yield (an exception of the
        body surfaces there, inside the generator's own try/except/finally), then the rest of the function runs"""
        fn = cm.fn
        state = {"yielded": 0}

        def at_yield(value):
            state["yielded"] += 1
            if state["yielded"] > 1:
                raise PyRaise("RuntimeError", None, "generator didn't stop")
            body(value)
        self.depth += 1
        self.stack.append(fn.qual)
        try:
            env = dict(cm.closure_env) if cm.closure_env else {}
            self.bind_args(fn.node, cm.args, dict(cm.kwargs), env, fn)
            env["__cm_body__"] = at_yield
            fr = Frame(env, self.p.modules[fn.module], fn.cls, fn, cm.args[0] if cm.args and fn.cls is not None else None)
            try:
                self.block(fn.node.body, fr)
            except _Return:
                pass
            if not state["yielded"]:
                raise PyRaise("RuntimeError", None, "generator didn't yield")
        finally:
            self.stack.pop()
            self.depth -= 1

    # ---- match statement
    def match_pattern(self, p, subject, binds, fr):
        if isinstance(p, ast.MatchValue):
            return self.py_eq(subject, self.eval(p.value, fr))
        if isinstance(p, ast.MatchSingleton):
            return subject is p.value
        if isinstance(p, ast.MatchAs):
            if p.pattern is not None and not self.match_pattern(p.pattern, subject, binds, fr):
                return False
            if p.name is not None:
                binds[p.name] = subject
            return True
        if isinstance(p, ast.MatchOr):
            for alt in p.patterns:
                b2 = {}
                if self.match_pattern(alt, subject, b2, fr):
                    binds.update(b2)
                    return True
            return False
        if isinstance(p, ast.MatchSequence):
            if isinstance(subject, (str, bytes, dict, set, KeyList)) or not isinstance(subject, (list, tuple)):
                if isinstance(subject, (Obj, AArr, PyModel)) and not isinstance(subject, NTuple):
                    if isinstance(subject, Obj):
                        return False
                    raise AnalysisAbort(f"sequence pattern against {self.tname(subject)}")
                if not isinstance(subject, (list, tuple)):
                    return False
            items = list(subject)
            stars = [i for i, q in enumerate(p.patterns) if isinstance(q, ast.MatchStar)]
            if not stars:
                if len(items) != len(p.patterns):
                    return False
                return all(self.match_pattern(q, x, binds, fr) for q, x in zip(p.patterns, items))
            k = stars[0]
            after = len(p.patterns) - k - 1
            if len(items) < k + after:
                return False
            for q, x in zip(p.patterns[:k], items[:k]):
                if not self.match_pattern(q, x, binds, fr):
                    return False
            for q, x in zip(p.patterns[k + 1:], items[len(items) - after:] if after else []):
                if not self.match_pattern(q, x, binds, fr):
                    return False
            if p.patterns[k].name is not None:
                binds[p.patterns[k].name] = items[k:len(items) - after]
            return True
        if isinstance(p, ast.MatchMapping):
            if not isinstance(subject, dict):
                if isinstance(subject, (Obj, list, tuple, str, int, float, NTuple)) or subject is None:
                    return False
                raise AnalysisAbort(f"mapping pattern against {self.tname(subject)}")
            used = []
            for kexpr, q in zip(p.keys, p.patterns):
                k = self.eval(kexpr, fr)
                if k not in subject or not self.match_pattern(q, subject[k], binds, fr):
                    return False
                used.append(k)
            if p.rest is not None:
                binds[p.rest] = {k: v for k, v in subject.items() if k not in used}
            return True
        if isinstance(p, ast.MatchClass):
            cls = self.eval(p.cls, fr)
            if not self.isinstance_(subject, cls):
                return False
            if p.patterns:
                if isinstance(cls, BT) and cls.name in ("str", "int", "float", "bool", "list", "tuple", "dict", "set", "frozenset", "bytes"):
                    if len(p.patterns) != 1:
                        raise PyRaise("TypeError", p, f"{cls.name}() accepts 1 positional sub-pattern")
                    if not self.match_pattern(p.patterns[0], subject, binds, fr):
                        return False
                elif isinstance(cls, ClassInfo) and not cls.is_pydantic and self.record_kind(cls):
                    names = [f[0] for f in self.record_fields(cls)]
                    if len(p.patterns) > len(names):
                        raise PyRaise("TypeError", p, f"{cls.name}() accepts {len(names)} positional sub-patterns")
                    for n_, q in zip(names, p.patterns):
                        if not self.match_pattern(q, self.get_attr(subject, n_), binds, fr):
                            return False
                elif isinstance(cls, ClassInfo) and self.p.find_attr(cls, "__match_args__"):
                    r = self.p.find_attr(cls, "__match_args__")
                    names = list(self.const_value(r[1], Frame({}, self.p.modules[r[2].module], r[2], None)))
                    for n_, q in zip(names, p.patterns):
                        if not self.match_pattern(q, self.get_attr(subject, n_), binds, fr):
                            return False
                else:
                    raise PyRaise("TypeError", p, f"{getattr(cls, 'name', cls)}() accepts 0 positional sub-patterns ({len(p.patterns)} given)")
            for attr, q in zip(p.kwd_attrs, p.kwd_patterns):
                try:
                    val = self.get_attr(subject, attr)
                except PyRaise as e:
                    if e.isa("AttributeError"):
                        return False
                    raise
                if not self.match_pattern(q, val, binds, fr):
                    return False
            return True
        raise AnalysisAbort(f"pattern {type(p).__name__} is not modelled")

    def aug(self, op, cur, val, node):
        if isinstance(cur, list) and isinstance(op, ast.Add):
            cur.extend(self.iterate(val))
            return cur
        if isinstance(cur, AArr) and not isinstance(cur, SymScalar):
            new = self.binop(op, cur, val, node)
            NP.setitem(cur, Ellipsis, new)
            return cur
        return self.binop(op, cur, val, node)

    def do_raise(self, s, fr):
        if s.exc is None:
            if self.handling:
                raise self.handling[-1]
            raise PyRaise("RuntimeError", s, "No active exception to re-raise")
        v = self.eval(s.exc, fr)
        if isinstance(v, PyRaise):
            raise v
        if isinstance(v, ExcClass):
            raise PyRaise(v.name, s, "", where=self.stack[-1] if self.stack else "")
        if isinstance(v, ExcValue):
            raise PyRaise(v.name, s, " ".join(self.to_str(a) for a in v.args), where=self.stack[-1] if self.stack else "")
        raise AnalysisAbort(f"raise of {v!r}")

    def do_try(self, s, fr):
        pending = None
        try:
            try:
                try:
                    self.block(s.body, fr)
                except (NumpyRaise,) as e:
                    raise PyRaise(e.exc_name, self.current_node, e.msg, where=self.stack[-1] if self.stack else "")
            except PyRaise as e:
                for h in s.handlers:
                    if h.type is None or self.exc_matches(e, self.eval(h.type, fr)):
                        if h.name:
                            fr.env[h.name] = e
                        self.handling.append(e)
                        try:
                            self.block(h.body, fr)
                        finally:
                            self.handling.pop()
                        break
                else:
                    raise
            else:
                if s.orelse:
                    self.block(s.orelse, fr)
        except (PyRaise, NumpyRaise, _Return, _Break, _Continue) as ex:
            pending = ex            # the finally clause runs also when the body / a handler raises, returns, breaks or continues
        if s.finalbody:
            self.block(s.finalbody, fr)
        if pending is not None:
            raise pending

    def exc_matches(self, e: PyRaise, t):
        ts = t if isinstance(t, tuple) else (t,)
        for x in ts:
            if isinstance(x, ExcClass) and e.isa(x.name):
                return True
            if isinstance(x, ExtModule) and x.name.endswith("ValidationError") and e.isa("ValidationError"):
                return True
        return False

    # ================================================================ expressions
    def eval(self, n, fr):
        m = getattr(self, "e_" + type(n).__name__, None)
        if m is None:
            raise AnalysisAbort(f"unsupported expression {type(n).__name__} (line {getattr(n, 'lineno', '?')})")
        try:
            return m(n, fr)
        except NumpyRaise as e:
            raise PyRaise(e.exc_name, n, e.msg, where=self.stack[-1] if self.stack else "")

    def e_Constant(self, n, fr):
        return n.value

    def lookup(self, name, fr, node=None):
        if name in fr.env:
            return fr.env[name]
        mg = self.__dict__.get("_module_globals")
        if mg and fr.module is not None and (fr.module.path, name) in mg:
            return mg[(fr.module.path, name)]
        if name in self.hooks:
            return self.hooks[name]
        if fr.module is not None:
            r = self.p.resolve_name(fr.module, name)
            if r is not None:
                return self.resolved(r, name)
        b = self.builtin(name)
        if b is not None:
            return b
        raise AnalysisAbort(f"unknown name {name} (line {getattr(node, 'lineno', '?')})")

    def const_value(self, expr, fr):
        """a module-level / class-level assignment is evaluated once (at import); a mutable value is therefore shared state"""
        k = id(expr)
        if k not in self._const_cache:
            self._const_cache[k] = (expr, self.eval(expr, fr))
        return self._const_cache[k][1]

    def resolved(self, r, name):
        if isinstance(r, (ClassInfo, FuncInfo)):
            return r
        if r[0] == "mod":
            return r[1]
        if r[0] == "const":
            return self.const_value(r[1], Frame({}, r[2], None, None))
        dotted = r[1]
        if dotted in self.hooks:
            return self.hooks[dotted]
        known = {
            "numpy": ExtModule("numpy"), "logging": ExtModule("logging"), "pandas": ExtModule("pandas"),
            "scipy.stats": ExtModule("scipy.stats"), "scipy": ExtModule("scipy"), "sys": ExtModule("sys"),
            "itertools": ExtModule("itertools"), "os": ExtModule("os"), "pickle": ExtModule("pickle"),
            "copy.copy": self.shallow_copy, "copy.deepcopy": self.deepcopy, "copy": ExtModule("copy"),
            "numbers.Number": NUMBER, "collections.abc.Iterable": ITERABLE, "typing.Iterable": ITERABLE,
            "typing.Callable": CALLABLE, "collections.abc.Callable": CALLABLE,
            "collections.defaultdict": lambda f=None: collections.defaultdict((lambda: f.ctor()) if isinstance(f, BT) else f),
            "typing.TYPE_CHECKING": False,
            "types.MappingProxyType": lambda d: ROMap(d),
            "collections.Counter": lambda it=(): collections.Counter(self.iterate(it) if not isinstance(it, dict) else it),
            "io.StringIO": lambda initial="": StringBuf(initial),
            "collections.deque": lambda it=(), maxlen=None: collections.deque(self.iterate(it), maxlen),
            "collections.OrderedDict": lambda *a, **k: dict(*[self.iterate(x) if not isinstance(x, dict) else x for x in a], **k),
            "functools.partial": lambda f, *a, **k: (lambda *a2, **k2: self.call(f, list(a) + list(a2), {**k, **k2})),
            "abc.abstractmethod": lambda f: f,
            "types.EllipsisType": BT("ellipsis", (type(Ellipsis),), lambda: Ellipsis), "types.NoneType": BT("NoneType", (type(None),), lambda: None),
            "functools.cache": self.memoised, "functools.lru_cache": lambda *a, **k: (self.memoised(a[0]) if a and not k and not isinstance(a[0], (int, type(None))) else self.memoised),
        }
        if dotted in known:
            return known[dotted]
        head, _, tail = dotted.partition(".")
        if head in ("math", "operator", "functools", "itertools", "string", "textwrap", "re", "unicodedata"):
            if not tail:
                return ExtModule(head)
            return self.ext_attr(ExtModule(head), tail, None)
        if dotted.startswith(("typing.", "pydantic.", "abc.")):
            return Marker(dotted)
        return ExtModule(dotted)

    def e_Name(self, n, fr):
        return self.lookup(n.id, fr, n)

    def e_Attribute(self, n, fr):
        v = self.eval(n.value, fr)
        if v == "super":
            raise AnalysisAbort("bare super")
        if isinstance(v, tuple) and len(v) == 3 and v[0] == "super()":
            _, obj, owner = v
            r = self.p.find_attr(obj.cls, n.attr, after=owner)
            if not r:
                raise PyRaise("AttributeError", n, f"super has no attribute {n.attr}")
            if r[0] == "property":
                return self.call_fn(r[1], [obj], {})
            return Bound(obj, r[1])
        if isinstance(v, ModuleInfo):
            r = self.p.resolve_name(v, n.attr)
            if r is None:
                raise PyRaise("AttributeError", n, f"module has no attribute {n.attr}")
            return self.resolved(r, n.attr)
        return self.get_attr(v, n.attr, n)

    def e_Tuple(self, n, fr):
        return tuple(self.elts(n.elts, fr))

    def e_List(self, n, fr):
        return list(self.elts(n.elts, fr))

    def e_Set(self, n, fr):
        return set(self.elts(n.elts, fr))

    def elts(self, es, fr):
        out = []
        for e in es:
            if isinstance(e, ast.Starred):
                out.extend(self.iterate(self.eval(e.value, fr)))
            else:
                out.append(self.eval(e, fr))
        return out

    def e_Dict(self, n, fr):
        d = {}
        for k, v in zip(n.keys, n.values):
            if k is None:
                d.update(self.eval(v, fr))
            else:
                d[self.eval(k, fr)] = self.eval(v, fr)
        return d

    def e_JoinedStr(self, n, fr):
        parts = []
        for v in n.values:
            if isinstance(v, ast.Constant):
                parts.append(str(v.value))
            else:
                try:
                    parts.append(self.to_str(self.eval(v.value, fr)))
                except (AnalysisAbort, ModelAbort):
                    parts.append("<?>")
        return "".join(parts)

    def e_Slice(self, n, fr):
        g = lambda x: None if x is None else self.eval(x, fr)
        return slice(g(n.lower), g(n.upper), g(n.step))

    def get_item(self, o, k, node):
        if isinstance(o, PyModel):
            if not hasattr(o, "__getitem__"):
                raise AnalysisAbort(f"subscripting a {type(o).__name__} is not modelled")
            return o.__getitem__(k)
        if isinstance(o, Obj):
            r = self.p.find_attr(o.cls, "__getitem__")
            if not r:
                raise PyRaise("TypeError", node, f"'{o.cls.name}' object is not subscriptable")
            return self.call_fn(r[1], [o, k], {})
        if isinstance(o, AArr):
            return NP.getitem(o, k)
        if isinstance(o, NP.IdxArr):
            try:
                return o[k]
            except NumpyRaise as e:
                raise PyRaise(e.exc_name, node, e.msg)
        if isinstance(o, (SymScalar, int, float)) or o is None:
            raise PyRaise("TypeError", node, f"'{self.tname(o)}' object is not subscriptable")
        if isinstance(o, (Marker, BT)):
            return o
        try:
            if isinstance(o, ItemList) and isinstance(k, slice):
                return ItemList(o[k])
            return o[k]
        except KeyError:
            raise PyRaise("KeyError", node, repr(k))
        except IndexError:
            raise PyRaise("IndexError", node, repr(k))
        except TypeError as e:
            raise PyRaise("TypeError", node, str(e))

    def e_Subscript(self, n, fr):
        return self.get_item(self.eval(n.value, fr), self.eval(n.slice, fr), n)

    def e_Starred(self, n, fr):
        raise AnalysisAbort("starred expression outside a call/display")

    def e_Call(self, n, fr):
        if isinstance(n.func, ast.Name) and n.func.id == "super" and "super" not in fr.env:
            return ("super()", fr.self_obj, fr.owner)
        f = self.eval(n.func, fr)
        args = self.elts(n.args, fr)
        kwargs = {}
        for k in n.keywords:
            if k.arg is None:
                kwargs.update(self.eval(k.value, fr))
            else:
                kwargs[k.arg] = self.eval(k.value, fr)
        return self.call(f, args, kwargs, n)

    def call(self, f, args, kwargs, node=None):
        self.tick(node)
        if isinstance(f, Bound):
            return self.call_fn(f.fn, [f.obj] + list(args), kwargs)
        if isinstance(f, ClsMethod):
            return self.call_fn(f.fn, [f.cls] + list(args), kwargs)
        if isinstance(f, ClassInfo):
            return self.construct(f, args, kwargs, node)
        if isinstance(f, FuncInfo):
            return self.call_fn(f, list(args), kwargs)
        if isinstance(f, Closure):
            return self.call_closure(f, args, kwargs)
        if isinstance(f, ExcClass):
            return ExcValue(f.name, args)
        if isinstance(f, TypeFn):
            return f(*args)
        if isinstance(f, BT):
            if f.ctor is None:
                raise AnalysisAbort(f"call of {f!r}")
            try:
                return f.ctor(*args, **kwargs)
            except (ValueError, TypeError) as e:
                raise PyRaise(type(e).__name__, node, str(e), where=self.stack[-1] if self.stack else "")
        if isinstance(f, ExtModule):
            return self.call_ext(f, args, kwargs, node)
        if isinstance(f, PyModel) and callable(f):
            return f(*args, **kwargs)
        if f is NDARRAY:        # np.ndarray(shape): an uninitialised array
            return NP.zeros(self.as_shape(args[0] if args else kwargs.get("shape")), SymScalar(("sym", "uninitialised")), "np.ndarray")
        if isinstance(f, Marker):
            raise AnalysisAbort(f"call of {f!r} is not modelled")
        if callable(f):
            host = type(f).__name__ in ("builtin_function_or_method", "method-wrapper", "method_descriptor", "wrapper_descriptor")
            try:
                return f(*args, **kwargs)
            except (ValueError, KeyError, IndexError, TypeError, AttributeError, ZeroDivisionError, StopIteration) as e:
                if host:      # a method of a plain list / tuple / dict / str raised: that is the analysed program's exception
                    raise PyRaise(type(e).__name__, node, str(e), where=self.stack[-1] if self.stack else "")
                if isinstance(e, TypeError):
                    raise AnalysisAbort(f"modelled library function called with unmodelled arguments: {e}")
                raise
        if isinstance(f, (Obj, NTuple)):
            r = self.p.find_attr(f.cls, "__call__")
            if r and r[0] == "method":
                return self.call_fn(r[1], [f] + list(args), kwargs)
        raise PyRaise("TypeError", node, f"'{self.tname(f)}' object is not callable")

    def call_closure(self, c: Closure, args, kwargs):
        env = dict(c.env)
        self.bind_args(c.node, args, dict(kwargs), env)
        fr = Frame(env, c.module, c.owner, None)
        if isinstance(c.node, ast.Lambda):
            return self.eval(c.node.body, fr)
        self.depth += 1
        try:
            if self.depth > self.max_depth:
                raise AnalysisAbort("inlining depth exceeded")
            try:
                self.block(c.node.body, fr)
            except _Return as r:
                return r.v
            return None
        finally:
            self.depth -= 1

    def call_ext(self, f: ExtModule, args, kwargs, node):
        if f.name in self.hooks:
            return self.hooks[f.name](*args, **kwargs)
        alt = self.resolved(("ext", f.name), f.name.split(".")[-1])      # e.g. `import io; io.StringIO()` = `from io import StringIO`
        if not isinstance(alt, (ExtModule, Marker)):
            return self.call(alt, list(args), dict(kwargs), node)
        if f.name == "pandas.Index" and args and isinstance(args[0], (list, tuple)):
            return LabelIndex(args[0], self)
        raise AnalysisAbort(f"call of external {f.name} is not modelled (line {getattr(node, 'lineno', '?')})")

    def e_Lambda(self, n, fr):
        return Closure(n, fr.env, fr.module, fr.owner, self)

    def e_IfExp(self, n, fr):
        return self.eval(n.body if self.truth(self.eval(n.test, fr)) else n.orelse, fr)

    def e_BoolOp(self, n, fr):
        last = len(n.values) - 1        # the last operand is the result as it is: Python does not test its truth
        if isinstance(n.op, ast.And):
            v = True
            for i, e in enumerate(n.values):
                v = self.eval(e, fr)
                if i < last and not self.truth(v):
                    return v
            return v
        v = False
        for i, e in enumerate(n.values):
            v = self.eval(e, fr)
            if i < last and self.truth(v):
                return v
        return v

    def e_NamedExpr(self, n, fr):
        v = self.eval(n.value, fr)
        fr.env[n.target.id] = v
        return v

    def e_UnaryOp(self, n, fr):
        v = self.eval(n.operand, fr)
        if isinstance(n.op, ast.Not):
            return not self.truth(v)
        if isinstance(n.op, ast.USub):
            if isinstance(v, Obj):
                return self.call_method(v, "__neg__")
            if isinstance(v, (AArr, SymScalar)):
                return NP.elementwise("neg", v)
            return -v
        if isinstance(n.op, ast.UAdd):
            return v
        raise AnalysisAbort("unary operator")

    DUNDER = {ast.Add: "add", ast.Sub: "sub", ast.Mult: "mul", ast.Div: "truediv", ast.Pow: "pow", ast.BitOr: "or",
              ast.BitAnd: "and", ast.BitXor: "xor", ast.FloorDiv: "floordiv", ast.Mod: "mod", ast.MatMult: "matmul"}
    NPOP = {ast.Add: "add", ast.Sub: "sub", ast.Mult: "mul", ast.Div: "div", ast.Pow: "pow"}

    def e_BinOp(self, n, fr):
        return self.binop(n.op, self.eval(n.left, fr), self.eval(n.right, fr), n)

    def binop(self, op, l, r, node):
        d = self.DUNDER.get(type(op))
        if d is None:
            raise AnalysisAbort(f"binary operator {type(op).__name__}")
        if isinstance(l, Obj):
            m = self.p.find_attr(l.cls, f"__{d}__")
            if m:
                res = self.call_fn(m[1], [l, r], {})
                if res is not NotImplemented:
                    return res
        if isinstance(r, Obj):
            m = self.p.find_attr(r.cls, f"__r{d}__")
            if m:
                return self.call_fn(m[1], [r, l], {})
        if isinstance(l, Obj) or isinstance(r, Obj):
            raise PyRaise("TypeError", node, f"unsupported operand type(s) for {d}: '{self.tname(l)}' and '{self.tname(r)}'")
        if isinstance(l, (AArr, SymScalar)) or isinstance(r, (AArr, SymScalar)):
            if type(op) not in self.NPOP:
                raise AnalysisAbort(f"array operator {d}")
            for x in (l, r):
                if not isinstance(x, (AArr, SymScalar, int, float)) or isinstance(x, str):
                    raise PyRaise("TypeError", node, f"unsupported operand type(s) for {d}: '{self.tname(l)}' and '{self.tname(r)}'")
            return NP.elementwise(self.NPOP[type(op)], l, r)
        try:
            if isinstance(op, ast.Add):
                if isinstance(l, ItemList) and isinstance(r, list):
                    return ItemList(list(l) + list(r))
                return l + r
            if isinstance(op, ast.Sub):
                return l - r
            if isinstance(op, ast.Mult):
                return l * r
            if isinstance(op, ast.Div):
                if isinstance(l, TInt) or isinstance(r, TInt):
                    self.tainted("arithmetic (true division) on a length-derived integer")
                    return int(l) / int(r) if not isinstance(l, float) and not isinstance(r, float) else float(l) / float(r)
                return l / r
            if isinstance(op, ast.FloorDiv):
                return l // r
            if isinstance(op, ast.Mod):
                return l % r
            if isinstance(op, ast.Pow):
                return l ** r
            if isinstance(op, ast.BitOr):
                return l | r
            if isinstance(op, ast.BitAnd):
                return l & r
            if isinstance(op, ast.BitXor):
                return l ^ r
        except TypeError as e:
            raise PyRaise("TypeError", node, str(e))
        except ZeroDivisionError as e:
            raise PyRaise("ZeroDivisionError", node, str(e))
        raise AnalysisAbort("binop")

    def contains(self, c, x, node=None):
        if isinstance(c, PyModel):
            if hasattr(c, "__contains__"):
                return c.__contains__(x)
            return any(y is x or self.py_eq(y, x) for y in self.iterate(c))
        if isinstance(c, Obj):
            r = self.p.find_attr(c.cls, "__contains__")
            if r:
                return self.truth(self.call_fn(r[1], [c, x], {}))
            return any(y is x or self.py_eq(y, x) for y in self.iterate(c))
        if isinstance(c, (list, tuple)):
            return any(y is x or self.py_eq(y, x) for y in c)
        if isinstance(c, (AArr, SymScalar)):
            raise AnalysisAbort("membership test on array data")
        try:
            return x in c
        except TypeError as e:
            raise PyRaise("TypeError", node, str(e))

    def e_Compare(self, n, fr):
        l = self.eval(n.left, fr)
        for op, rn in zip(n.ops, n.comparators):
            r = self.eval(rn, fr)
            v = self.compare(op, l, r, n)
            if isinstance(v, (AArr, SymScalar, NP.IdxArr, PyModel)):
                if len(n.ops) > 1:
                    raise AnalysisAbort("chained comparison on array data")
                return v        # an elementwise result, not a truth value
            if not v:
                return False
            l = r
        return True

    def compare(self, op, l, r, n):
        if isinstance(l, NP.IdxArr) or isinstance(r, NP.IdxArr):
            import operator as _op
            f = {ast.Eq: _op.eq, ast.NotEq: _op.ne, ast.Gt: _op.gt, ast.GtE: _op.ge, ast.Lt: _op.lt, ast.LtE: _op.le}.get(type(op))
            if f is None:
                raise AnalysisAbort("operator on an integer vector")
            lv = l.positions if isinstance(l, NP.IdxArr) else [l] * len(r.positions)
            rv = r.positions if isinstance(r, NP.IdxArr) else [r] * len(l.positions)
            if any(isinstance(x, TInt) for x in list(lv) + list(rv)):
                self.tainted("comparison on a vector of lengths")
            return NP.IdxArr([bool(f(int(a), int(b))) for a, b in zip(lv, rv)])
        if isinstance(op, ast.In):
            return self.contains(r, l, n)
        if isinstance(op, ast.NotIn):
            return not self.contains(r, l, n)
        if isinstance(op, ast.Is):
            return l is r or (l in (None, True, False) and l is r)
        if isinstance(op, ast.IsNot):
            return l is not r
        if isinstance(op, (ast.Eq, ast.NotEq)):
            for a, b in ((l, r), (r, l)):
                # np.array(dim.items) == item : the vector of item tests (items are known labels, so is the outcome)
                if isinstance(a, AArr) and a.ndim == 1 and isinstance(a.term, tuple) and a.term[:2] == ("in", "items") and NP.is_labelled(a.axes[0]) \
                        and not isinstance(b, (AArr, SymScalar, list, tuple, dict, NP.IdxArr)):
                    hits = [self.py_eq(it, b) for it in a.axes[0]]
                    return NP.IdxArr([bool(h) if isinstance(op, ast.Eq) else not h for h in hits])
        if isinstance(l, (AArr, SymScalar)) or isinstance(r, (AArr, SymScalar)):
            name = {ast.Eq: "eq", ast.NotEq: "ne", ast.Gt: "gt", ast.GtE: "ge", ast.Lt: "lt", ast.LtE: "le"}[type(op)]
            return self.data_compare(name, l, r, n)
        if isinstance(op, (ast.Eq, ast.NotEq)):
            for x in (l, r):
                if isinstance(x, TInt) and x.src is None:
                    self.tainted(f"equality test on a position-derived integer (line {n.lineno}) in {self.stack[-1] if self.stack else '?'}")
            self.length_eq_taint(l, r, n)
            return self.py_eq(l, r) if isinstance(op, ast.Eq) else not self.py_eq(l, r)
        def emptiness(x, y, o):
            """`len(..) > 0`, `len(..) >= 1`, `len(..) < 1`, `len(..) <= 0`: the same for every non-empty representative"""
            return isinstance(x, TInt) and x.src is not None and int(x) >= 1 and type(y) is int and \
                ((y == 0 and isinstance(o, (ast.Gt, ast.LtE))) or (y == 1 and isinstance(o, (ast.GtE, ast.Lt))))
        flip = {ast.Gt: ast.Lt, ast.Lt: ast.Gt, ast.GtE: ast.LtE, ast.LtE: ast.GtE}
        if (isinstance(l, TInt) or isinstance(r, TInt)) and not (emptiness(l, r, op) or emptiness(r, l, flip[type(op)]())):
            self.tainted(f"ordered comparison on a length/position-derived integer (line {n.lineno}) in "
                         f"{self.stack[-1] if self.stack else '?'}")
        try:
            if isinstance(op, ast.Gt):
                return l > r
            if isinstance(op, ast.GtE):
                return l >= r
            if isinstance(op, ast.Lt):
                return l < r
            if isinstance(op, ast.LtE):
                return l <= r
        except TypeError as e:
            if any(type(x).__module__.startswith("fdv") for x in (l, r)):
                raise AnalysisAbort(f"comparison of modelled objects is not modelled: {e}")
            raise PyRaise("TypeError", n, str(e))
        raise AnalysisAbort("comparison operator")

    def data_compare(self, name, l, r, n):
        # a purely symbolic number stands for the generic real: it differs from every literal
        for a, b in ((l, r), (r, l)):
            if isinstance(a, SymScalar) and a.term[0] == "sym" and isinstance(b, (int, float)) and not isinstance(b, TInt) and name in ("eq", "ne"):
                return name == "ne"
        return NP.elementwise(name, l, r)

    def comp(self, gens, fr, emit):
        def rec(i, env):
            if i == len(gens):
                emit(Frame(env, fr.module, fr.owner, fr.fn, fr.self_obj))
                return
            g = gens[i]
            f0 = Frame(env, fr.module, fr.owner, fr.fn, fr.self_obj)
            for x in self.iterate(self.eval(g.iter, f0)):
                e2 = dict(env)
                f2 = Frame(e2, fr.module, fr.owner, fr.fn, fr.self_obj)
                self.assign(g.target, x, f2)
                if all(self.truth(self.eval(c, f2)) for c in g.ifs):
                    rec(i + 1, e2)
        rec(0, dict(fr.env))

    def e_ListComp(self, n, fr):
        out = []
        self.comp(n.generators, fr, lambda f: out.append(self.eval(n.elt, f)))
        return out

    def e_GeneratorExp(self, n, fr):
        return iter(self.e_ListComp(n, fr))       # consumed once, advanced by next()

    def e_SetComp(self, n, fr):
        out = set()
        self.comp(n.generators, fr, lambda f: out.add(self.eval(n.elt, f)))
        return out

    def e_DictComp(self, n, fr):
        out = {}
        self.comp(n.generators, fr, lambda f: out.__setitem__(self.eval(n.key, f), self.eval(n.value, f)))
        return out


def run_guarded(fn):
    """run an abstract evaluation; -> ('ok', value) | ('raise', PyRaise) | ('violation', msg)"""
    try:
        return ("ok", fn())
    except PyRaise as e:
        return ("raise", e)
    except NumpyRaise as e:
        return ("raise", PyRaise(e.exc_name, None, e.msg))
    except ModelViolation as e:
        return ("violation", str(e))
    except ModelAbort as e:
        raise AnalysisAbort(str(e))
    except RecursionError:
        raise AnalysisAbort("recursion limit in the evaluator")
