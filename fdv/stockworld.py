"""Bounded-grid symbolic world for the stock / lifetime kernels (C03 C08 C09 C10 C16 C17).

Grid sizes are small and concrete; every number is symbolic: time items x0<x1<..., driver entries, lifetime
parameters (declared positive), distribution functions as uninterpreted function symbols.  The repository's code
is evaluated by SymInterp; the judgements below are the property statements themselves as exact identities of
rational functions, plus the documented formulas for interval bounds, ages and tables as oracles.
"""
from __future__ import annotations

import itertools
from fractions import Fraction

from .core import AnalysisError, Program
from .interp import Obj, PyRaise, run_guarded, AnalysisAbort
from .syminterp import SymInterp
from . import symnum as S
from .symnum import SArr, Rat, rat, fsym

LABEL_SIZES = {"a": 2, "b": 2}
DISTS = {
    "FixedLifetime": ("mean",), "NormalLifetime": ("mean", "std"), "FoldedNormalLifetime": ("mean", "std"),
    "LogNormalLifetime": ("mean", "std"), "WeibullLifetime": ("weibull_shape", "weibull_scale"),
}


class SW:
    def __init__(self, prog: Program, n_t=3, labels=(), shift=None, tag="", grid=None):
        self.prog, self.n_t, self.labels, self.tag = prog, n_t, tuple(labels), tag
        self.it = SymInterp(prog)
        for nm, (sym, expr) in gl_tables(prog).items():        # the interpreter sees the same named constants as the oracle
            self.it._const_cache[id(expr)] = (expr, {n: list(v) for n, v in sym.items()})
        sh = rat(0) if shift is None else shift
        self.prm_values = None      # {"A": number, "B": number}: concrete values for parameters given as a number
        self.zero_prm = None        # name of a parameter that is exactly 0 for the first item of the first label dimension
        if grid == "unit":              # the concrete grid 0, 1, 2, ... (ages are numbers: a fixed lifetime's indicator is exactly 0 or 1)
            self.x = [rat(i) + sh for i in range(n_t)]
        elif grid == "uneven-unit-span":   # concrete and UNEVEN, yet last - first == n - 1 (what a "consecutive years" test on the end points sees)
            from fractions import Fraction as _F
            base = [_F(0), _F(1, 2)] + [_F(i) for i in range(2, n_t)]
            self.x = [rat(v) + sh for v in base]
        elif grid == "ten-year":        # the concrete grid 0, 10, 20, ...: every interval is ten years long
            self.x = [rat(10 * i) + sh for i in range(n_t)]
        elif grid == "equidistant":       # x0, x0+h, x0+2h, ...: every interval has the same (symbolic, positive) length
            h = Rat.sym("h", "pos")
            self.x = [Rat.sym("x0") + h * i + sh for i in range(n_t)]
        else:
            # generic strictly increasing items: x0 and positive gaps d1, d2, ... (so every interval length has a decided sign)
            self.x = []
            cur = Rat.sym("x0") + sh
            for i in range(n_t):
                if i:
                    cur = cur + Rat.sym(f"d{i}", "pos")
                self.x.append(cur)
        D = prog.cls("Dimension")
        self.tdim = self.it.construct(D, [], dict(name="Time", letter="t", items=list(self.x)))
        self.ldims = [self.it.construct(D, [], dict(name=l * 2, letter=l, items=[f"{l}{j}" for j in range(LABEL_SIZES[l])])) for l in self.labels]
        self.dims = self.it.construct(prog.cls("DimensionSet"), [], dict(dim_list=[self.tdim] + self.ldims))
        self.shape = (n_t,) + tuple(LABEL_SIZES[l] for l in self.labels)
        self.layout = None          # "F": every stock array's values are a column-major (non-contiguous) view
        self.cancel_first = False   # the first-year driver of the second item of the first label dimension is MINUS that of the first item
        #                             (the labels cancel exactly in a total over the labels; each label on its own is not zero)
        self.tiny_label = False     # the driver of the SECOND item of the first label dimension is smaller by a factor eps^2 (eps: the
        #                             machine epsilon, an infinitesimal): a material traced in grams next to one traced in megatonnes

    # ---- symbols
    def label_indices(self):
        return list(itertools.product(*[range(LABEL_SIZES[l]) for l in self.labels]))

    def driver(self, name, sign=None, dtype="float"):
        data = []
        for idx in itertools.product(*[range(s) for s in self.shape]):
            nm = f"{name}_{'_'.join(map(str, idx))}"
            if self.cancel_first and len(idx) > 1 and idx[0] == 0 and idx[1] == 1:
                data.append(-Rat.sym(f"{name}_{'_'.join(map(str, (0, 0) + idx[2:]))}", sign))
                continue
            data.append(Rat.sym(nm, sign) * (S.eps_power(2) if self.tiny_label and len(idx) > 1 and idx[1] == 1 else 1))
            if dtype == "int":
                S.INTEGER_SYMBOLS.add(nm)
        return SArr(self.shape, data, dtype=dtype)

    def stock_array(self, name, values=None):
        kw = dict(dims=self.dims, name=name)
        if values is None and self.layout == "F":
            values = SArr.full(self.shape, 0)
        if values is not None:
            kw["values"] = S.f_layout(values) if self.layout == "F" else values
        return self.it.construct(self.prog.cls("StockArray"), [], kw)

    def param(self, name, over, version="A", sign="pos"):
        """a lifetime parameter: 'number' | 'all' (cohort x labels) | 'labels' | 'time'"""
        if version == "Neg":        # the inadmissible version: one sign per symbol, whoever builds it (history step or reference object)
            sign = "neg" if name in ("mean", "weibull_shape") else "pos"
        if over == "number" and self.prm_values and version in self.prm_values:
            v = rat(self.prm_values[version])
            return v, (lambda m, l, _v=v: _v)
        if over == "number":
            return Rat.sym(f"{name}{version}", sign), (lambda m, l, _n=name: Rat.sym(f"{_n}{version}", sign))
        FA = self.prog.cls("FlodymArray")
        plain = None
        if over.startswith("ndarray-"):
            # a plain NumPy array (no dimension letters): broadcast by NumPy's rules against (time, *labels); axes of length one
            # (keepdims style) repeat along that axis
            full = ["t"] + list(self.labels)
            plain = {"ndarray-full": full, "ndarray-cohort-column": ["t"], "ndarray-first-label-keepdims": list(self.labels[:1]),
                     "ndarray-last-label": list(self.labels[-1:])}.get(over)
            if plain is None:
                raise AnalysisError(over)
            first = full.index(plain[0]) if plain else len(full)
            shape_letters = full[first:]            # leading axes are dropped, the others kept with length one where the parameter does not vary
            letters = list(plain)
        elif over == "all":
            letters = ["t"] + list(self.labels)
        elif over == "labels":
            letters = list(self.labels)
        elif over == "time":
            letters = ["t"]
        elif over == "labels-reversed":
            letters = list(reversed(self.labels))
        elif over == "all-permuted":
            letters = list(reversed(self.labels)) + ["t"]
        elif over == "shared-first-cohort":
            letters = ["t"] + list(self.labels)
        elif over == "first-label":
            letters = list(self.labels[:1])
        elif over == "last-label":
            letters = list(self.labels[-1:])
        else:
            raise AnalysisError(over)
        dimobjs = {"t": self.tdim, **{l: d for l, d in zip(self.labels, self.ldims)}}
        ds = self.it.construct(self.prog.cls("DimensionSet"), [], dict(dim_list=[dimobjs[l] for l in letters]))
        sizes = [self.n_t if l == "t" else LABEL_SIZES[l] for l in letters]
        shared = over == "shared-first-cohort"     # all labels share the parameter of the first cohort, later cohorts differ

        def keyfix(key):
            if shared and key.get("t") == 0:
                return {"t": 0}
            return key
        per_cohort = self.prm_values.get(version) if (self.prm_values and over == "time") else None

        def value(key):
            if isinstance(per_cohort, (list, tuple)):
                return rat(per_cohort[key["t"]])        # concrete values, one per cohort
            if self.zero_prm == name and self.labels and key.get(self.labels[0]) == 0:
                return rat(0)           # e.g. no spread at all for one label: an exact zero next to generic values
            return Rat.sym(self._pname(name, version, key), sign)
        data = []
        for idx in itertools.product(*[range(s) for s in sizes]):
            key = keyfix({l: i for l, i in zip(letters, idx)})
            data.append(value(key))
        if plain is not None:
            shp = tuple((self.n_t if l == "t" else LABEL_SIZES[l]) if l in letters else 1 for l in shape_letters)
            arr = SArr(shp, data)
        else:
            arr = self.it.construct(FA, [], dict(dims=ds, values=SArr(tuple(sizes), data), name=name))

        def at(m, l, _letters=letters, _n=name):
            key = {}
            for k in _letters:
                key[k] = m if k == "t" else l[self.labels.index(k)]
            return value(keyfix(key))
        return arr, at

    @staticmethod
    def _pname(name, version, key):
        return f"{name}{version}[" + ",".join(f"{k}{v}" for k, v in sorted(key.items())) + "]"

    # ---- documented formulas (oracles)
    def bounds(self):
        x = self.x
        mid = [(x[i] + x[i + 1]) / 2 for i in range(self.n_t - 1)]
        return [mid[0] - (mid[1] - mid[0])] + mid + [mid[-1] + (mid[-1] - mid[-2])]

    def dt(self):
        b = self.bounds()
        return [b[i + 1] - b[i] for i in range(self.n_t)]

    def age(self, m2, m, eta):
        b = self.bounds()
        return b[m2 + 1] - (rat(eta) * b[m + 1] + (1 - rat(eta)) * b[m])

    def survival(self, cls_name, age, prm_at, m, l):
        """the survival function of the named distribution at `age` for cohort m, label l (scipy parametrisation)"""
        if cls_name == "FixedLifetime":
            v = self.it.cmp_scalar("lt", age, prm_at["mean"](m, l))
            return rat(int(v)) if isinstance(v, bool) else v
        if cls_name == "NormalLifetime":
            mu, sd = rat(prm_at["mean"](m, l)), rat(prm_at["std"](m, l))
            if sd.is_zero():
                return fsym("sf_norm", age, mu, sd, sign="nonneg")
            return fsym("ndtr", -(rat(age) - mu) / sd, sign="nonneg")       # norm.sf(x; loc, scale) = Phi(-(x - loc) / scale)
        if cls_name == "FoldedNormalLifetime":
            return fsym("sf_foldnorm", age, prm_at["mean"](m, l) / prm_at["std"](m, l), 0, prm_at["std"](m, l), sign="nonneg")
        if cls_name == "LogNormalLifetime":
            mu, sd = prm_at["mean"](m, l), prm_at["std"](m, l)
            m2, s2 = mu * mu, sd * sd
            new_mean = fsym("log", m2 / fsym("sqrt", m2 + s2))
            new_std = fsym("sqrt", fsym("log", 1 + s2 / m2))
            return fsym("sf_lognorm", age, new_std, 0, fsym("exp", new_mean), sign="nonneg")
        if cls_name == "WeibullLifetime":
            return fsym("sf_weibull_min", age, prm_at["weibull_shape"](m, l), 0, prm_at["weibull_scale"](m, l), sign="nonneg")
        raise AnalysisError(cls_name)


def gl_tables(prog):
    """the Gauss-Lobatto tables of gauss_lobatto.py (read from the AST).  Entries that are not exactly -1, 0, 1 or a small
    fraction are irrational numbers given as decimals: they enter the symbolic evaluation as NAMED constants (their values are
    the business of the exact table check C08.quadrature-table), so that every formula built from them is compared as an exact
    identity and not through floating-point rounding of one particular order of operations."""
    import ast
    mi = prog.modules.get("gauss_lobatto.py")
    if mi is None:
        raise AnalysisError("module gauss_lobatto.py not found")
    out = {}
    for nm in ("gl_nodes", "gl_weights"):
        if nm not in mi.consts:
            raise AnalysisError(f"table {nm} not found in gauss_lobatto.py")
        tab = ast.literal_eval(mi.consts[nm])
        sym = {}
        for n, vals in tab.items():
            row = []
            for k, v in enumerate(vals):
                fr = Fraction(v).limit_denominator(64)
                if abs(float(fr) - v) < 1e-15:
                    row.append(rat(fr))                 # -1, 0, 1, 1/3, 4/3, 1/6, 5/6 ...: exact
                else:
                    row.append(Rat.sym(f"{'glx' if nm == 'gl_nodes' else 'glw'}{n}_{k}", "pos" if v > 0 else "neg"))
            sym[n] = row
        out[nm] = (sym, mi.consts[nm])
    return out


def quad_rule(prog, n_pts, inflow_at):
    """nodes/weights on [0,1] as the property documents them"""
    if n_pts <= 1:
        return [{"start": Fraction(0), "middle": Fraction(1, 2), "end": Fraction(1)}[inflow_at]], [Fraction(1)]
    tabs = gl_tables(prog)
    nodes = [(x + 1) / 2 for x in tabs["gl_nodes"][0][n_pts]]
    weights = [w / 2 for w in tabs["gl_weights"][0][n_pts]]
    return nodes, weights


def expected_sf(sw: SW, cls_name, prm_at, inflow_at="middle", n_pts=1):
    nodes, weights = quad_rule(sw.prog, n_pts, inflow_at)
    shape = (sw.n_t, sw.n_t) + sw.shape[1:]
    out = SArr.full(shape, 0)
    for m in range(sw.n_t):
        for m2 in range(m, sw.n_t):
            for l in sw.label_indices():
                tot = rat(0)
                for eta, w in zip(nodes, weights):
                    tot = tot + rat(w) * sw.survival(cls_name, sw.age(m2, m, eta), prm_at, m, l)
                out.set((m2, m) + l, tot)
    return out


def expected_pdf(sw: SW, sf: SArr):
    out = SArr.full(sf.shape, 0)
    for m in range(sw.n_t):
        for l in sw.label_indices():
            out.set((m, m) + l, 1 - sf.get((m, m) + l))
            for m2 in range(m + 1, sw.n_t):
                out.set((m2, m) + l, sf.get((m2 - 1, m) + l) - sf.get((m2, m) + l))
    return out


def make_lifetime(sw: SW, cls_name, over="number", version="A", via="set_prms", inflow_at="middle", n_pts=1, sign="pos", set_params=True):
    cls = sw.prog.cls(cls_name)
    prms, at = {}, {}
    for nm in DISTS[cls_name]:
        prms[nm], at[nm] = sw.param(nm, over, version, sign=sign)
    kw = dict(dims=sw.dims, time_letter="t", inflow_at=inflow_at, n_pts_per_interval=n_pts)
    if via == "__init__" and set_params:
        kw.update(prms)
    lm = sw.it.construct(cls, [], kw)
    if via == "set_prms" and set_params:
        sw.it.call_method(lm, "set_prms", **prms)
    if via == "set_prms-positional" and set_params:
        # positional arguments in the documented order of the signature: set_prms(mean), (mean, std), (weibull_shape, weibull_scale)
        sw.it.call_method(lm, "set_prms", *[prms[nm] for nm in DISTS[cls_name]])
    return lm, prms, at


def arr_eq(a, b):
    if not isinstance(a, SArr) or not isinstance(b, SArr):
        return False
    if a.shape != b.shape:
        return False
    return all(x == y for x, y in zip(a.data, b.data))


def first_diff(a: SArr, b: SArr):
    if not isinstance(a, SArr) or not isinstance(b, SArr):
        return f"{type(a).__name__} vs {type(b).__name__}"
    if a.shape != b.shape:
        return f"shape {a.shape} vs {b.shape}"
    for idx, x, y in zip(a.indices(), a.data, b.data):
        if not (x == y):
            return f"at {idx}: {str(x)[:160]}  vs  {str(y)[:160]}"
    return None


def values(o: Obj) -> SArr:
    v = o.f["values"]
    if not isinstance(v, SArr):
        raise AnalysisAbort(f"values of {o.f.get('name')} is {type(v).__name__}")
    return v
