"""items_where on the exact array domain (Domain B): arrays with symbolic entries in EVERY memory layout (axis permutation of
the underlying buffer, as einsum / transpose / moveaxis views have), a condition whose outcome is a fixed set of positions,
and the reported rows compared with the true labels of exactly those positions.
"""
from __future__ import annotations

import itertools

from .core import Program
from .interp import run_guarded, AnalysisAbort
from .syminterp import SymInterp
from . import symnum as S
from .symnum import SArr, Rat, rat

QUAL = "FlodymArray.items_where"


class WCase:
    def __init__(self, inp):
        self.inp, self.verdicts = inp, []

    def v(self, aspect, ok, msg="", qual=QUAL):
        self.verdicts.append((aspect, bool(ok), msg, qual))


def laid_out(shape, perm, entry):
    """array of logical `shape` whose buffer stores the logical axes in the order `perm` (slowest first)"""
    n = len(shape)
    bshape = [shape[p] for p in perm]
    data = []
    for bidx in itertools.product(*[range(s) for s in bshape]):
        idx = [0] * n
        for j, p in enumerate(perm):
            idx[p] = bidx[j]
        data.append(entry(tuple(idx)))
    base = SArr(bshape, data)
    if list(perm) == list(range(n)):
        return base
    inv = [list(perm).index(k) for k in range(n)]
    return S.transpose(base, inv)


MASKS = {
    "one": lambda idx, shape: idx == tuple(s - 1 if k % 2 == 0 else 0 for k, s in enumerate(shape)),
    "two": lambda idx, shape: idx in (tuple(0 for _ in shape), tuple(s - 1 for s in shape)),
    "checker": lambda idx, shape: sum(idx) % 2 == 1,
    "first-row": lambda idx, shape: idx[0] == 0,
    "none": lambda idx, shape: False,
    "all": lambda idx, shape: True,
}


def case_items_where(prog: Program, letters, sizes, perm, mask_name):
    it = SymInterp(prog)
    case = WCase({"op": "items_where", "dims": list(letters), "lengths": list(sizes), "memory_order_of_axes": list(perm), "true_entries": mask_name})
    D = prog.cls("Dimension")
    items = [[f"{l}{j}" for j in range(n)] for l, n in zip(letters, sizes)]
    dims = [it.construct(D, [], dict(name=l * 2, letter=l, items=list(its))) for l, its in zip(letters, items)]
    ds = it.construct(prog.cls("DimensionSet"), [], dict(dim_list=dims))
    shape = tuple(sizes)
    values = laid_out(shape, perm, lambda idx: Rat.sym("v_" + "_".join(map(str, idx))))
    x = it.construct(prog.cls("FlodymArray"), [], dict(dims=ds, values=values, name="x"))
    truth = MASKS[mask_name]
    true_idx = [idx for idx in itertools.product(*[range(s) for s in shape]) if truth(idx, shape)]

    def condition(v):
        if not isinstance(v, SArr) or tuple(v.shape) != shape:
            raise AnalysisAbort("items_where hands the condition something else than the values array")
        return laid_out(shape, perm, lambda idx: rat(1 if truth(idx, shape) else 0))       # same layout as the values, as `values > 0` has
    kind, r = run_guarded(lambda: it.call_method(x, "items_where", condition))
    want = sorted(tuple(items[k][i] for k, i in enumerate(idx)) for idx in true_idx)
    if kind != "ok":
        case.v("where", False, f"items_where ended with {kind}: {getattr(r, 'exc_name', r)} {getattr(r, 'msg', '')[:120]}")
        return case
    if not isinstance(r, SArr):
        case.v("where", False, f"items_where returned a {type(r).__name__}")
        return case
    if not true_idx:
        case.v("where", r.size == 0, f"no entry meets the condition, but {r.size} label(s) are reported")
        return case
    if r.ndim != 2 or r.shape != (len(true_idx), len(letters)):
        case.v("where", False, f"{len(true_idx)} entries of a {len(letters)}-d array meet the condition; the report has shape {r.shape}")
        return case
    rows = sorted(tuple(r.get((i, k)) for k in range(len(letters))) for i in range(r.shape[0]))
    rows = [tuple(str(c) if not isinstance(c, str) else c for c in row) for row in rows]
    if rows != want:
        wrong = [row for row in rows if row not in want][:3]
        missing = [row for row in want if row not in rows][:3]
        case.v("where", False, f"entries are reported under labels they do not carry: reported {wrong} although not meeting the condition; {missing} meet it and are not reported")
    else:
        case.v("where", True)
    return case


def where_jobs(tier):
    jobs = []
    maxd = 3 if tier == "quick" else 4
    for n in range(1, maxd + 1):
        letters = "abcd"[:n]
        for sizes in ([2, 3, 4, 2][:n], [2, 2, 2, 2][:n], [3, 1, 2, 2][:n]):
            for perm in itertools.permutations(range(n)):
                for m in MASKS:
                    if n == 4 and m in ("none", "all"):
                        continue
                    jobs.append((letters, tuple(sizes), perm, m))
    return jobs


def case_split_exact(prog: Program, letters, sizes, perm, split_letter):
    """split on the exact array domain (memory layout modelled): every part holds the entries of its item and shares no memory with
    the source - whatever the layout of the source's values and whichever dimension is split"""
    it = SymInterp(prog)
    case = WCase({"op": "split", "dims": list(letters), "lengths": list(sizes), "memory_order_of_axes": list(perm), "split": split_letter})
    qual = "FlodymArray.split"
    D = prog.cls("Dimension")
    items = [[f"{l}{j}" for j in range(n)] for l, n in zip(letters, sizes)]
    dims = [it.construct(D, [], dict(name=l * 2, letter=l, items=list(its))) for l, its in zip(letters, items)]
    ds = it.construct(prog.cls("DimensionSet"), [], dict(dim_list=dims))
    shape = tuple(sizes)
    values = laid_out(shape, perm, lambda idx: Rat.sym("v_" + "_".join(map(str, idx))))
    x = it.construct(prog.cls("FlodymArray"), [], dict(dims=ds, values=values, name="x"))
    xv = x.f["values"]
    kind, r = run_guarded(lambda: it.call_method(x, "split", split_letter))
    if kind != "ok" or not isinstance(r, dict):
        case.v("split", False, f"split ended with {kind}: {getattr(r, 'msg', r)!s:.120}", qual)
        return case
    k = letters.index(split_letter)
    ok_content, shared = True, []
    if list(r.keys()) != items[k]:
        ok_content = False
    for j, item in enumerate(items[k]):
        part = r.get(item)
        pv = part.f.get("values") if hasattr(part, "f") else None
        if not isinstance(pv, SArr):
            ok_content = False
            continue
        rest = tuple(s for i, s in enumerate(shape) if i != k)
        if tuple(pv.shape) != rest:
            ok_content = False
            continue
        for ridx in itertools.product(*[range(s) for s in rest]):
            full = ridx[:k] + (j,) + ridx[k:]
            if not (pv.get(ridx) == xv.get(full)):
                ok_content = False
        if pv.base is xv.base:
            shared.append(item)
    case.v("split", ok_content, "the parts do not hold the entries of their items", qual)
    case.v("fresh", not shared, f"the part(s) for {shared[:3]} share memory with the source array: writing into one changes the other", qual)
    return case


def split_jobs(tier):
    jobs = []
    for n in (1, 2, 3):
        letters = "abc"[:n]
        for sizes in ([2, 3, 2][:n], [1, 2, 2][:n]):
            for perm in itertools.permutations(range(n)):
                for l in letters:
                    jobs.append((letters, tuple(sizes), perm, l))
    return jobs
