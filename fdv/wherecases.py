"""items_where on the exact array domain (Domain B): arrays with symbolic entries in EVERY memory layout (axis permutation of
the underlying buffer, as einsum / transpose / moveaxis views have), a condition whose outcome is a fixed set of positions,
and the reported rows compared with the true labels of exactly those positions.
"""
from __future__ import annotations

import itertools

from .core import Program
from .interp import run_guarded, AnalysisAbort
from .syminterp import SymInterp
from . import symnum as S
from .symnum import SArr, Rat, rat

QUAL = "FlodymArray.items_where"


class WCase:
    def __init__(self, inp):
        self.inp, self.verdicts = inp, []

    def v(self, aspect, ok, msg="", qual=QUAL):
        self.verdicts.append((aspect, bool(ok), msg, qual))


def laid_out(shape, perm, entry):
    """array of logical `shape` whose buffer stores the logical axes in the order `perm` (slowest first)"""
    n = len(shape)
    bshape = [shape[p] for p in perm]
    data = []
    for bidx in itertools.product(*[range(s) for s in bshape]):
        idx = [0] * n
        for j, p in enumerate(perm):
            idx[p] = bidx[j]
        data.append(entry(tuple(idx)))
    base = SArr(bshape, data)
    if list(perm) == list(range(n)):
        return base
    inv = [list(perm).index(k) for k in range(n)]
    return S.transpose(base, inv)


MASKS = {
    "one": lambda idx, shape: idx == tuple(s - 1 if k % 2 == 0 else 0 for k, s in enumerate(shape)),
    "two": lambda idx, shape: idx in (tuple(0 for _ in shape), tuple(s - 1 for s in shape)),
    "checker": lambda idx, shape: sum(idx) % 2 == 1,
    "first-row": lambda idx, shape: idx[0] == 0,
    "none": lambda idx, shape: False,
    "all": lambda idx, shape: True,
}


def case_items_where(prog: Program, letters, sizes, perm, mask_name):
    it = SymInterp(prog)
    case = WCase({"op": "items_where", "dims": list(letters), "lengths": list(sizes), "memory_order_of_axes": list(perm), "true_entries": mask_name})
    D = prog.cls("Dimension")
    items = [[f"{l}{j}" for j in range(n)] for l, n in zip(letters, sizes)]
    dims = [it.construct(D, [], dict(name=l * 2, letter=l, items=list(its))) for l, its in zip(letters, items)]
    ds = it.construct(prog.cls("DimensionSet"), [], dict(dim_list=dims))
    shape = tuple(sizes)
    values = laid_out(shape, perm, lambda idx: Rat.sym("v_" + "_".join(map(str, idx))))
    x = it.construct(prog.cls("FlodymArray"), [], dict(dims=ds, values=values, name="x"))
    truth = MASKS[mask_name]
    true_idx = [idx for idx in itertools.product(*[range(s) for s in shape]) if truth(idx, shape)]

    def condition(v):
        if not isinstance(v, SArr) or tuple(v.shape) != shape:
            raise AnalysisAbort("items_where hands the condition something else than the values array")
        return laid_out(shape, perm, lambda idx: rat(1 if truth(idx, shape) else 0))       # same layout as the values, as `values > 0` has
    kind, r = run_guarded(lambda: it.call_method(x, "items_where", condition))
    want = sorted(tuple(items[k][i] for k, i in enumerate(idx)) for idx in true_idx)
    if kind != "ok":
        case.v("where", False, f"items_where ended with {kind}: {getattr(r, 'exc_name', r)} {getattr(r, 'msg', '')[:120]}")
        return case
    if not isinstance(r, SArr):
        case.v("where", False, f"items_where returned a {type(r).__name__}")
        return case
    if not true_idx:
        case.v("where", r.size == 0, f"no entry meets the condition, but {r.size} label(s) are reported")
        return case
    if r.ndim != 2 or r.shape != (len(true_idx), len(letters)):
        case.v("where", False, f"{len(true_idx)} entries of a {len(letters)}-d array meet the condition; the report has shape {r.shape}")
        return case
    rows = sorted(tuple(r.get((i, k)) for k in range(len(letters))) for i in range(r.shape[0]))
    rows = [tuple(str(c) if not isinstance(c, str) else c for c in row) for row in rows]
    if rows != want:
        wrong = [row for row in rows if row not in want][:3]
        missing = [row for row in want if row not in rows][:3]
        case.v("where", False, f"entries are reported under labels they do not carry: reported {wrong} although not meeting the condition; {missing} meet it and are not reported")
    else:
        case.v("where", True)
    return case


def where_jobs(tier):
    jobs = []
    maxd = 3 if tier == "quick" else 4
    for n in range(1, maxd + 1):
        letters = "abcd"[:n]
        for sizes in ([2, 3, 4, 2][:n], [2, 2, 2, 2][:n], [3, 1, 2, 2][:n]):
            for perm in itertools.permutations(range(n)):
                for m in MASKS:
                    if n == 4 and m in ("none", "all"):
                        continue
                    jobs.append((letters, tuple(sizes), perm, m))
    return jobs


def case_split_exact(prog: Program, letters, sizes, perm, split_letter):
    """split on the exact array domain (memory layout modelled): every part holds the entries of its item and shares no memory with
    the source - whatever the layout of the source's values and whichever dimension is split"""
    it = SymInterp(prog)
    case = WCase({"op": "split", "dims": list(letters), "lengths": list(sizes), "memory_order_of_axes": list(perm), "split": split_letter})
    qual = "FlodymArray.split"
    D = prog.cls("Dimension")
    items = [[f"{l}{j}" for j in range(n)] for l, n in zip(letters, sizes)]
    dims = [it.construct(D, [], dict(name=l * 2, letter=l, items=list(its))) for l, its in zip(letters, items)]
    ds = it.construct(prog.cls("DimensionSet"), [], dict(dim_list=dims))
    shape = tuple(sizes)
    values = laid_out(shape, perm, lambda idx: Rat.sym("v_" + "_".join(map(str, idx))))
    x = it.construct(prog.cls("FlodymArray"), [], dict(dims=ds, values=values, name="x"))
    xv = x.f["values"]
    kind, r = run_guarded(lambda: it.call_method(x, "split", split_letter))
    if kind != "ok" or not isinstance(r, dict):
        case.v("split", False, f"split ended with {kind}: {getattr(r, 'msg', r)!s:.120}", qual)
        return case
    k = letters.index(split_letter)
    ok_content, shared = True, []
    if list(r.keys()) != items[k]:
        ok_content = False
    for j, item in enumerate(items[k]):
        part = r.get(item)
        pv = part.f.get("values") if hasattr(part, "f") else None
        if not isinstance(pv, SArr):
            ok_content = False
            continue
        rest = tuple(s for i, s in enumerate(shape) if i != k)
        if tuple(pv.shape) != rest:
            ok_content = False
            continue
        for ridx in itertools.product(*[range(s) for s in rest]):
            full = ridx[:k] + (j,) + ridx[k:]
            if not (pv.get(ridx) == xv.get(full)):
                ok_content = False
        if pv.base is xv.base:
            shared.append(item)
    case.v("split", ok_content, "the parts do not hold the entries of their items", qual)
    case.v("fresh", not shared, f"the part(s) for {shared[:3]} share memory with the source array: writing into one changes the other", qual)
    return case


def split_jobs(tier):
    jobs = []
    for n in (1, 2, 3):
        letters = "abc"[:n]
        for sizes in ([2, 3, 2][:n], [1, 2, 2][:n]):
            for perm in itertools.permutations(range(n)):
                for l in letters:
                    jobs.append((letters, tuple(sizes), perm, l))
    return jobs


# ------------------------------------------------------------------------------------------------------------------------------
# indexing by labels on the exact array domain: unusual but legal labels (the labelled-tensor domain identifies an item by its
# text, so two dimensions with the SAME items, the labels 0 / "" and typed labels are evaluated here, with concrete item lists)
INDEX_WORLDS = {
    # name: list of (letter, name, items, dtype name or None)
    "same-items": [("o", "Origin", ["EUR", "USA"], None), ("d", "Destination", ["EUR", "USA"], None), ("g", "Good", ["x", "y", "z"], None)],
    "falsy-labels": [("n", "Number", [0, 1, 2], "int"), ("s", "Text", ["", "x"], "str")],
    "typed-years": [("t", "Time", [2020, 2021, 2022], "int"), ("a", "Aa", ["a0", "a1"], "str")],
}


def case_index_exact(prog: Program, world, order, op, key_desc):
    """key_desc: ('dict', {letter or name: item | [items]}) | ('tuple', (item, ...)) | ('item', item); expectation from the labels"""
    it = SymInterp(prog)
    spec = INDEX_WORLDS[world]
    by_letter = {l: (l, n, its, dt) for l, n, its, dt in spec}
    dims_spec = [by_letter[l] for l in order]
    case = WCase({"op": op, "world": world, "dims": list(order), "key": repr(key_desc[1])})
    qual = "FlodymArray.__getitem__" if op == "read" else "FlodymArray.__setitem__"
    D = prog.cls("Dimension")
    dims = []
    for l, n, its, dt in dims_spec:
        kw = dict(name=n, letter=l, items=list(its))
        if dt:
            kw["dtype"] = it.builtin(dt)
        dims.append(it.construct(D, [], kw))
    ds = it.construct(prog.cls("DimensionSet"), [], dict(dim_list=dims))
    shape = tuple(len(s[2]) for s in dims_spec)
    values = SArr(shape, [Rat.sym("v_" + "_".join(map(str, idx))) for idx in itertools.product(*[range(n) for n in shape])])
    x = it.construct(prog.cls("FlodymArray"), [], dict(dims=ds, values=values, name="x"))
    before = list(values.data)
    # the selection the key MEANS: {position of the dimension: [positions of items]} and which dimensions are dropped
    sel, dropped, unknown = {}, set(), False
    kind_, payload = key_desc
    pairs = []
    if kind_ == "dict":
        for k, v in payload.items():
            hit = [i for i, s in enumerate(dims_spec) if k in (s[0], s[1])]
            if len(hit) != 1:
                unknown = True
                continue
            pairs.append((hit[0], v))
    else:
        for item in (payload if kind_ == "tuple" else (payload,)):
            hit = [i for i, s in enumerate(dims_spec) if any(type(x_) is type(item) and x_ == item for x_ in s[2])]
            if len(hit) != 1:
                unknown = True      # not an item of exactly one dimension
                continue
            pairs.append((hit[0], item))
    for i, v in pairs:
        items = dims_spec[i][2]
        vs = v if isinstance(v, list) else [v]
        for one in vs:
            if not any(type(x_) is type(one) and x_ == one for x_ in items):
                unknown = True
        if unknown:
            continue
        pos = [next(j for j, x_ in enumerate(items) if type(x_) is type(one) and x_ == one) for one in vs]
        if i in sel:
            sel[i] = sel[i] + pos
        else:
            sel[i] = pos
            if not isinstance(v, list):
                dropped.add(i)
    for i in list(sel):
        if len(sel[i]) > 1:
            dropped.discard(i)
    key = payload
    if op == "read":
        kind, r = run_guarded(lambda: it.call_method(x, "__getitem__", key))
        if unknown:
            case.v("index", kind == "raise", f"a key with a label that is not an item of the addressed dimension was accepted ({key!r})", qual)
            return case
        if kind != "ok" or not hasattr(r, "f") or not isinstance(r.f.get("values"), SArr):
            case.v("index", False, f"x[{key!r}] ended with {kind}: {getattr(r, 'msg', r)!s:.120}", qual)
            return case
        keep = [i for i in range(len(shape)) if i not in dropped]
        want_letters = tuple(dims_spec[i][0] for i in keep)
        got_letters = tuple(d.f["letter"] for d in r.f["dims"].f["dim_list"])
        rv = r.f["values"]
        ok = got_letters == want_letters
        if ok:
            ranges = [sel.get(i, list(range(shape[i]))) for i in keep]
            ok = tuple(rv.shape) == tuple(len(rg) for rg in ranges)
            if ok:
                for ridx in itertools.product(*[range(len(rg)) for rg in ranges]):
                    full = [None] * len(shape)
                    for i in dropped:
                        full[i] = sel[i][0]
                    for kk, i in enumerate(keep):
                        full[i] = ranges[kk][ridx[kk]]
                    if not (rv.get(ridx) == values.get(tuple(full))):
                        ok = False
                        break
        case.v("index", ok, f"x[{key!r}] over dims {order} does not hold exactly the entries carrying these labels (result dims {got_letters}, expected {want_letters})", qual)
        return case
    # write of a number
    kind, r = run_guarded(lambda: it.call_method(x, "__setitem__", key, rat(7)))
    if unknown:
        ok = kind == "raise" and all(a == b for a, b in zip(x.f["values"].data, before))
        case.v("index", ok, f"a write with a label that is not an item of the addressed dimension was accepted / changed the array ({key!r})", qual)
        return case
    if kind != "ok":
        case.v("index", False, f"x[{key!r}] = 7 ended with {kind}: {getattr(r, 'msg', r)!s:.120}", qual)
        return case
    now = x.f["values"]
    ok = True
    for idx in itertools.product(*[range(n) for n in shape]):
        inside = all(idx[i] in sel[i] for i in sel)
        want = rat(7) if inside else values.get(idx) if False else None
        got = now.get(idx)
        if inside:
            ok = ok and (got == rat(7))
        else:
            ok = ok and (got == before[sum(i * s for i, s in zip(idx, S._strides(shape)))])
    case.v("index", ok, f"x[{key!r}] = 7 over dims {order} did not change exactly the entries carrying these labels", qual)
    return case


def index_exact_jobs(tier):
    jobs = []
    for order in (("o", "d", "g"), ("d", "o", "g"), ("g", "d", "o")):
        for key in (("dict", {"d": "EUR"}), ("dict", {"o": "USA"}), ("dict", {"Destination": "USA"}), ("dict", {"d": "USA", "o": "EUR"}), ("dict", {"d": ["USA", "EUR"]}),
                    ("item", "y"), ("tuple", ("x", "z")), ("item", "EUR"),
                    # one fault per key is refused - and so are two faults together (an item of two dimensions next to an unknown one)
                    ("tuple", ("EUR", "typo")), ("tuple", ("EUR", "y")), ("tuple", ("y", "typo")), ("tuple", ("typo", "EUR", "y"))):
            for op in ("read", "write"):
                if op == "read" and isinstance(list(key[1].values())[0] if key[0] == "dict" else None, list):
                    continue
                if op == "read" and key == ("tuple", ("x", "z")):
                    continue
                jobs.append(("same-items", order, op, key))
    for order in (("n", "s"), ("s", "n")):
        for key in (("item", 0), ("tuple", (0, 2)), ("tuple", (2, 0)), ("item", ""), ("tuple", ("", "x")), ("dict", {"n": 0}), ("dict", {"s": ""}), ("dict", {"n": [0, 1]}),
                    ("tuple", (0, "")), ("item", 5), ("dict", {"n": 7})):
            for op in ("read", "write"):
                if op == "read" and (key[0] == "tuple" and len({type(v) for v in key[1]}) == 1 or (key[0] == "dict" and isinstance(list(key[1].values())[0], list))):
                    continue
                jobs.append(("falsy-labels", order, op, key))
    for order in (("t", "a"), ("a", "t")):
        for key in (("dict", {"t": 2021}), ("dict", {"t": 2020.5}), ("dict", {"t": [2020, 2022.7]}), ("dict", {"t": "2021"}), ("item", 2022), ("item", 2022.5), ("dict", {"Time": 2022, "a": "a1"})):
            for op in ("read", "write"):
                if op == "read" and key[0] == "dict" and isinstance(list(key[1].values())[0], list):
                    continue
                jobs.append(("typed-years", order, op, key))
    return jobs
